#!/bin/bash
# Sensitivity self-test: applies one patch to a scratch copy of /repo, checks that the
# repository's own tests still pass and that the quick tier of the targeted property fails.
#   ./selftest.sh <patch-file> <ID> [-R] [tier]
# Exit 0 = the mutant compiled, passed the repo tests and was caught (check exit 1).
set -u
PATCH="$(readlink -f "${1:?patch}")"
ID="${2:?property id}"
REV=""
TIER="quick"
shift 2
for a in "$@"; do case "$a" in -R) REV="-R";; quick|thorough) TIER="$a";; esac; done
S="$(mktemp -d /tmp/mqv-selftest.XXXXXX)"
trap 'rm -rf "$S"' EXIT
mkdir -p "$S/verif"
rsync -a --exclude target --exclude .git /repo/ "$S/repo/"
rsync -a --exclude target --exclude work --exclude replays --exclude evidence --exclude .git --exclude 'fuzz/target' --exclude 'fuzz/corpus' --exclude 'fuzz/artifacts' "${SELFTEST_VERIF:-/verif}/" "$S/verif/"
if ! (cd "$S/repo" && patch -p1 $REV --quiet < "$PATCH"); then echo "SELFTEST $ID $(basename "$PATCH"): patch does not apply"; exit 3; fi
export CARGO_NET_OFFLINE=true
if [ "${SKIP_REPO_TESTS:-0}" != 1 ]; then
  if ! (cd "$S/repo" && timeout 600 cargo test --workspace --no-fail-fast --offline >"$S/test.log" 2>&1); then
    echo "SELFTEST $ID $(basename "$PATCH"): repo tests FAIL with the patch (not a valid mutant)"; tail -15 "$S/test.log"; exit 4
  fi
fi
(cd "$S/verif" && ./check.sh "$ID" "$TIER" >"$S/check.log" 2>&1)
rc=$?
grep -E "^(VIOLATION|FAILED|KNOWN-FINDING|BROKEN|INCONCLUSIVE|BUILD-FAILED)" "$S/check.log" | cut -c1-400 | head -5
if [ "$rc" = 1 ]; then echo "SELFTEST $ID $(basename "$PATCH") $REV: CAUGHT"; exit 0; fi
echo "SELFTEST $ID $(basename "$PATCH") $REV: MISSED (check exit $rc)"; tail -5 "$S/check.log"
exit 1
