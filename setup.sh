#!/bin/bash
# Builds the harness (both profiles) offline from files on disk only.
set -eu
ROOT="$(cd "$(dirname "$0")" && pwd)"
cd "$ROOT"
export CARGO_NET_OFFLINE=true
mkdir -p work evidence replays
(cd harness && cargo build --profile relcheck --bin mqv && cargo build --release --bin mqv)
echo "setup ok"
