#!/bin/bash
# Entry point registered in MANIFEST.json.
#   ./check.sh <ID> <quick|thorough>     run one property's check (exit 0 held / 1 violation / 2 inconclusive)
#   ./check.sh replay <file>             re-execute a saved failing input, bypassing proptest/libFuzzer
# Always rebuilds the harness against /repo's current working tree (path dependency).
set -u
ROOT="$(cd "$(dirname "$0")" && pwd)"
cd "$ROOT"
export CARGO_NET_OFFLINE=true
export CARGO_TERM_COLOR=never
mkdir -p work evidence replays
TWO_PROFILE=" C01 C02 C03 C04 C05 C06 C07 C08 C09 C10 C11 C12 C13 C14 C15 C16 C17 C18 C19 C20 "
RELCHECK_BIN="$ROOT/target/relcheck/mqv"
RELEASE_BIN="$ROOT/target/release/mqv"
DEV_BIN="$ROOT/target/devcheck/mqv"
DEEP_IDS=" C01 C03 C16 C17 C18 "

build() { # $1 = profile
  local log="work/build-$1-$$.log"
  if ! (cd harness && cargo build --profile "$1" --bin mqv) >"$log" 2>&1; then
    echo "BUILD-FAILED (profile $1): the harness does not build against the current /repo tree" >&2
    tail -40 "$log" >&2
    rm -f "$log"
    exit 2
  fi
  rm -f "$log"
}

if [ "${1:-}" = "replay" ]; then
  file="${2:?usage: ./check.sh replay <file>}"
  if grep -q '"sub": "miri"' "$file" 2>/dev/null; then
    K=$(sed -n 's/.*"kind": "\(.*\)".*/\1/p' "$file"); H=$(sed -n 's/.*"hex": "\(.*\)".*/\1/p' "$file"); P=$(sed -n 's/.*"property": "\(.*\)".*/\1/p' "$file")
    if (cd harness && MIRIFLAGS="-Zmiri-disable-isolation" cargo +nightly miri run --bin miri_suite -- only "$K" "$H") >work/replay-miri-$$.log 2>&1; then echo "replay: Miri reports nothing on this case"; exit 0; fi
    grep -E "error: Undefined Behavior|MIRI-SUITE-VIOLATION|panicked at" work/replay-miri-$$.log | head -3
    echo "VIOLATION property=$P replay=$file"; exit 1
  fi
  if grep -q '"sub": "fuzz-artifact"' "$file" 2>/dev/null; then
    T=$(sed -n 's/.*"target": "\(.*\)".*/\1/p' "$file"); A=$(sed -n 's/.*"artifact": "\(.*\)".*/\1/p' "$file"); P=$(sed -n 's/.*"property": "\(.*\)".*/\1/p' "$file")
    (cd harness && cargo +nightly fuzz build "$T") >work/build-fuzz-$$.log 2>&1 || { tail -20 work/build-fuzz-$$.log >&2; exit 2; }
    if MQV_ROOT="$ROOT" "$ROOT/target/x86_64-unknown-linux-gnu/release/$T" "$A" >work/replay-fuzz-$$.log 2>&1; then echo "replay: fuzz target $T passes on $A"; exit 0; fi
    grep -a -E "MQV-VIOLATION|ERROR: AddressSanitizer|panicked at" work/replay-fuzz-$$.log | head -3
    echo "VIOLATION property=$P replay=$file"; exit 1
  fi
  build relcheck
  build release
  rc=0
  "$RELCHECK_BIN" replay "$file" --root "$ROOT" || rc=$?
  rc2=0
  "$RELEASE_BIN" replay "$file" --root "$ROOT" || rc2=$?
  if [ "$rc" = 1 ] || [ "$rc2" = 1 ]; then exit 1; fi
  if [ "$rc" != 0 ] || [ "$rc2" != 0 ]; then exit 2; fi
  exit 0
fi

ID="${1:?usage: ./check.sh <ID> <quick|thorough>}"
TIER="${2:-${VERIF_TIER:-quick}}"
SEED="${VERIF_SEED:-0}"
build relcheck
EXTRA=()
case "$TWO_PROFILE" in *" $ID "*) build release; EXTRA=(--release-bin "$RELEASE_BIN");; esac
case "$DEEP_IDS" in *" $ID "*) build devcheck; EXTRA+=(--dev-bin "$DEV_BIN");; esac
if [ "$TIER" = thorough ]; then LIMIT=5400; else LIMIT=900; fi
FUZZ_IDS=" C03 C04 C06 C11 C12 "
if [ "$TIER" = thorough ] && [ "${MQV_NO_FUZZ:-0}" != 1 ]; then
  case "$FUZZ_IDS" in *" $ID "*)
    build release
    "$ROOT/fuzz.sh" "$ID" "$SEED" || exit $?
    # the raw-input corpora are replayed through the plain binaries by the check itself
    CORPUS="$ROOT/work/fuzz/$ID/corpus"
    EXTRA+=(--fuzz-stats "$ROOT/work/fuzz/$ID/stats.json" --fuzz-corpus "$CORPUS");;
  esac
fi
if [ "$TIER" = thorough ] && [ "${MQV_NO_MIRI:-0}" != 1 ]; then
  case " C03 C05 " in *" $ID "*)
    "$ROOT/miri.sh" "$ID" || exit $?
    EXTRA+=(--miri-stats "$ROOT/work/miri/$ID/stats.json");;
  esac
fi
timeout --signal=KILL "$LIMIT" "$RELCHECK_BIN" check "$ID" --tier "$TIER" --seed "$SEED" --root "$ROOT" "${EXTRA[@]}"
rc=$?
if [ "$rc" = 137 ]; then
  echo "INCONCLUSIVE: watchdog ($LIMIT s) stopped the check" >&2
  exit 2
fi
if [ "$rc" != 0 ] && [ "$rc" != 1 ] && [ "$rc" != 2 ]; then
  # abnormal termination without a dump from the abort handler
  echo "INCONCLUSIVE: check process ended with status $rc" >&2
  exit 2
fi
exit $rc
