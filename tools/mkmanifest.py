#!/usr/bin/env python3
"""Generates /verif/MANIFEST.json from the table below (kept in one place so that the
manifest stays valid while checks are being added)."""
import json, os, sys

ROOT = os.path.dirname(os.path.dirname(os.path.abspath(__file__)))

TRUST = ("Trusted base: the harness generators and wire-level model, the reference decoder written from the OASIS "
         "MQTT 3.1.1 / 5.0 specifications and the pinned grammar of DESIGN.md §5; rustc, proptest, tokio/futures-lite executors.")

# id -> (level, technique, level text, level note, design ref)
CHECKS = {
    "C01": ("exploration",
            "property-based testing (proptest over choice tapes): encode/decode round trip, 3 decoder front-ends",
            "Generated valid packets of all 14 v3 / 15 v5 types (every optional field and property an independent choice, every code "
            "variant, boundary lengths up to 4-byte headers) are encoded and decoded by the blocking, async and poll decoders; the "
            "oracle is the inverse (equality with the original, exact total, body bytes unchanged). Exploration is the right level: "
            "the space is unbounded and the oracle is exact, so a counterexample search with shrinking is what can be built.",
            "No counterexample among the generated cases; absence outside them is not established. " + TRUST,
            "DESIGN.md §7 C01"),
    "C02": ("exploration",
            "property-based testing (proptest over choice tapes) + constructed boundary/oversize cases; measured bytes vs reported lengths, two build profiles",
            "Generated valid packets and every separately encodable part (bodies, wills, all v5 property sets, protocol) are encoded; "
            "bytes written are compared with encode_len and with the remaining-length field parsed by the harness, through a Vec and "
            "a one-byte-per-write sink. PUBLISH packets are sized exactly onto every header-width boundary; payloads and property "
            "sections above the 4-byte limit must be refused with an error (no panic, nothing emitted). The whole run is repeated "
            "under a release build (no debug assertions / overflow checks) and the digests of all encodings are compared.",
            "No counterexample among the generated and constructed cases. The 268,435,455-byte accepted side is only built in the thorough tier. " + TRUST,
            "DESIGN.md §7 C02"),
    "C09": ("exploration",
            "property-based testing (proptest over choice tapes): differential between encoder entry points under scripted sinks",
            "For generated valid packets the blocking encoder (twice), the async encoder into a Vec, an exactly sized Cursor, a "
            "one-byte-per-write sink and tape-scripted sinks (Accept(k)/Pending), and control byte ++ var-int ++ streamed body are "
            "compared byte for byte; the sinks are call-bounded so a spin is a deterministic failure.",
            "No counterexample among the generated (packet, sink script) pairs. " + TRUST,
            "DESIGN.md §7 C09"),
    "C10": ("exploration",
            "property-based testing (proptest over choice tapes): library encoder vs independent reference decoder written from the OASIS specs",
            "Generated valid packets are encoded by the library and decoded by the harness' reference decoder; the recovered wire "
            "values must equal a name-keyed projection of the packet that spells out every wire number from the specification, so an "
            "error made symmetrically in the library's encoder and decoder is visible. Every reason/return code, every property in "
            "every context and every protocol level must have been exercised or the run reports broken machinery.",
            "No counterexample among the generated cases; the reference decoder and its spec tables (DESIGN.md Appendix A) are trusted. " + TRUST,
            "DESIGN.md §7 C10"),
}

NOT_YET = "check not built yet in this round (machinery under construction; see DESIGN.md for the plan)"


def main():
    props = [json.loads(l) for l in open(os.path.join(ROOT, "properties.jsonl"))]
    checks = []
    na = []
    for p in props:
        pid = p["id"]
        if pid in CHECKS:
            level, tech, text, note, ref = CHECKS[pid]
            checks.append({
                "property_id": pid,
                "quick_cmd": f"./check.sh {pid} quick",
                "thorough_cmd": f"./check.sh {pid} thorough",
                "evidence_file": f"/verif/evidence/{pid}.json",
                "replay_cmd_template": "./check.sh replay {path}",
                "engine": "mqv",
                "level_claimed": {"category": level, "text": text, "design_ref": ref},
                "level_note": note,
                "technique": tech,
            })
        else:
            na.append({"property_id": pid, "reason": NOT_YET})
    m = {
        "version": 1,
        "setup_cmd": "./setup.sh",
        "hooks": {
            "guard": "mqtt_proto_verif",
            "enable": "none needed: every observation point used by the checks is public API; the harness depends on /repo by path and is rebuilt by every check",
            "baseline_off_cmd": "cd /repo && cargo test --workspace --no-fail-fast --offline",
            "source_commits": [],
            "add_only": True,
        },
        "engines": [{
            "name": "mqv",
            "path": "/verif/harness",
            "serves_properties": sorted(CHECKS.keys()),
            "kind_free_text": "Rust harness crate: tape-driven generators run by proptest (sharded, seeded, shrinking), bounded-exhaustive "
                              "enumerators, scripted transports, an independent reference decoder as oracle, cargo-fuzz targets and a Miri suite",
        }],
        "checks": checks,
        "notes": "Exit codes: 0 held on everything explored, 1 violation (with VIOLATION line and replay file), 2 inconclusive / broken machinery "
                 "(build failure, watchdog, promised class empty). VERIF_SEED selects the run; a run is a pure function of (tree, seed, tier).",
    }
    if na:
        m["not_applicable"] = na
    with open(os.path.join(ROOT, "MANIFEST.json"), "w") as f:
        json.dump(m, f, indent=1)
        f.write("\n")
    print(f"MANIFEST.json: {len(checks)} checks, {len(na)} not claimed")


if __name__ == "__main__":
    main()
