#!/usr/bin/env python3
"""Generates /verif/MANIFEST.json from the table below (kept in one place so that the
manifest stays valid while checks are being added)."""
import json, os, sys

ROOT = os.path.dirname(os.path.dirname(os.path.abspath(__file__)))

TRUST = ("Trusted base: the harness generators and wire-level model, the reference decoder written from the OASIS "
         "MQTT 3.1.1 / 5.0 specifications and the pinned grammar of DESIGN.md §5; rustc, proptest, tokio/futures-lite executors.")

# id -> (level, technique, level text, level note, design ref)
CHECKS = {
    "C01": ("exploration",
            "property-based testing (proptest over choice tapes): encode/decode round trip, 3 decoder front-ends",
            "Generated valid packets of all 14 v3 / 15 v5 types (every optional field and property an independent choice, every code "
            "variant, boundary lengths up to 4-byte headers) are encoded and decoded by the blocking, async and poll decoders; the "
            "oracle is the inverse (equality with the original, exact total, body bytes unchanged). Exploration is the right level: "
            "the space is unbounded and the oracle is exact, so a counterexample search with shrinking is what can be built.",
            "No counterexample among the generated cases; absence outside them is not established. " + TRUST,
            "DESIGN.md §7 C01"),
}

NOT_YET = "check not built yet in this round (machinery under construction; see DESIGN.md for the plan)"


def main():
    props = [json.loads(l) for l in open(os.path.join(ROOT, "properties.jsonl"))]
    checks = []
    na = []
    for p in props:
        pid = p["id"]
        if pid in CHECKS:
            level, tech, text, note, ref = CHECKS[pid]
            checks.append({
                "property_id": pid,
                "quick_cmd": f"./check.sh {pid} quick",
                "thorough_cmd": f"./check.sh {pid} thorough",
                "evidence_file": f"/verif/evidence/{pid}.json",
                "replay_cmd_template": "./check.sh replay {path}",
                "engine": "mqv",
                "level_claimed": {"category": level, "text": text, "design_ref": ref},
                "level_note": note,
                "technique": tech,
            })
        else:
            na.append({"property_id": pid, "reason": NOT_YET})
    m = {
        "version": 1,
        "setup_cmd": "./setup.sh",
        "hooks": {
            "guard": "mqtt_proto_verif",
            "enable": "none needed: every observation point used by the checks is public API; the harness depends on /repo by path and is rebuilt by every check",
            "baseline_off_cmd": "cd /repo && cargo test --workspace --no-fail-fast --offline",
            "source_commits": [],
            "add_only": True,
        },
        "engines": [{
            "name": "mqv",
            "path": "/verif/harness",
            "serves_properties": sorted(CHECKS.keys()),
            "kind_free_text": "Rust harness crate: tape-driven generators run by proptest (sharded, seeded, shrinking), bounded-exhaustive "
                              "enumerators, scripted transports, an independent reference decoder as oracle, cargo-fuzz targets and a Miri suite",
        }],
        "checks": checks,
        "notes": "Exit codes: 0 held on everything explored, 1 violation (with VIOLATION line and replay file), 2 inconclusive / broken machinery "
                 "(build failure, watchdog, promised class empty). VERIF_SEED selects the run; a run is a pure function of (tree, seed, tier).",
    }
    if na:
        m["not_applicable"] = na
    with open(os.path.join(ROOT, "MANIFEST.json"), "w") as f:
        json.dump(m, f, indent=1)
        f.write("\n")
    print(f"MANIFEST.json: {len(checks)} checks, {len(na)} not claimed")


if __name__ == "__main__":
    main()
