#!/usr/bin/env python3
"""Generates /verif/MANIFEST.json from the table below (kept in one place so that the
manifest stays valid while checks are being added)."""
import json, os, sys

ROOT = os.path.dirname(os.path.dirname(os.path.abspath(__file__)))

TRUST = ("Trusted base: the harness generators and wire-level model, the reference decoder written from the OASIS "
         "MQTT 3.1.1 / 5.0 specifications and the pinned grammar of DESIGN.md §5; rustc, proptest, tokio/futures-lite executors.")

# id -> (level, technique, level text, level note, design ref)
CHECKS = {
    "C01": ("exploration",
            "property-based testing (proptest over choice tapes): encode/decode round trip, 3 decoder front-ends",
            "Generated valid packets of all 14 v3 / 15 v5 types (every optional field and property an independent choice, every code "
            "variant, boundary lengths up to 4-byte headers) are encoded and decoded by the blocking, async and poll decoders; the "
            "oracle is the inverse (equality with the original, exact total, body bytes unchanged). Boundary-size constructions put "
            "the remaining length and every v5 property section (also the will's) at -2..+5 around 128 / 16,384 / 2,097,152, go beyond "
            "16 MiB and up to 268,435,455 (thorough), include multi-byte payloads flagged as UTF-8, and long lists: 255 .. 65,537 topics, "
            "codes and user properties (counts around the widths a counter might have); every Unicode scalar value is carried once in each kind of text field. Exploration is the right level: "
            "the space is unbounded and the oracle is exact, so a counterexample search with shrinking is what can be built.",
            "No counterexample among the generated cases; absence outside them is not established. " + TRUST,
            "DESIGN.md §7 C01"),
    "C02": ("exploration",
            "property-based testing (proptest over choice tapes) + constructed boundary/oversize cases; measured bytes vs reported lengths, two build profiles",
            "Generated valid packets and every separately encodable part (bodies, wills, all v5 property sets, protocol) are encoded; "
            "bytes written are compared with encode_len and with the remaining-length field parsed by the harness, through a Vec and "
            "a one-byte-per-write sink, sinks accepting 1-5 bytes per call with and without their own vectored writes, sinks that are too "
            "small (an error and a prefix, never Ok) and sinks that are interrupted every other call. PUBLISH packets are sized exactly onto every header-width boundary; payloads and property "
            "sections above the 4-byte limit must be refused with an error (no panic, nothing emitted). The whole run is repeated "
            "under a release build (no debug assertions / overflow checks) and the digests of all encodings are compared.",
            "No counterexample among the generated and constructed cases. The 268,435,455-byte accepted side is only built in the thorough tier. " + TRUST,
            "DESIGN.md §7 C02"),
    "C03": ("exploration",
            "exhaustive enumeration of short byte strings + mutation-based generation (proptest over choice tapes) + coverage-guided fuzzing with ASan and a Miri suite in the thorough tier; oracle: totality (no panic/abort/spin) under two build profiles",
            "All byte strings up to 2 (quick) / 3 (thorough) bytes, every 2-byte header followed by 18 short bodies, hand-written "
            "maximal-length headers and generated corruptions of valid packets are fed to every decoder entry point of both "
            "families (blocking, async, poll one-shot and one byte at a time with Pending and drop/re-create, bare headers). A panic "
            "(overflow checks and debug assertions are on in the relcheck profile), an abort (a signal handler dumps the parked "
            "case) or a transport polled beyond its call bound is a violation; the run is repeated under the release profile. The "
            "thorough tier adds libFuzzer campaigns with AddressSanitizer and a Miri run of a fixed generated suite. A metamorphic probe "
            "renders the caller-held poll state (and a clone) with {:?} after every partial body delivery, once with the heap chunk it "
            "will reuse pre-filled with 0xAA and once with 0x55: the two renderings must be identical (nothing observable may depend on "
            "bytes the transport never delivered). Body-level decoders are called directly with declared lengths far beyond the buffer, and the deep-input sub-checks (declared lengths, state observation, header/body) run a third time against a build of the library without optimisation on a 2 MiB stack, so unbounded recursion or stack use shows as a caught fatal signal.",
            "Totality and termination are established for the explored inputs only (termination through call bounds). Out-of-bounds access and uninitialised reads are judged by ASan/Miri in the thorough tier only, on the inputs those runs execute. " + TRUST,
            "DESIGN.md §7 C03"),
    "C04": ("exploration",
            "grammar-based and mutation-based generation of complete frames (proptest over choice tapes); differential against an independent reference decoder",
            "Complete, minimally encoded frames of both families are generated from the wire-level model: well-formed frames in every "
            "spelling the grammar allows, the same with one to three injected catalogue malformations, and byte-mutated bodies with a "
            "re-synthesised header. The strict poll decoder must accept exactly when the reference decoder (MQTT grammar + pinned "
            "leniencies) accepts, and on acceptance the normalised field values, total and body bytes must agree. Every reject class "
            "of the reference decoder has to be reached or the run reports broken machinery. Every frame with a body of up to 2 bytes "
            "and every short byte sequence as string content (UTF-8 well-formedness against std) are enumerated; ill-formed UTF-8 is also placed at the front, end, middle and every power-of-two offset of payloads flagged as UTF-8 (on a character boundary).",
            "No disagreement among the generated frames. The reference decoder and the pinned grammar (DESIGN.md §5) are the trusted oracle. " + TRUST,
            "DESIGN.md §7 C04"),
    "C05": ("exploration",
            "exhaustive enumeration of delivery schedules for short streams + random schedules (proptest over choice tapes); one-shot execution as reference",
            "The poll decoder is driven by hand over scripted transports: for a fixed list of short streams of every packet type "
            "(well-formed, malformed, truncated, with trailing bytes) every composition of the stream into reads is run with and "
            "without Pending before every read and with the future dropped and re-created from the caller-held state at every "
            "Pending; longer generated streams (1-4 byte headers) get random schedules, and PUBLISH streams with 2-4 byte headers "
            "every split of their first 8 bytes. Further modes continue from a clone of the caller-held state, let the transport fill "
            "the ReadBuf by initialize+advance, and insert a transient transport failure (Interrupted / WouldBlock / TimedOut) before "
            "every read, which the decoder must hand on and after which the caller polls again; and deliver the stream as successive slices, each ending in an end-of-stream report, continuing from the caller-held state. Each run must equal the uninterrupted run, "
            "return Pending only when the transport did, never request more than the frame still needs, and consume what it reports.",
            "Exhaustive for the listed streams up to 15 (quick) / 18 (thorough) bytes; random beyond. The frame end used by the capacity check comes from the harness' own header parse. " + TRUST,
            "DESIGN.md §7 C05"),
    "C06": ("exploration",
            "differential testing of the three decoder front-ends on generated byte strings (proptest over choice tapes; libFuzzer in the thorough tier)",
            "Byte strings from the shared corpus generator (valid, re-spelled, leniently framed, malformed, mutated, random) are given "
            "to the blocking, async and poll decoders of both families: blocking must equal async with EOF mapped to Ok(None) (also "
            "for bare headers) on every string; on strings starting with a complete frame a poll acceptance must be matched by both "
            "lenient decoders and a poll rejection other than InvalidRemainingLength must be returned identically by both. Bare fixed "
            "headers are compared across all four ways to one (Header::decode, decode_async, new_with, new from parts); body-level decoders are compared with the packet-level result, and the async decoder is also run over a transport delivering k bytes per read. Every frame "
            "with a body of up to 2 bytes is enumerated.",
            "No disagreement among the generated strings. " + TRUST,
            "DESIGN.md §7 C06"),
    "C07": ("exploration",
            "property-based testing (proptest over choice tapes) x enumeration of cut positions; classification oracle",
            "For generated valid packets every strict prefix of the encoding (all cut positions for encodings up to 400 bytes, "
            "every field boundary and sampled positions beyond) must be reported as incomplete by all three decoders, and the "
            "encoding followed by arbitrary bytes must decode to the same packet with exactly its own bytes consumed. The end of the "
            "stream is presented as an empty read, as Err(UnexpectedEof) from the transport (any error payload shape), and after the "
            "prefix trickled in byte by byte, and by transports that report the end once and fail afterwards. The bare header of every prefix is classified too.",
            "No counterexample among the generated (packet, cut, suffix) cases. " + TRUST,
            "DESIGN.md §7 C07"),
    "C08": ("exploration",
            "property-based testing (proptest over choice tapes): packet sequences over scripted chunked transports; sequence equality and byte accounting",
            "Generated sequences of 1..8 valid packets are concatenated and decoded packet by packet with every front-end (blocking "
            "with two independent ways of advancing, async on a shared reader and over a scripted chunked transport with Pending, "
            "poll with a fresh state per packet); the decoded sequence, per-packet byte counts and the EOF report at the clean "
            "boundary are compared with what was generated. The same is done for sequences of re-spelled frames (long ack / DISCONNECT / "
            "AUTH forms with an explicit empty property section, reason-only forms, shuffled properties; var-ints minimal), and through a header-first front-end (Header::decode, then the body-level decoder on exactly remaining_len bytes).",
            "No counterexample among the generated (sequence, delivery) cases; 4-byte-header packets only in the thorough tier. " + TRUST,
            "DESIGN.md §7 C08"),
    "C09": ("exploration",
            "property-based testing (proptest over choice tapes): differential between encoder entry points under scripted sinks",
            "For generated valid packets the blocking encoder (twice), the async encoder into a Vec, an exactly sized Cursor, a "
            "one-byte-per-write sink and tape-scripted sinks (Accept(k)/Pending), and control byte ++ var-int ++ streamed body are "
            "compared byte for byte; the sinks are call-bounded so a spin is a deterministic failure. The boundary-size "
            "constructions of C01 (header-width boundaries, 2 MiB property sections, > 16 MiB payloads, long lists) go through every entry "
            "point too. Streaming body encoders additionally meet sinks with their own vectored writes and sinks that are interrupted "
            "(ErrorKind::Interrupted) every other call, and sinks whose flush stays Pending; histories also contain packets derived from an earlier one by a single field change, so a cached or stale length shows.",
            "No counterexample among the generated (packet, sink script) pairs. " + TRUST,
            "DESIGN.md §7 C09"),
    "C10": ("exploration",
            "property-based testing (proptest over choice tapes): library encoder vs independent reference decoder written from the OASIS specs",
            "Generated valid packets are encoded by the library and decoded by the harness' reference decoder; the recovered wire "
            "values must equal a name-keyed projection of the packet that spells out every wire number from the specification, so an "
            "error made symmetrically in the library's encoder and decoder is visible. Every reason/return code, every property in "
            "every context and every protocol level must have been exercised or the run reports broken machinery.",
            "No counterexample among the generated cases; the reference decoder and its spec tables (DESIGN.md Appendix A) are trusted. " + TRUST,
            "DESIGN.md §7 C10"),
    "C11": ("exploration",
            "property-based testing on accepted inputs (proptest over choice tapes; libFuzzer in the thorough tier): re-encode / re-decode round trip and length bound, two build profiles",
            "For every byte string of the shared corpus generator that any front-end accepts, the returned packet is re-encoded "
            "(no error, no panic), the re-encoding is decoded by all three front-ends back to the same packet, and the re-encoding "
            "must not be longer than the bytes the decoder consumed. One listed known finding (K1: lenient decoders accept an "
            "under-declared remaining length) is tolerated by exact signature and counted; anything else is a violation.",
            "No counterexample among the generated accepted inputs other than the listed finding. " + TRUST,
            "DESIGN.md §7 C11"),
    "C12": ("exploration",
            "property-based testing on accepted inputs (proptest over choice tapes; libFuzzer in the thorough tier): field walk with independent predicates",
            "Every packet returned by any front-end for a generated byte string is walked field by field (exhaustive destructuring): "
            "text fields are re-validated with std's UTF-8 check, topic names and filters with the library's and the harness' "
            "predicates, shared-subscription accessors are exercised against the split of the text, pids, var-int fields and "
            "UTF-8-flagged payloads are checked. All ~70 field labels must be reached. Every 1-/2-byte sequence and about 90,000 "
            "(thorough: 1.1 M) 3- and 4-byte sequences are placed inside text fields and whatever is accepted is walked; the same walk runs on what the async decoder returns over a k-bytes-per-read transport.",
            "No counterexample among the generated accepted inputs. " + TRUST,
            "DESIGN.md §7 C12"),
    "C13": ("exploration",
            "property-based testing (proptest over choice tapes) of cross-family CONNECTs + exhaustive (name, level) grid",
            "Generated valid CONNECTs of each family are presented to the other family's three decoders: exact UnexpectedProtocol "
            "error, byte count consumed by the async decoder, and continuation through decode_with_protocol compared with the native "
            "decode; large CONNECTs (property sections around every width boundary and around the other family's largest possible "
            "CONNECT, v3 CONNECTs with up to five 65,535-byte fields) are included, and so are partly buffered CONNECTs: from the end "
            "of the level byte on, every shorter buffer must already be refused in the same way; and after a refusal by the poll "
            "front-end the caller-held state still holds the whole body, from which the continuation yields the native CONNECT. All 256 levels x about 150 protocol "
            "names (every single-edit neighbour, prefix and padding of the legal ones) are checked against both families, all front-ends and Protocol::new.",
            "No counterexample among the generated CONNECTs; the grid is enumerated completely. " + TRUST,
            "DESIGN.md §7 C13"),
    "C14": ("fault_enumeration",
            "fault injection enumerated over byte positions and error kinds on generated packets (proptest-driven), scripted transports",
            "For generated valid packets a read error (17 io::ErrorKinds, six payload shapes: message, bare kind, nested io::Error of "
            "another kind, source chain, OS code, boxed) is injected at every byte position (and EOF at "
            "every position) into the async and poll decoders under one-shot and chunked delivery; a write error or zero-length "
            "write at every position into the async encoder and the streaming body encoders; boundary-size packets (16 KiB - 2 MiB "
            "payloads and property sections) get faults at field boundaries and at positions spread over the whole encoding. The "
            "oracle is the injected kind itself, the prefix property of what the sink received, and a conversion table for the error types. "
            "One-shot failures (the transport fails once, consumes nothing and would continue; every kind including Interrupted and "
            "WouldBlock) must be handed on by both decoders, after which the poll decoder, polled again, completes the packet; a sink whose flush fails after a write fault must not turn the failure into success.",
            "Positions are exhaustive for encodings up to 260 bytes and sampled (field boundaries + random) beyond; Interrupted / WouldBlock are only used for one-shot failures. " + TRUST,
            "DESIGN.md §7 C14"),
    "C15": ("exploration",
            "exhaustive enumeration of the var-int domain (thorough: all 2^28 values) against a closed-form arithmetic model",
            "Every value of 0..=268,435,455 (thorough; a dense-boundary + stride-97 sample in quick) is pushed through the library's "
            "var-int writer, size function, both readers, total_len/header_len/remaining_len and, for boundary and sampled values, "
            "the poll decoder's header state machine (header delivered in one read, byte by byte with Pending, and with the future "
            "re-created at every Pending) and partial-write sinks, and compared with a closed-form model; the first invalid values and all 9,330 "
            "continuation-bit patterns of up to five bytes are checked for rejection / EOF classification. The readers inside packet "
            "bodies are observed through v5 packets whose property length is re-written in 1-4 bytes (exact consumption demanded "
            "for the nine packet types in which the count is observable); both readers also meet transports that fail transiently in the "
            "middle of an integer. In the thorough tier the "
            "finite domain is enumerated completely (evidence: exhaustive = true).",
            "The arithmetic model (base-128 little endian, width thresholds 2^7, 2^14, 2^21, 2^28) is trusted. Quick tier is a sample. " + TRUST,
            "DESIGN.md §7 C15"),
    "C16": ("exploration",
            "bounded-exhaustive enumeration of strings against a split-based reference predicate (MQTT 4.7/4.8)",
            "All strings up to a length bound over an 8-character alphabet covering every class the validator distinguishes, alone "
            "and behind 11 prefix shapes, 0.9 M medium-length strings with special characters at every position of runs of up to 70 "
            "ordinary (ASCII and multi-byte) characters, structured and random strings around 65,535 bytes, are given to TopicFilter::is_invalid, the "
            "constructor and the v3/v5 SUBSCRIBE/UNSUBSCRIBE decoders; all must agree with a predicate written from the "
            "specification by splitting on '/'. Every Unicode scalar value is tried in seven positions and every ordered pair of "
            "prefix shapes in front of all short tails; look-alikes of the reserved words ($SHARE, $Share, $share2, vendor-style $words) and nested reserved prefixes are classified like any other level. The deep-input part is repeated against the library built without optimisation. The stated bounded space is enumerated completely.",
            "Exhaustive only inside the bounded space (length <= 6 quick, <= 8 / 7 thorough); longer strings are sampled. " + TRUST,
            "DESIGN.md §7 C16"),
    "C17": ("exploration",
            "bounded-exhaustive enumeration of valid filters; accessor results vs harness-computed split; algebraic laws of Eq/Ord/Hash",
            "Every valid filter of C16's space: share-name/filter accessors must return the unique split computed by the harness, "
            "text round-trips, and equality, ordering (antisymmetric, transitive, Equal iff same text, partial_cmp = cmp) and hashing "
            "depend only on the text, including values built from separate allocations and by decoding a SUBSCRIBE; the same for "
            "filters built around every Unicode scalar value, behind every ordered pair of prefix shapes, of every depth 1..300 and deeper; "
            "and over histories: with 300 / 66 k / 1.1 M (thorough 4.2 M) distinct filters alive, filters rebuilt from their text compare, "
            "order and hash like the ones held; clone and clone_from results are indistinguishable from the original. The deep-input part is repeated against the library built without optimisation.",
            "Pairs/triples are neighbours and pseudo-random partners inside enumeration blocks, not all pairs. " + TRUST,
            "DESIGN.md §7 C17"),
    "C18": ("exploration",
            "bounded-exhaustive enumeration of strings against the three-condition rule; six packet paths",
            "All strings up to a length bound over a 9-character alphabet, alone and behind '$share/', '$SYS/' and near-miss "
            "prefixes, 0.9 M medium-length strings with a forbidden character at every position of runs of up to 70 characters, and "
            "structured and random strings around 65,535 bytes: TopicName::is_invalid, the constructor (read-back, is_shared, is_sys) and "
            "the PUBLISH / will / response-topic decoders of both families must agree with: <= 65,535 bytes and no '+', '#', U+0000. "
            "Every Unicode scalar value is tried in five positions; look-alikes of the reserved prefixes ($SYS2, $sys, $share without slash, vendor-style $words) must give is_shared / is_sys exactly by the literal prefix rule. The deep-input part is repeated against the library built without optimisation.",
            "Exhaustive only inside the bounded space (length <= 6 quick, <= 7 thorough). " + TRUST,
            "DESIGN.md §7 C18"),
    "C19": ("exploration",
            "exhaustive enumeration of all (identifier, amount) pairs against a cycle model",
            "All 65,535 x 65,536 pairs are evaluated in both tiers (about 2 s on 16 cores) against stepping around the cycle "
            "1..=65535 in i64 arithmetic: result never 0, add/sub exact, mutual inverses, in-place operators equal the pure ones, "
            "construction fails exactly for 0; amounts of literal type and chains of mixed += / -= steps (generated) are compared with the same model. The finite domain is enumerated completely (evidence: exhaustive = true).",
            "The cycle model is trusted; the check runs in a build with overflow checks so a wrapping bug also shows as a panic.",
            "DESIGN.md §7 C19"),
    "C20": ("exploration",
            "catalogue-driven mutation of generated valid packets (proptest over choice tapes); expected error variant and payload from the catalogue",
            "Every applicable entry of a 30-entry malformation catalogue is applied to generated valid packets at every site where it "
            "applies (each string field, property, code byte, length); the blocking, async and poll decoders must return exactly "
            "the error variant and payload the catalogue documents (with the stated poll/blocking exception for inner lengths past "
            "the frame end). Expectations never come from running another front-end. The poll decoder must give the same answer when "
            "the frame arrives piecewise with a Pending and transient transport failures on the way.",
            "No misclassification among the generated (packet, entry, site) cases; the catalogue's expectations (DESIGN.md Appendix C) are trusted. " + TRUST,
            "DESIGN.md §7 C20"),
}

NOT_YET = "check not built yet in this round (machinery under construction; see DESIGN.md for the plan)"


def main():
    props = [json.loads(l) for l in open(os.path.join(ROOT, "properties.jsonl"))]
    checks = []
    na = []
    for p in props:
        pid = p["id"]
        if pid in CHECKS:
            level, tech, text, note, ref = CHECKS[pid]
            checks.append({
                "property_id": pid,
                "quick_cmd": f"./check.sh {pid} quick",
                "thorough_cmd": f"./check.sh {pid} thorough",
                "evidence_file": f"/verif/evidence/{pid}.json",
                "replay_cmd_template": "./check.sh replay {path}",
                "engine": "mqv",
                "level_claimed": {"category": level, "text": text, "design_ref": ref},
                "level_note": note,
                "technique": tech,
            })
        else:
            na.append({"property_id": pid, "reason": NOT_YET})
    m = {
        "version": 1,
        "setup_cmd": "./setup.sh",
        "hooks": {
            "guard": "mqtt_proto_verif",
            "enable": "none needed: every observation point used by the checks is public API; the harness depends on /repo by path and is rebuilt by every check",
            "baseline_off_cmd": "cd /repo && cargo test --workspace --no-fail-fast --offline",
            "source_commits": [],
            "add_only": True,
        },
        "engines": [{
            "name": "mqv",
            "path": "/verif/harness",
            "serves_properties": sorted(CHECKS.keys()),
            "kind_free_text": "Rust harness crate: tape-driven generators run by proptest (sharded, seeded, shrinking), bounded-exhaustive "
                              "enumerators, scripted transports, an independent reference decoder as oracle, cargo-fuzz targets and a Miri suite",
        }],
        "checks": checks,
        "notes": "Exit codes: 0 held on everything explored, 1 violation (with VIOLATION line and replay file), 2 inconclusive / broken machinery "
                 "(build failure, watchdog, promised class empty). VERIF_SEED selects the run; a run is a pure function of (tree, seed, tier).",
    }
    if na:
        m["not_applicable"] = na
    with open(os.path.join(ROOT, "MANIFEST.json"), "w") as f:
        json.dump(m, f, indent=1)
        f.write("\n")
    print(f"MANIFEST.json: {len(checks)} checks, {len(na)} not claimed")


if __name__ == "__main__":
    main()
