#!/bin/bash
# Runs every mutant in mutants/ and every seeded breakage against the check(s) it targets (quick tier,
# thorough if missed) and writes work/mutants.tsv :  mutant <TAB> check <TAB> CAUGHT|MISSED|INVALID <TAB> tier
cd /verif
OUT=work/mutants.tsv; : > $OUT
run1() { # patch check rev
  local p="$1" c="$2" rev="${3:-}"
  local out; out=$(./selftest.sh "$p" "$c" $rev quick 2>&1); local tier=quick
  if echo "$out" | grep -q "MISSED"; then out=$(SKIP_REPO_TESTS=1 ./selftest.sh "$p" "$c" $rev thorough 2>&1); tier=thorough; fi
  local res=INVALID
  echo "$out" | grep -q "CAUGHT" && res=CAUGHT
  echo "$out" | grep -q "MISSED" && res=MISSED
  local name; name="$(basename "$p" .patch)"; case "$p" in seeded/*) name="seeded-$(basename "$(dirname "$p")")";; esac
  printf "%s\t%s\t%s\t%s\n" "$name$rev" "$c" "$res" "$tier" >> $OUT
}
jobs_list=()
for p in mutants/c[0-9][0-9]-*.patch; do
  n=$(basename "$p"); c="C${n:1:2}"
  jobs_list+=("$p $c")
done
jobs_list+=("mutants/fix-D1-suback-failure.patch C01 -R" "mutants/fix-D1-suback-failure.patch C10 -R" "mutants/fix-D1-suback-failure.patch C11 -R")
jobs_list+=("mutants/fix-D2-ack-success-props.patch C01 -R" "mutants/fix-D2-ack-success-props.patch C02 -R" "mutants/fix-D2-ack-success-props.patch C09 -R" "mutants/fix-D2-ack-success-props.patch C11 -R")
jobs_list+=("mutants/fix-D3-filter-plus.patch C16 -R" "mutants/fix-D3-filter-plus.patch C04 -R" "mutants/fix-D3-filter-plus.patch C20 -R" "mutants/fix-D3-filter-plus.patch C12 -R")
jobs_list+=("mutants/fix-D4-poll-empty-body.patch C04 -R" "mutants/fix-D6-oversize-props.patch C02 -R")
for d in seeded/C*/; do id=$(basename "$d"); jobs_list+=("$d/patch.diff ${id:0:3}"); done
i=0
for j in "${jobs_list[@]}"; do
  run1 $j &
  i=$((i+1)); if [ $((i % 5)) = 0 ]; then wait; fi
done
wait
sort $OUT -o $OUT
cat $OUT
