#!/usr/bin/env python3
"""mkmutant.py <name> <repo-relative file> <old> <new> [count]  -> mutants/<name>.patch (unified diff, -p1)"""
import sys, difflib, os
name, rel, old, new = sys.argv[1:5]
count = int(sys.argv[5]) if len(sys.argv) > 5 else 1
src = open(os.path.join('/repo', rel)).read()
assert src.count(old) >= 1, f"pattern not found in {rel}"
if count == 0:
    dst = src.replace(old, new)
else:
    assert src.count(old) == count, f"pattern occurs {src.count(old)} times, expected {count}"
    dst = src.replace(old, new)
d = difflib.unified_diff(src.splitlines(True), dst.splitlines(True), 'a/' + rel, 'b/' + rel)
out = os.path.join(os.path.dirname(os.path.dirname(os.path.abspath(__file__))), 'mutants', name + '.patch')
open(out, 'w').write(''.join(d))
print(out)
