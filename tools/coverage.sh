#!/bin/bash
# Measures which lines of /repo/src the quick tiers of all 20 checks execute (a gap finder for the
# generators, not a check). Builds an instrumented copy of the harness under work/cov (git-ignored),
# runs every check pinned to one core each (coverage counters contend badly across threads), merges
# the profiles and writes work/cov/report.txt (per file) and work/cov/uncovered.txt (line listing).
#   tools/coverage.sh [tier]
set -u
ROOT="$(cd "$(dirname "$0")/.." && pwd)"
cd "$ROOT"
TIER="${1:-quick}"
export CARGO_NET_OFFLINE=true
LLVM="$(dirname "$(find ~/.rustup/toolchains/nightly-x86_64-unknown-linux-gnu -name llvm-cov | head -1)")"
BIN="$ROOT/work/cov/target/relcheck/mqv"
mkdir -p work/cov/prof
(cd harness && RUSTFLAGS="-C instrument-coverage" cargo +nightly build --profile relcheck --bin mqv --target-dir "$ROOT/work/cov/target") >work/cov/build.log 2>&1 || { tail work/cov/build.log; exit 2; }
rm -f work/cov/prof/*.profraw work/cov/done.txt
n=0
for i in 01 02 03 04 05 06 07 08 09 10 11 12 13 14 15 16 17 18 19 20; do
  core=$((n % 16)); n=$((n+1))
  r="work/cov/root$i"; mkdir -p "$r/work" "$r/evidence" "$r/replays"; cp known_findings.txt "$r/"
  ( LLVM_PROFILE_FILE="$ROOT/work/cov/prof/C$i-%p.profraw" timeout 3000 taskset -c $core "$BIN" check "C$i" --tier "$TIER" --seed "${VERIF_SEED:-0}" --root "$ROOT/$r" >"work/cov/C$i.log" 2>&1; echo "C$i rc=$?" >>work/cov/done.txt ) &
done
wait
cat work/cov/done.txt
"$LLVM/llvm-profdata" merge -sparse work/cov/prof/*.profraw -o work/cov/all.profdata
"$LLVM/llvm-cov" report "$BIN" -instr-profile=work/cov/all.profdata --ignore-filename-regex='(\.cargo|rustc|/verif/)' >work/cov/report.txt
"$LLVM/llvm-cov" show "$BIN" -instr-profile=work/cov/all.profdata --ignore-filename-regex='(\.cargo|rustc|/verif/)' --show-line-counts-or-regions >work/cov/show.txt
# lines with an execution count of 0
awk '/^\/repo\//{f=$0} /^ +[0-9]+\| +0\|/{print f" "$0}' work/cov/show.txt >work/cov/uncovered.txt
cat work/cov/report.txt
