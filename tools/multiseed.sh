#!/bin/bash
# runs every quick check under several seeds from fresh processes; prints anything that is not exit 0
cd "$(cd "$(dirname "$0")/.." && pwd)"
mkdir -p work
for seed in "$@"; do
  for c in C01 C02 C03 C04 C05 C06 C07 C08 C09 C10 C11 C12 C13 C14 C15 C16 C17 C18 C19 C20; do
    out=$(VERIF_SEED=$seed ./check.sh $c quick 2>&1); rc=$?
    if [ $rc != 0 ] || echo "$out" | grep -q "^VIOLATION"; then echo "seed=$seed $c rc=$rc"; echo "$out" | tail -5 | cut -c1-600; fi
  done
  echo "seed $seed done"
done
