#!/usr/bin/env python3
"""Writes /verif/seeded/<ID>/meta.json from the seedcheck logs and the sub-agent's notes."""
import json, os, re, sys
ROOT = os.path.dirname(os.path.dirname(os.path.abspath(__file__)))
props = {json.loads(l)["id"]: json.loads(l) for l in open(os.path.join(ROOT, "properties.jsonl"))}
names = sorted(os.listdir(os.path.join(ROOT, "seeded")))
# results of running an older snapshot of the checks (before the strengthening a seed prompted) against the seed
before = {}
for fn, sfx in (("oldwave.done", "-d"), ("old5.done", ""), ("old6.done", ""), ("seedwave7.first", ""), ("seedwave8.first", ""), ("seedwave9.first", ""), ("seedwave10.first", ""), ("seedwave11.first", ""), ("seedwave12.first", ""), ("seedwave13.first", ""), ("seedwave14.first", ""), ("seedwave15.first", "")):
    path = os.path.join(ROOT, "work", fn)
    if os.path.exists(path):
        for l in open(path, errors="replace"):
            m = re.match(r"(C\d\d(?:-[a-z])?)[: ].*?SELFTEST .*?: (CAUGHT|MISSED)", l)
            if m:
                key = m.group(1) + (sfx if "-" not in m.group(1) else "")
                before.setdefault(key, m.group(2))
for name in names:
    pid = name[:3]
    if pid not in props:
        continue
    d = os.path.join(ROOT, "seeded", name)
    log = os.path.join(ROOT, "work", f"seedcheck-{name}.log")
    if not os.path.isdir(d) or not os.path.exists(log):
        continue
    lines = [l.rstrip("\n") for l in open(log, errors="replace")]
    caught = [l for l in lines if "SELFTEST" in l]
    fails = [l for l in lines if l.startswith("FAILED sub-check") or l.startswith("[thorough] FAILED")]
    notes = open(os.path.join(d, "notes.md")).read() if os.path.exists(os.path.join(d, "notes.md")) else ""
    meta = {
        "property": pid,
        "title": props[pid]["title"],
        "origin": "written by a fresh sub-agent that was given only the property text and its own scratch worktree of /repo",
        "what_it_needs_to_manifest": notes.strip()[:1500],
        "verified_here": {
            "demo_on_clean_tree": next((l for l in lines if "demo on clean tree" in l), ""),
            "existing_suite_with_patch": next((l for l in lines if "existing suite with patch" in l), ""),
            "demo_with_patch": next((l for l in lines if "demo with patch" in l), ""),
            "commands": [
                "scratch copy of /repo + tests/seed_demo.rs: cargo test --offline --test seed_demo  (must pass)",
                "patch -p1 < patch.diff ; cargo test --workspace --no-fail-fast --offline  (existing 73 tests must pass)",
                "cargo test --offline --test seed_demo  (must fail)",
                "./selftest.sh seeded/%s/patch.diff <check id> quick [thorough]" % name,
            ],
        },
        "checks_run_against_it": caught,
        "checks_as_they_stood_when_the_seed_arrived": before.get(name, "not measured"),
        "first_failure_reported": [f[:400] for f in fails],
    }
    json.dump(meta, open(os.path.join(d, "meta.json"), "w"), indent=1)
    print(name, "; ".join(c.split("patch.diff")[-1].strip() + " [" + c.split()[1] + "]" for c in caught))
