#!/bin/bash
cd "$(cd "$(dirname "$0")/.." && pwd)"
mkdir -p work
for c in "$@"; do
  s=$(date +%s); ./check.sh $c thorough > work/t-$c.log 2>&1; rc=$?; e=$(date +%s)
  echo "$c rc=$rc $((e-s))s $(grep -E "^C[0-9]+ thorough" work/t-$c.log | cut -c1-100)"
  if [ $rc != 0 ]; then tail -5 work/t-$c.log | cut -c1-500; bad=1; fi
done
exit ${bad:-0}
