#!/bin/bash
# seedcheck.sh <ID> [extra check ids...]
# Verifies a seeded breakage delivered by a sub-agent in /tmp/seed/<ID>/SEED and runs our checks against it.
#  1. clean scratch copy of /repo + demo  -> demo must pass
#  2. + patch -> the repository's own tests must pass, the demo must fail
#  3. ./selftest.sh patch <ID> (quick; thorough if missed) and the extra ids
# Results are appended to /verif/work/seedcheck-<ID>.log ; artefacts copied to /verif/seeded/<ID>/
set -u
ID="$1"; shift
SFX="${SEEDSUFFIX:-}"
SRC="${SEEDSRC:-/tmp/seed}/$ID/SEED"
DST="/verif/seeded/$ID$SFX"
LOG="/verif/work/seedcheck-$ID$SFX.log"
mkdir -p "$DST" /verif/work
: > "$LOG"
for f in patch.diff demo.rs notes.md; do
  [ -f "$SRC/$f" ] || { echo "$ID: missing $f" | tee -a "$LOG"; exit 3; }
  cp "$SRC/$f" "$DST/$f"
done
S="$(mktemp -d /tmp/mqv-seedcheck.XXXXXX)"
trap 'rm -rf "$S"' EXIT
rsync -a --exclude target --exclude .git /repo/ "$S/repo/"
export CARGO_NET_OFFLINE=true
mkdir -p "$S/repo/tests"
cp "$DST/demo.rs" "$S/repo/tests/seed_demo.rs"
if (cd "$S/repo" && timeout 900 cargo test --offline --test seed_demo >"$S/demo0.log" 2>&1); then echo "$ID demo on clean tree: PASS" | tee -a "$LOG"; else echo "$ID demo on clean tree: FAIL (invalid seed)" | tee -a "$LOG"; tail -20 "$S/demo0.log" >> "$LOG"; exit 4; fi
if ! (cd "$S/repo" && patch -p1 --quiet < "$DST/patch.diff"); then echo "$ID patch does not apply" | tee -a "$LOG"; exit 5; fi
rm "$S/repo/tests/seed_demo.rs"
if (cd "$S/repo" && timeout 900 cargo test --workspace --no-fail-fast --offline >"$S/suite.log" 2>&1); then echo "$ID existing suite with patch: PASS ($(grep -m1 'test result' "$S/suite.log"))" | tee -a "$LOG"; else echo "$ID existing suite with patch: FAIL (invalid seed)" | tee -a "$LOG"; tail -20 "$S/suite.log" >> "$LOG"; exit 6; fi
cp "$DST/demo.rs" "$S/repo/tests/seed_demo.rs"
if (cd "$S/repo" && timeout 900 cargo test --offline --test seed_demo >"$S/demo1.log" 2>&1); then echo "$ID demo with patch: PASS (invalid seed: demo does not detect the change)" | tee -a "$LOG"; exit 7; else echo "$ID demo with patch: FAIL (as required)" | tee -a "$LOG"; grep -E "panicked|assert|FAILED" "$S/demo1.log" | head -5 | cut -c1-300 >> "$LOG"; fi
cd /verif
for C in "$ID" "$@"; do
  out="$(SKIP_REPO_TESTS=1 ./selftest.sh "$DST/patch.diff" "$C" quick 2>&1)"
  echo "$out" | grep -E "SELFTEST|FAILED sub-check" | cut -c1-500 | tee -a "$LOG"
  if echo "$out" | grep -q "MISSED" && [ "${SKIP_THOROUGH:-0}" != 1 ]; then
    out="$(SKIP_REPO_TESTS=1 ./selftest.sh "$DST/patch.diff" "$C" thorough 2>&1)"
    echo "[thorough] $(echo "$out" | grep -E "SELFTEST|FAILED sub-check" | cut -c1-500)" | tee -a "$LOG"
  fi
done
