#!/bin/bash
# Miri part of the thorough tier (C03, C05): runs the fixed-seed generated suite under Miri.
#   ./miri.sh <ID>      -> work/miri/<ID>/stats.json ; exit 0 ok / 1 UB or violation (VIOLATION line) / 2 inconclusive
set -u
ROOT="$(cd "$(dirname "$0")" && pwd)"
cd "$ROOT"
ID="${1:?property id}"
case "$ID" in C03) WHICH=c03; N=${MQV_MIRI_CASES:-120};; C05) WHICH=c05; N=${MQV_MIRI_CASES:-150};; *) exit 0;; esac
export CARGO_NET_OFFLINE=true
export MIRIFLAGS="-Zmiri-disable-isolation"
W="$ROOT/work/miri/$ID"; rm -rf "$W"; mkdir -p "$W"
s=$(date +%s)
(cd harness && timeout --signal=KILL 3000 cargo +nightly miri run --bin miri_suite -- "$WHICH" "$N") >"$W/out.log" 2>"$W/err.log"
rc=$?
e=$(date +%s)
if [ "$rc" = 137 ]; then echo "INCONCLUSIVE: Miri watchdog" >&2; exit 2; fi
if [ "$rc" != 0 ]; then
  if ! grep -q "MIRI-CASE" "$W/err.log"; then echo "INCONCLUSIVE: Miri suite did not start" >&2; tail -20 "$W/err.log" >&2; exit 2; fi
  last=$(grep "MIRI-CASE" "$W/err.log" | tail -1)
  kind=$(echo "$last" | awk '{print $2}'); hexs=$(echo "$last" | awk '{print $3}')
  mkdir -p "$ROOT/replays/$ID"
  f="$ROOT/replays/$ID/miri-$(echo "$hexs" | cut -c1-32)-$$.json"
  msg=$(grep -E "error: Undefined Behavior|MIRI-SUITE-VIOLATION|panicked at|error:" "$W/err.log" | head -2 | tr '\n' ' ' | cut -c1-500 | sed 's/\\/\\\\/g; s/"/\\"/g')
  printf '{\n "property": "%s",\n "sub": "miri",\n "kind": "%s",\n "hex": "%s",\n "message": "%s"\n}\n' "$ID" "$kind" "$hexs" "$msg" > "$f"
  echo "FAILED Miri suite ($kind): $msg"
  echo "VIOLATION property=$ID replay=$f"
  exit 1
fi
CASES=$(grep -o "miri-suite: [0-9]* cases" "$W/out.log" | awk '{print $2}')
cat > "$W/stats.json" <<JSON
{
 "engine": "Miri (cargo +nightly miri run) on the fixed-seed generated suite",
 "suite": "$WHICH",
 "cases": ${CASES:-0},
 "wall_s": $(( e - s )),
 "undefined_behaviour_reports": 0
}
JSON
echo "miri $ID: ${CASES:-0} cases, no undefined behaviour reported"
exit 0
