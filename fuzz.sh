#!/bin/bash
# Coverage-guided fuzzing part of the thorough tier (C03, C04, C06, C11, C12).
#   ./fuzz.sh <ID> <seed> [runs-per-process] [processes]
# Builds the cargo-fuzz target(s) of the property against the current /repo tree (ASan, debug
# assertions), generates a seed corpus with the harness' own generators, runs K independent
# libFuzzer processes with fixed -runs/-seed, and leaves work/fuzz/<ID>/{stats.json,corpus/}.
# Exit 0: no crash. Exit 1: a crash that reproduces through the plain binaries (VIOLATION line
# printed by fuzz-triage) or an ASan/fuzz-only crash (VIOLATION with the artifact as replay).
# Exit 2: build failure / watchdog.
set -u
ROOT="$(cd "$(dirname "$0")" && pwd)"
cd "$ROOT"
ID="${1:?property id}"
SEED="${2:-0}"
RUNS="${3:-${MQV_FUZZ_RUNS:-1000000}}"
PROCS="${4:-${MQV_FUZZ_PROCS:-8}}"
export CARGO_NET_OFFLINE=true
export MQV_ROOT="$ROOT"
case "$ID" in
  C03) TARGETS="fz_total"; KIND=raw;;
  C04) TARGETS="fz_grammar fz_tape"; KIND=unframed;;
  C06) TARGETS="fz_agree fz_tape"; KIND=raw;;
  C11) TARGETS="fz_reencode"; KIND=raw;;
  C12) TARGETS="fz_reencode fz_tape"; KIND=raw;;
  *) echo "no fuzz target for $ID"; exit 0;;
esac
W="$ROOT/work/fuzz/$ID"
rm -rf "$W"; mkdir -p "$W/corpus" "$W/seed-raw" "$W/seed-tape" "$W/art" "$W/logs"
BIN_DIR="$ROOT/target/x86_64-unknown-linux-gnu/release"
for T in $TARGETS; do
  if ! (cd harness && cargo +nightly fuzz build "$T") >"$W/logs/build-$T.log" 2>&1; then
    echo "BUILD-FAILED: cargo fuzz build $T" >&2; tail -30 "$W/logs/build-$T.log" >&2; exit 2
  fi
done
"$ROOT/target/relcheck/mqv" gencorpus "$W/seed-raw" --n 400 --seed "$SEED" --kind "$KIND" >/dev/null || exit 2
"$ROOT/target/relcheck/mqv" gencorpus "$W/seed-tape" --n 300 --seed "$SEED" --kind tape >/dev/null || exit 2
NT=$(echo $TARGETS | wc -w)
PER=$(( PROCS / NT )); [ "$PER" -lt 1 ] && PER=1
pids=()
i=0
for T in $TARGETS; do
  SD="$W/seed-raw"; [ "$T" = fz_tape ] && SD="$W/seed-tape"
  for k in $(seq 1 $PER); do
    i=$((i+1))
    mkdir -p "$W/corpus/$T-$k"
    ( timeout --signal=KILL "${MQV_FUZZ_TIMEOUT:-3000}" "$BIN_DIR/$T" -runs="$RUNS" -seed=$(( SEED * 1000 + i )) -len_control=0 -max_len=4096 \
        -print_final_stats=1 -rss_limit_mb=6000 -malloc_limit_mb=1024 -artifact_prefix="$W/art/$T-$k-" "$W/corpus/$T-$k" "$SD" \
        >"$W/logs/$T-$k.log" 2>&1; echo $? >"$W/logs/$T-$k.rc" ) &
    pids+=($!)
  done
done
wait "${pids[@]}"
EXECS=0; BAD=0; WD=0
for rc in "$W"/logs/*.rc; do
  c=$(cat "$rc"); l="${rc%.rc}.log"
  e=$(grep -a "stat::number_of_executed_units" "$l" | awk '{print $2}' | tail -1); EXECS=$(( EXECS + ${e:-0} ))
  if [ "$c" = 137 ]; then WD=1; elif [ "$c" != 0 ]; then BAD=1; fi
done
if [ "$BAD" = 1 ]; then
  for art in "$W"/art/*; do
    [ -f "$art" ] || continue
    # (1) through the plain binaries with our own minimiser
    "$ROOT/target/relcheck/mqv" fuzz-triage "$ID" "$art" --root "$ROOT" && rc1=0 || rc1=$?
    [ "$rc1" = 1 ] && exit 1
    if [ -x "$ROOT/target/release/mqv" ]; then
      "$ROOT/target/release/mqv" fuzz-triage "$ID" "$art" --root "$ROOT" && rc2=0 || rc2=$?
      [ "$rc2" = 1 ] && exit 1
    fi
  done
  # (2) not reproducible outside the instrumented build: report the artifact itself
  art=$(ls "$W"/art/* 2>/dev/null | head -1)
  if [ -n "$art" ]; then
    mkdir -p "$ROOT/replays/$ID"
    T=$(basename "$art" | sed 's/-[0-9]*-.*//')
    keep="$ROOT/replays/$ID/fuzz-artifact-$(basename "$art")"
    cp "$art" "$keep.bin"
    log=$(grep -a -l "$(basename "$art")" "$W"/logs/*.log | head -1)
    msg=$(grep -a -E "MQV-VIOLATION|ERROR: AddressSanitizer|panicked at|SUMMARY" "${log:-/dev/null}" | head -3 | tr '\n' ' ' | cut -c1-600 | sed 's/\\/\\\\/g; s/"/\\"/g')
    printf '{\n "property": "%s",\n "sub": "fuzz-artifact",\n "target": "%s",\n "artifact": "%s",\n "message": "%s"\n}\n' "$ID" "$T" "$keep.bin" "$msg" > "$keep.json"
    echo "FAILED fuzz target $T: $msg"
    echo "VIOLATION property=$ID replay=$keep.json"
    exit 1
  fi
  echo "INCONCLUSIVE: a fuzz process ended abnormally without an artifact" >&2; tail -5 "$W"/logs/*.log >&2
  exit 2
fi
if [ "$WD" = 1 ]; then echo "INCONCLUSIVE: fuzz watchdog" >&2; exit 2; fi
NFILES=$(find "$W/corpus" -type f | wc -l)
cat > "$W/stats.json" <<JSON
{
 "engine": "libFuzzer (cargo-fuzz, AddressSanitizer, debug assertions)",
 "targets": "$TARGETS",
 "processes": $i,
 "runs_per_process": $RUNS,
 "executions": $EXECS,
 "seed_corpus_files": $(find "$W/seed-raw" "$W/seed-tape" -type f | wc -l),
 "corpus_files_after": $NFILES,
 "crashes": 0
}
JSON
echo "fuzz $ID: $EXECS executions over $i processes ($TARGETS), corpus $NFILES files, no crash"
exit 0
