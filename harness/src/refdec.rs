//! Reference decoder written from MQTT 3.1.1 (OASIS 2014) and MQTT 5.0 (OASIS 2019) plus the
//! pinned grammar of DESIGN.md §5. Table driven, works on length-delimited sub-slices, shares
//! no code with the library. Oracle for C04 and C10; supplies header/frame facts elsewhere.

use crate::model::*;
use crate::specpred;

#[derive(Clone, Copy, Debug, PartialEq, Eq, Hash, PartialOrd, Ord)]
pub enum Reject {
    /// not a complete frame (out of C04's domain)
    Incomplete,
    HeaderType,
    HeaderFlags,
    PublishQos,
    VarIntTooLong,
    Truncated,
    Trailing,
    BodyLength,
    ProtocolNameLevel,
    ConnectFlags,
    WillQos,
    ConnackFlags,
    ReturnCode,
    ReasonCode,
    ZeroPid,
    RequestedQos,
    SubscriptionOptions,
    EmptyList,
    Utf8,
    TopicName,
    TopicFilter,
    PropertyId,
    PropertyNotAllowed,
    PropertyDuplicate,
    PropertyLength,
    PropertyBool,
    PayloadFormat,
    MultipleSubscriptionId,
}

pub const ALL_REJECTS: &[Reject] = &[
    Reject::HeaderType,
    Reject::HeaderFlags,
    Reject::PublishQos,
    Reject::VarIntTooLong,
    Reject::Truncated,
    Reject::Trailing,
    Reject::BodyLength,
    Reject::ProtocolNameLevel,
    Reject::ConnectFlags,
    Reject::WillQos,
    Reject::ConnackFlags,
    Reject::ReturnCode,
    Reject::ReasonCode,
    Reject::ZeroPid,
    Reject::RequestedQos,
    Reject::SubscriptionOptions,
    Reject::EmptyList,
    Reject::Utf8,
    Reject::TopicName,
    Reject::TopicFilter,
    Reject::PropertyId,
    Reject::PropertyNotAllowed,
    Reject::PropertyDuplicate,
    Reject::PropertyLength,
    Reject::PropertyBool,
    Reject::PayloadFormat,
    Reject::MultipleSubscriptionId,
];

#[derive(Clone, Debug)]
pub struct Decoded {
    pub pkt: WPacket,
    /// header + remaining length
    pub total: usize,
    pub header_len: usize,
    /// every variable byte integer in the frame was minimally encoded
    pub minimal: bool,
}

/// Fixed-header framing facts: Ok((header_len, remaining_len)).
/// Err(Incomplete) if the var-int is cut short, Err(VarIntTooLong) for a fifth byte.
pub fn frame_bounds(b: &[u8]) -> Result<(usize, usize), Reject> {
    if b.is_empty() {
        return Err(Reject::Incomplete);
    }
    match parse_varint(&b[1..]) {
        Ok((v, w)) => Ok((1 + w, v as usize)),
        Err(true) => Err(Reject::VarIntTooLong),
        Err(false) => Err(Reject::Incomplete),
    }
}

/// `Some(total)` if `b` starts with a complete frame.
pub fn complete_frame_len(b: &[u8]) -> Option<usize> {
    match frame_bounds(b) {
        Ok((h, r)) if b.len() >= h + r => Some(h + r),
        _ => None,
    }
}

struct Cur<'a> {
    b: &'a [u8],
    minimal: bool,
}

impl<'a> Cur<'a> {
    fn take(&mut self, n: usize) -> Result<&'a [u8], Reject> {
        if self.b.len() < n {
            return Err(Reject::Truncated);
        }
        let (a, r) = self.b.split_at(n);
        self.b = r;
        Ok(a)
    }
    fn u8(&mut self) -> Result<u8, Reject> {
        Ok(self.take(1)?[0])
    }
    fn u16(&mut self) -> Result<u16, Reject> {
        let x = self.take(2)?;
        Ok(u16::from_be_bytes([x[0], x[1]]))
    }
    fn u32(&mut self) -> Result<u32, Reject> {
        let x = self.take(4)?;
        Ok(u32::from_be_bytes([x[0], x[1], x[2], x[3]]))
    }
    fn varint(&mut self) -> Result<u32, Reject> {
        match parse_varint(self.b) {
            Ok((v, w)) => {
                if w != varint_min_width(v) {
                    self.minimal = false;
                }
                self.b = &self.b[w..];
                Ok(v)
            }
            Err(true) => Err(Reject::VarIntTooLong),
            Err(false) => Err(Reject::Truncated),
        }
    }
    fn bin(&mut self) -> Result<Vec<u8>, Reject> {
        let n = self.u16()? as usize;
        Ok(self.take(n)?.to_vec())
    }
    /// UTF-8 encoded string (MQTT 1.5.4). U+0000 tolerated here (pinned leniency L7).
    fn string(&mut self) -> Result<Vec<u8>, Reject> {
        let v = self.bin()?;
        if std::str::from_utf8(&v).is_err() {
            return Err(Reject::Utf8);
        }
        Ok(v)
    }
    fn pid(&mut self) -> Result<u16, Reject> {
        let p = self.u16()?;
        if p == 0 {
            return Err(Reject::ZeroPid);
        }
        Ok(p)
    }
    fn end(&self) -> Result<(), Reject> {
        if self.b.is_empty() {
            Ok(())
        } else {
            Err(Reject::Trailing)
        }
    }
}

fn as_str(b: &[u8]) -> &str {
    // only called on bytes that passed the UTF-8 check
    std::str::from_utf8(b).unwrap_or("\u{0}")
}

fn props(c: &mut Cur, ctx: u8) -> Result<Props, Reject> {
    let len = c.varint()? as usize;
    let was_min = c.minimal;
    let sub = c.take(len)?;
    let mut pc = Cur { b: sub, minimal: true };
    let mut items: Vec<Prop> = Vec::new();
    while !pc.b.is_empty() {
        let id = pc.u8()?;
        let (_, ty, _) = prop_info(id).ok_or(Reject::PropertyId)?;
        if !prop_allowed(id, ctx) {
            return Err(Reject::PropertyNotAllowed);
        }
        if id != 0x26 && items.iter().any(|p| p.id == id) {
            // S3: the data model holds one Subscription Identifier per PUBLISH
            return Err(if id == 0x0B && ctx == T_PUBLISH {
                Reject::MultipleSubscriptionId
            } else {
                Reject::PropertyDuplicate
            });
        }
        // a value running past the declared property length is a property-length error
        let fix = |r: Reject| if r == Reject::Truncated { Reject::PropertyLength } else { r };
        let val = match ty {
            PType::Byte => {
                let v = pc.u8().map_err(fix)?;
                if v > 1 {
                    return Err(Reject::PropertyBool);
                }
                PVal::Byte(v)
            }
            PType::U16 => PVal::U16(pc.u16().map_err(fix)?),
            PType::U32 => PVal::U32(pc.u32().map_err(fix)?),
            PType::VarInt => PVal::VarInt(pc.varint().map_err(fix)?, 0),
            PType::Str => {
                let s = pc.string().map_err(fix)?;
                if id == 0x08 && !specpred::name_valid(as_str(&s)) {
                    return Err(Reject::TopicName);
                }
                PVal::Str(s)
            }
            PType::Bin => PVal::Bin(pc.bin().map_err(fix)?),
            PType::Pair => {
                let a = pc.string().map_err(fix)?;
                let b = pc.string().map_err(fix)?;
                PVal::Pair(a, b)
            }
        };
        items.push(Prop { id, val });
    }
    c.minimal = was_min && pc.minimal;
    Ok(Props { items, declared: None, width: 0 })
}

fn payload_format_ok(p: &Props, payload: &[u8]) -> Result<(), Reject> {
    // S1: a payload flagged as UTF-8 must be UTF-8
    if p.get(0x01) == Some(&PVal::Byte(1)) && std::str::from_utf8(payload).is_err() {
        return Err(Reject::PayloadFormat);
    }
    Ok(())
}

fn body(fam: Fam, first: u8, c: &mut Cur) -> Result<Body, Reject> {
    let t = first >> 4;
    let v5 = fam == Fam::V5;
    let rl = c.b.len();
    let b = match t {
        T_CONNECT => {
            let name = c.bin()?;
            let level = c.u8()?;
            let ok = match fam {
                Fam::V3 => (name == b"MQIsdp" && level == 3) || (name == b"MQTT" && level == 4),
                Fam::V5 => name == b"MQTT" && level == 5,
            };
            if !ok {
                return Err(Reject::ProtocolNameLevel);
            }
            let flags = c.u8()?;
            if flags & 1 != 0 {
                return Err(Reject::ConnectFlags);
            }
            let keep_alive = c.u16()?;
            let p = if v5 { Some(props(c, T_CONNECT)?) } else { None };
            let client_id = c.string()?;
            let will = if flags & 0b100 != 0 {
                if (flags >> 3) & 3 == 3 {
                    return Err(Reject::WillQos);
                }
                let wp = if v5 { Some(props(c, CTX_WILL)?) } else { None };
                let topic = c.string()?;
                if !specpred::name_valid(as_str(&topic)) {
                    return Err(Reject::TopicName);
                }
                let payload = c.bin()?;
                if let Some(wp) = &wp {
                    payload_format_ok(wp, &payload)?;
                }
                Some(Will { props: wp, topic, payload })
            } else {
                if (flags >> 3) & 3 != 0 {
                    return Err(Reject::ConnectFlags);
                }
                None
            };
            let username = if flags & 0x80 != 0 { Some(c.string()?) } else { None };
            let password = if flags & 0x40 != 0 { Some(c.bin()?) } else { None };
            Body::Connect { name, level, flags, keep_alive, props: p, client_id, will, username, password }
        }
        T_CONNACK => {
            let flags = c.u8()?;
            if flags > 1 {
                return Err(Reject::ConnackFlags);
            }
            let code = c.u8()?;
            if v5 {
                if !reason_codes(T_CONNACK).contains(&code) {
                    return Err(Reject::ReasonCode);
                }
                Body::Connack { flags, code, props: Some(props(c, T_CONNACK)?) }
            } else {
                if code > 5 {
                    return Err(Reject::ReturnCode);
                }
                Body::Connack { flags, code, props: None }
            }
        }
        T_PUBLISH => {
            let qos = (first >> 1) & 3;
            let topic = c.string()?;
            if !specpred::name_valid(as_str(&topic)) {
                return Err(Reject::TopicName);
            }
            let pid = if qos > 0 { Some(c.pid()?) } else { None };
            let p = if v5 { Some(props(c, T_PUBLISH)?) } else { None };
            let payload = c.take(c.b.len())?.to_vec();
            if let Some(p) = &p {
                payload_format_ok(p, &payload)?;
            }
            Body::Publish { topic, pid, props: p, payload }
        }
        T_PUBACK | T_PUBREC | T_PUBREL | T_PUBCOMP => {
            let pid = c.pid()?;
            if !v5 || rl == 2 {
                Body::Ack { pid, reason: None, props: None }
            } else {
                let r = c.u8()?;
                if !reason_codes(t).contains(&r) {
                    return Err(Reject::ReasonCode);
                }
                if rl == 3 {
                    Body::Ack { pid, reason: Some(r), props: None }
                } else {
                    Body::Ack { pid, reason: Some(r), props: Some(props(c, t)?) }
                }
            }
        }
        T_SUBSCRIBE => {
            let pid = c.pid()?;
            let p = if v5 { Some(props(c, T_SUBSCRIBE)?) } else { None };
            if c.b.is_empty() {
                return Err(Reject::EmptyList);
            }
            let mut topics = Vec::new();
            while !c.b.is_empty() {
                let f = c.string()?;
                if !specpred::filter_valid(as_str(&f)) {
                    return Err(Reject::TopicFilter);
                }
                let o = c.u8()?;
                if v5 {
                    if o & 0xC0 != 0 || o & 3 == 3 || (o >> 4) & 3 == 3 {
                        return Err(Reject::SubscriptionOptions);
                    }
                } else if o > 2 {
                    return Err(Reject::RequestedQos);
                }
                topics.push((f, o));
            }
            Body::Subscribe { pid, props: p, topics }
        }
        T_SUBACK => {
            let pid = c.pid()?;
            let p = if v5 { Some(props(c, T_SUBACK)?) } else { None };
            let mut codes = Vec::new();
            while !c.b.is_empty() {
                let x = c.u8()?;
                if v5 {
                    if !reason_codes(T_SUBACK).contains(&x) {
                        return Err(Reject::ReasonCode);
                    }
                } else if ![0u8, 1, 2, 0x80].contains(&x) {
                    return Err(Reject::ReturnCode);
                }
                codes.push(x);
            }
            Body::Suback { pid, props: p, codes }
        }
        T_UNSUBSCRIBE => {
            let pid = c.pid()?;
            let p = if v5 { Some(props(c, T_UNSUBSCRIBE)?) } else { None };
            if c.b.is_empty() {
                return Err(Reject::EmptyList);
            }
            let mut topics = Vec::new();
            while !c.b.is_empty() {
                let f = c.string()?;
                if !specpred::filter_valid(as_str(&f)) {
                    return Err(Reject::TopicFilter);
                }
                topics.push(f);
            }
            Body::Unsubscribe { pid, props: p, topics }
        }
        T_UNSUBACK => {
            let pid = c.pid()?;
            if v5 {
                let p = props(c, T_UNSUBACK)?;
                let mut codes = Vec::new();
                while !c.b.is_empty() {
                    let x = c.u8()?;
                    if !reason_codes(T_UNSUBACK).contains(&x) {
                        return Err(Reject::ReasonCode);
                    }
                    codes.push(x);
                }
                Body::Suback { pid, props: Some(p), codes }
            } else {
                Body::Ack { pid, reason: None, props: None }
            }
        }
        T_PINGREQ | T_PINGRESP => {
            if rl != 0 {
                return Err(Reject::BodyLength);
            }
            Body::Empty
        }
        T_DISCONNECT if !v5 => {
            if rl != 0 {
                return Err(Reject::BodyLength);
            }
            Body::Empty
        }
        T_DISCONNECT | T_AUTH => {
            if rl == 0 {
                Body::Reason { reason: None, props: None }
            } else {
                let r = c.u8()?;
                if !reason_codes(t).contains(&r) {
                    return Err(Reject::ReasonCode);
                }
                if rl == 1 && t == T_DISCONNECT {
                    Body::Reason { reason: Some(r), props: None }
                } else {
                    Body::Reason { reason: Some(r), props: Some(props(c, t)?) }
                }
            }
        }
        _ => return Err(Reject::HeaderType),
    };
    Ok(b)
}

/// Decodes the frame at the start of `bytes` (bytes after the frame are ignored).
pub fn refdec(fam: Fam, bytes: &[u8]) -> Result<Decoded, Reject> {
    if bytes.is_empty() {
        return Err(Reject::Incomplete);
    }
    let first = bytes[0];
    let t = first >> 4;
    let (hl, rl) = frame_bounds(bytes)?;
    if t == 0 || (t == 15 && fam == Fam::V3) {
        return Err(Reject::HeaderType);
    }
    match required_flags(t) {
        Some(f) => {
            if first & 0x0F != f {
                return Err(Reject::HeaderFlags);
            }
        }
        None => {
            if (first >> 1) & 3 == 3 {
                return Err(Reject::PublishQos);
            }
        }
    }
    if bytes.len() < hl + rl {
        return Err(Reject::Incomplete);
    }
    let mut c = Cur { b: &bytes[hl..hl + rl], minimal: hl - 1 == varint_min_width(rl as u32) };
    let b = body(fam, first, &mut c)?;
    c.end()?;
    Ok(Decoded { pkt: WPacket::new(fam, first, b), total: hl + rl, header_len: hl, minimal: c.minimal })
}

#[cfg(test)]
mod tests {
    use super::*;

    // Hand-assembled examples from the specifications' non-normative examples and the
    // repository's own test vectors (validation (a) of DESIGN.md §3.3).
    #[test]
    fn v3_connect_example() {
        let b = unhex("101000044d5154540402003c000474657374").unwrap();
        let d = refdec(Fam::V3, &b).unwrap();
        match d.pkt.body {
            Body::Connect { name, level, flags, keep_alive, client_id, .. } => {
                assert_eq!(name, b"MQTT");
                assert_eq!(level, 4);
                assert_eq!(flags, 2);
                assert_eq!(keep_alive, 60);
                assert_eq!(client_id, b"test");
            }
            _ => panic!(),
        }
        assert_eq!(refdec(Fam::V5, &b).unwrap_err(), Reject::ProtocolNameLevel);
    }

    #[test]
    fn v5_publish_props() {
        // PUBLISH qos1, topic "a/b", pid 10, props: PFI=1, user("k","v"), payload "hi"
        let b = unhex("3213 0003612f62 000a 09 0101 26 00016b 000176 6869".replace(' ', "").as_str()).unwrap();
        let d = refdec(Fam::V5, &b).unwrap();
        assert!(d.minimal);
        match d.pkt.body {
            Body::Publish { topic, pid, props, payload } => {
                assert_eq!(topic, b"a/b");
                assert_eq!(pid, Some(10));
                assert_eq!(payload, b"hi");
                assert_eq!(props.unwrap().items.len(), 2);
            }
            _ => panic!(),
        }
    }

    #[test]
    fn rejects() {
        assert_eq!(refdec(Fam::V3, &unhex("c001ff").unwrap()).unwrap_err(), Reject::BodyLength);
        assert_eq!(refdec(Fam::V3, &unhex("40020000").unwrap()).unwrap_err(), Reject::ZeroPid);
        assert_eq!(refdec(Fam::V3, &unhex("6002000a").unwrap()).unwrap_err(), Reject::HeaderFlags);
        assert_eq!(refdec(Fam::V5, &unhex("f0021900").unwrap()).map(|d| d.total), Ok(4));
        assert_eq!(refdec(Fam::V3, &unhex("f000").unwrap()).unwrap_err(), Reject::HeaderType);
        assert_eq!(refdec(Fam::V5, &unhex("4004000a1000").unwrap()).map(|d| d.total), Ok(6));
        assert_eq!(refdec(Fam::V5, &unhex("4003000a11").unwrap()).unwrap_err(), Reject::ReasonCode);
    }
}
