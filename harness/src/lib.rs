//! mqv: property-based testing / fuzzing harness for akasamq/mqtt-proto (see /verif/DESIGN.md).
pub mod checks;
pub mod fam;
pub mod fuzzsupport;
pub mod gen;
pub mod json;
pub mod kf;
pub mod corpus;
pub mod model;
pub mod mutate;
pub mod project;
pub mod refdec;
pub mod run;
pub mod sio;
pub mod sized;
pub mod specpred;
pub mod tape;
pub mod walk;
