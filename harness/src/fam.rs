//! Uniform view of the two codec families and their three decoder / three encoder front-ends.

use crate::gen::{self, GenCfg, GenError};
use crate::model::{Fam, WPacket};
use crate::project;
use crate::sio::{self, ReadRec, ScriptedReader, Step};
use crate::tape::Tape;
use mqtt_proto::{v3, v5, Encodable, GenericPollPacket, GenericPollPacketState, PollHeader, VarBytes};
use std::fmt::Debug;
use std::future::Future;
use std::io;
use std::mem::MaybeUninit;
use std::task::{Context, Poll};
use tokio::io::{AsyncRead, AsyncWrite};

pub trait Family: 'static + Sized + Send + Sync {
    const FAM: Fam;
    const NTYPES: usize;
    type Packet: Clone + Debug + PartialEq + Send;
    type Error: Clone + Debug + PartialEq + Send + From<io::Error> + From<mqtt_proto::Error>;
    type Header: PollHeader<Packet = Self::Packet, Error = Self::Error> + Copy + Unpin + Debug + PartialEq;

    fn gen(t: &mut Tape, cfg: &GenCfg) -> Result<Self::Packet, GenError>;
    fn gen_of_type(t: &mut Tape, cfg: &GenCfg, typ: usize) -> Result<Self::Packet, GenError>;
    fn project(p: &Self::Packet) -> WPacket;
    fn encode(p: &Self::Packet) -> Result<VarBytes, mqtt_proto::Error>;
    /// total encoded length as reported by the packet; errors are rendered
    fn encode_len(p: &Self::Packet) -> Result<usize, String>;
    fn decode(b: &[u8]) -> Result<Option<Self::Packet>, Self::Error>;
    fn decode_async<R: AsyncRead + Unpin>(r: &mut R) -> impl std::future::Future<Output = Result<Self::Packet, Self::Error>>;
    fn encode_async<W: AsyncWrite + Unpin>(p: &Self::Packet, w: &mut W) -> impl std::future::Future<Output = Result<(), Self::Error>>;
    fn header_decode(b: &[u8]) -> Result<Self::Header, Self::Error>;
    fn header_decode_async<R: AsyncRead + Unpin>(r: &mut R) -> impl std::future::Future<Output = Result<Self::Header, Self::Error>>;
    /// `Header::new_with(first byte, remaining length)`
    fn header_new_with(hd: u8, rl: u32) -> Result<Self::Header, Self::Error>;
    /// (type number per the specification through a name-keyed table, dup, qos number, retain, remaining length)
    fn header_parts(h: &Self::Header) -> (u8, bool, u8, bool, u32);
    /// `Header::new` from such parts (None if the type number does not exist in this family)
    fn header_new(parts: (u8, bool, u8, bool, u32)) -> Option<Self::Header>;
    /// type number (specification) of `Packet::get_type()`
    fn packet_type_num(p: &Self::Packet) -> u8;
    /// a clone of the packet (sharing its allocations) with one thing changed; None if this packet has nothing to change
    fn derive(p: &Self::Packet, t: &mut Tape) -> Option<Self::Packet>;
    fn is_eof(e: &Self::Error) -> bool;
    fn common(e: &Self::Error) -> Option<&mqtt_proto::Error>;
    /// the error this family wraps a common error in
    fn wrap(e: mqtt_proto::Error) -> Self::Error;
    fn to_io(e: Self::Error) -> Option<io::Error>;
    /// streaming encoder of the body and its reported length, for types that have a body struct
    fn body_encode<W: io::Write>(p: &Self::Packet, w: &mut W) -> Option<io::Result<()>>;
    fn body_encode_len(p: &Self::Packet) -> Option<usize>;
    /// PUBLISH with topic "t", QoS 0, no properties and the given payload
    fn publish_with_payload(payload: Vec<u8>) -> Self::Packet;
    fn type_index(p: &Self::Packet) -> usize;
    /// the public per-type body decoder (`X::decode_async`) selected by the frame's own header,
    /// run on the bytes after the header; None if the header does not parse or the type has no body decoder
    fn body_level_decode(frame: &[u8]) -> Option<Result<Self::Packet, Self::Error>>;
    /// the same decoders reading from a stream that is positioned behind the fixed header `h` and goes on behind the
    /// frame; `variant` 1 decodes a CONNECT the way a version-sniffing server does (`Protocol::decode_async`, then
    /// `Connect::decode_with_protocol`)
    fn body_level_decode_stream(h: Self::Header, r: &mut &[u8], variant: u8) -> Option<Result<Self::Packet, Self::Error>>;
    /// sized constructions that only exist in one family (see sized.rs)
    fn build_sized(kind: u64, typ: usize, target: usize) -> Option<Self::Packet>;
    /// every invariant-bearing field of a packet
    fn walk(p: &Self::Packet) -> Vec<crate::walk::Field<'_>>;
    const FIELD_LABELS: &'static [&'static str];
    /// the family's error value for a catalogue expectation
    fn from_exp(e: &crate::mutate::ExpErr) -> Option<Self::Error>;
    /// every separately encodable part reachable from the packet (body, will, property sets, protocol)
    fn parts(p: &Self::Packet) -> Vec<Part>;
    /// packets of every type that carries properties, each with `n` user properties whose
    /// name and value share one allocation of `len` bytes (oversize constructions of C02)
    fn oversize_props(n: usize, len: usize) -> Vec<Self::Packet>;
}

pub struct Part {
    pub name: &'static str,
    pub reported: usize,
    pub bytes: Vec<u8>,
    /// the same part written through a sink that accepts one byte per call
    pub chunked: Result<Vec<u8>, String>,
    pub result: Result<(), String>,
}

pub fn part<E: Encodable>(name: &'static str, e: &E) -> Part {
    let mut bytes = Vec::new();
    let result = e.encode(&mut bytes).map_err(|e| format!("{:?}", e));
    let steps = [sio::WStep::Accept(1); 0];
    let mut w = sio::ScriptedWriter::new(&steps, e.encode_len().saturating_add(bytes.len()));
    w.one_byte = true;
    let mut chunked = match e.encode(&mut w) {
        Ok(()) => Ok(w.out),
        Err(e) => Err(format!("{:?}", e)),
    };
    // and through sinks that accept 1, 2, 3 or 5 bytes per call, with and without their own vectored writes
    if chunked.is_ok() && bytes.len() <= 70_000 {
        for (k, vectored) in [(1usize, true), (2, false), (2, true), (3, false), (3, true), (5, true)] {
            let st: Vec<sio::WStep> = (0..bytes.len() / k + 4).map(|_| sio::WStep::Accept(k)).collect();
            let mut v = sio::ScriptedWriter::new(&st, e.encode_len().saturating_add(bytes.len()));
            v.vectored = vectored;
            match e.encode(&mut v) {
                Ok(()) => {
                    if v.out != bytes {
                        chunked = Err(format!("a sink accepting {} byte(s) per call (vectored writes: {}) received {} bytes instead of {}", k, vectored, v.out.len(), bytes.len()));
                        break;
                    }
                }
                Err(er) => {
                    chunked = Err(format!("sink accepting {} byte(s) per call (vectored: {}): {:?}", k, vectored, er));
                    break;
                }
            }
        }
    }
    // a sink that itself uses the codec while it is being written to (a tunnel that frames what it receives, a logging
    // writer that publishes what it saw): every `write` call first encodes a v5 property set and a v3 packet of its own
    // on this thread, then takes the data. The part still writes exactly its own bytes.
    if chunked.is_ok() && bytes.len() <= 70_000 {
        struct Reentrant {
            out: Vec<u8>,
            nested: usize,
        }
        impl io::Write for Reentrant {
            fn write(&mut self, data: &[u8]) -> io::Result<usize> {
                let inner = v5::PublishProperties { user_properties: vec![v5::UserProperty { name: std::sync::Arc::new("seen".to_string()), value: std::sync::Arc::new(data.len().to_string()) }], content_type: Some(std::sync::Arc::new("application/octet-stream".to_string())), ..Default::default() };
                let mut scratch: Vec<u8> = Vec::new();
                let _ = inner.encode(&mut scratch);
                let _ = v5::Packet::Pingreq.encode();
                let _ = v3::Packet::Puback(mqtt_proto::Pid::default()).encode();
                self.nested += scratch.len();
                let n = data.len().min(7);
                self.out.extend_from_slice(&data[..n]);
                Ok(n)
            }
            fn flush(&mut self) -> io::Result<()> {
                Ok(())
            }
        }
        let mut rw = Reentrant { out: Vec::new(), nested: 0 };
        match e.encode(&mut rw) {
            Ok(()) => {
                if rw.out != bytes {
                    chunked = Err(format!("a sink that encodes packets of its own inside every write call received {} bytes instead of {} (first difference at byte {})", rw.out.len(), bytes.len(), rw.out.iter().zip(&bytes).position(|(a, b)| a != b).unwrap_or(rw.out.len().min(bytes.len()))));
                }
            }
            Err(er) => chunked = Err(format!("a sink that encodes packets of its own inside every write call: {:?}", er)),
        }
    }
    // sinks that are too small (`&mut [u8]` and `Cursor<&mut [u8]>` with room for fewer bytes than the part needs): the
    // encoder has to fail, and what it wrote is a prefix; with exactly enough room it succeeds
    if chunked.is_ok() && !bytes.is_empty() && bytes.len() <= 70_000 {
        let len = bytes.len();
        for cap in [len, len - 1, len.saturating_sub(2), len / 2, 1, 0] {
            if cap > len {
                continue;
            }
            for cursor in [false, true] {
                let mut store = vec![0u8; cap];
                let (res, written) = if cursor {
                    let mut c = std::io::Cursor::new(&mut store[..]);
                    let r = e.encode(&mut c);
                    (r, c.position() as usize)
                } else {
                    let mut sl: &mut [u8] = &mut store[..];
                    let r = e.encode(&mut sl);
                    let left = sl.len();
                    (r, cap - left)
                };
                let what = if cursor { "Cursor<&mut [u8]>" } else { "&mut [u8]" };
                if cap == len {
                    if res.is_err() || store[..] != bytes[..] {
                        chunked = Err(format!("a {} with exactly {} bytes of room: {:?}, {} bytes written", what, cap, res, written));
                    }
                } else if res.is_ok() {
                    chunked = Err(format!("a {} with room for {} of the {} bytes: the encoder returned Ok(()) after writing {} bytes", what, cap, len, written));
                } else if store[..written.min(cap)] != bytes[..written.min(cap)] {
                    chunked = Err(format!("a {} with room for {} of the {} bytes received bytes that are not a prefix of the encoding", what, cap, len));
                }
            }
        }
    }
    // a blocking sink that is interrupted every other call (write_all has to retry, nothing may be lost or repeated)
    if chunked.is_ok() && bytes.len() <= 70_000 {
        let st: Vec<sio::WStep> = (0..bytes.len() + 8).map(|i| if i % 2 == 0 { sio::WStep::Interrupt } else { sio::WStep::Accept(1 + i % 7) }).collect();
        let mut v = sio::ScriptedWriter::new(&st, e.encode_len().saturating_add(bytes.len()));
        v.one_byte = true;
        match e.encode(&mut v) {
            Ok(()) if v.out == bytes => {}
            Ok(()) => chunked = Err(format!("a sink that is interrupted (ErrorKind::Interrupted) every other call received {} bytes instead of {}", v.out.len(), bytes.len())),
            // handing the interruption on as an error claims nothing about the bytes written: acceptable
            Err(er) if er.kind() == io::ErrorKind::Interrupted => {}
            Err(er) => chunked = Err(format!("a sink that is interrupted (ErrorKind::Interrupted) every other call: the encoder failed with {:?}", er)),
        }
    }
    Part { name, reported: e.encode_len(), bytes, chunked, result }
}

pub struct V3;
pub struct V5;

/// v3 packet types by name -> type number of MQTT 3.1.1 table 2.1
const V3_TYPE_TABLE: [(v3::PacketType, u8); 14] = [
    (v3::PacketType::Connect, 1),
    (v3::PacketType::Connack, 2),
    (v3::PacketType::Publish, 3),
    (v3::PacketType::Puback, 4),
    (v3::PacketType::Pubrec, 5),
    (v3::PacketType::Pubrel, 6),
    (v3::PacketType::Pubcomp, 7),
    (v3::PacketType::Subscribe, 8),
    (v3::PacketType::Suback, 9),
    (v3::PacketType::Unsubscribe, 10),
    (v3::PacketType::Unsuback, 11),
    (v3::PacketType::Pingreq, 12),
    (v3::PacketType::Pingresp, 13),
    (v3::PacketType::Disconnect, 14),
];

fn v3_type_num(t: v3::PacketType) -> u8 {
    V3_TYPE_TABLE.iter().find(|(x, _)| *x == t).map(|(_, n)| *n).unwrap_or(0)
}

fn qos_of(n: u8) -> Option<mqtt_proto::QoS> {
    match n {
        0 => Some(mqtt_proto::QoS::Level0),
        1 => Some(mqtt_proto::QoS::Level1),
        2 => Some(mqtt_proto::QoS::Level2),
        _ => None,
    }
}

impl Family for V3 {
    const FAM: Fam = Fam::V3;
    const NTYPES: usize = gen::V3_TYPES;
    type Packet = v3::Packet;
    type Error = mqtt_proto::Error;
    type Header = v3::Header;

    fn gen(t: &mut Tape, cfg: &GenCfg) -> Result<Self::Packet, GenError> {
        gen::gen_v3(t, cfg)
    }
    fn gen_of_type(t: &mut Tape, cfg: &GenCfg, typ: usize) -> Result<Self::Packet, GenError> {
        gen::gen_v3_of_type(t, cfg, typ)
    }
    fn project(p: &Self::Packet) -> WPacket {
        project::project_v3(p)
    }
    fn encode(p: &Self::Packet) -> Result<VarBytes, mqtt_proto::Error> {
        p.encode()
    }
    fn encode_len(p: &Self::Packet) -> Result<usize, String> {
        p.encode_len().map_err(|e| format!("{:?}", e))
    }
    fn decode(b: &[u8]) -> Result<Option<Self::Packet>, Self::Error> {
        warm_thread(Fam::V3);
        v3::Packet::decode(b)
    }
    async fn decode_async<R: AsyncRead + Unpin>(r: &mut R) -> Result<Self::Packet, Self::Error> {
        v3::Packet::decode_async(r).await
    }
    async fn encode_async<W: AsyncWrite + Unpin>(p: &Self::Packet, w: &mut W) -> Result<(), Self::Error> {
        p.encode_async(w).await
    }
    fn header_decode(b: &[u8]) -> Result<Self::Header, Self::Error> {
        v3::Header::decode(b)
    }
    async fn header_decode_async<R: AsyncRead + Unpin>(r: &mut R) -> Result<Self::Header, Self::Error> {
        v3::Header::decode_async(r).await
    }
    fn header_new_with(hd: u8, rl: u32) -> Result<Self::Header, Self::Error> {
        v3::Header::new_with(hd, rl)
    }
    fn header_parts(h: &Self::Header) -> (u8, bool, u8, bool, u32) {
        (v3_type_num(h.typ), h.dup, project::qos_num(h.qos), h.retain, h.remaining_len)
    }
    fn header_new(parts: (u8, bool, u8, bool, u32)) -> Option<Self::Header> {
        let typ = V3_TYPE_TABLE.iter().find(|(_, n)| *n == parts.0)?.0;
        let qos = qos_of(parts.2)?;
        Some(v3::Header::new(typ, parts.1, qos, parts.3, parts.4))
    }
    fn packet_type_num(p: &Self::Packet) -> u8 {
        v3_type_num(p.get_type())
    }
    fn derive(p: &Self::Packet, t: &mut Tape) -> Option<Self::Packet> {
        let mut q = p.clone();
        match &mut q {
            v3::Packet::Publish(pb) => match t.pick(3) {
                0 => pb.retain = !pb.retain,
                1 => pb.dup = !pb.dup && pb.qos_pid != mqtt_proto::QosPid::Level0,
                _ => {
                    pb.qos_pid = match pb.qos_pid {
                        mqtt_proto::QosPid::Level0 => mqtt_proto::QosPid::Level1(gen::gen_pid(t)),
                        mqtt_proto::QosPid::Level1(x) => mqtt_proto::QosPid::Level2(x),
                        mqtt_proto::QosPid::Level2(x) => mqtt_proto::QosPid::Level1(x + 1),
                    }
                }
            },
            v3::Packet::Connect(c) => c.keep_alive = c.keep_alive.wrapping_add(1),
            v3::Packet::Puback(x) | v3::Packet::Pubrec(x) | v3::Packet::Pubrel(x) | v3::Packet::Pubcomp(x) | v3::Packet::Unsuback(x) => *x = *x + 1,
            _ => return None,
        }
        Some(q)
    }
    fn is_eof(e: &Self::Error) -> bool {
        e.is_eof()
    }
    fn common(e: &Self::Error) -> Option<&mqtt_proto::Error> {
        Some(e)
    }
    fn wrap(e: mqtt_proto::Error) -> Self::Error {
        e
    }
    fn to_io(e: Self::Error) -> Option<io::Error> {
        Some(e.into())
    }
    fn body_encode<W: io::Write>(p: &Self::Packet, w: &mut W) -> Option<io::Result<()>> {
        use v3::Packet as P;
        match p {
            P::Connect(x) => Some(x.encode(w)),
            P::Publish(x) => Some(x.encode(w)),
            P::Subscribe(x) => Some(x.encode(w)),
            P::Suback(x) => Some(x.encode(w)),
            P::Unsubscribe(x) => Some(x.encode(w)),
            _ => None,
        }
    }
    fn body_encode_len(p: &Self::Packet) -> Option<usize> {
        use v3::Packet as P;
        match p {
            P::Connect(x) => Some(x.encode_len()),
            P::Publish(x) => Some(x.encode_len()),
            P::Subscribe(x) => Some(x.encode_len()),
            P::Suback(x) => Some(x.encode_len()),
            P::Unsubscribe(x) => Some(x.encode_len()),
            _ => None,
        }
    }
    fn publish_with_payload(payload: Vec<u8>) -> Self::Packet {
        let topic = std::convert::TryFrom::try_from("t".to_string()).expect("MQV-INTERNAL topic");
        v3::Packet::Publish(v3::Publish::new(mqtt_proto::QosPid::Level0, topic, bytes::Bytes::from(payload)))
    }
    fn type_index(p: &Self::Packet) -> usize {
        type_index_v3(p)
    }
    fn from_exp(e: &crate::mutate::ExpErr) -> Option<Self::Error> {
        e.v3()
    }
    fn build_sized(kind: u64, typ: usize, target: usize) -> Option<Self::Packet> {
        crate::sized::build_v3(kind, typ, target)
    }
    fn body_level_decode(frame: &[u8]) -> Option<Result<Self::Packet, Self::Error>> {
        use futures_lite::future::block_on;
        use v3::PacketType as T;
        let _ = block_on(async {});
        let _ = T::Connect;
        let h = v3::Header::decode(frame).ok()?;
        let (hl, _) = crate::refdec::frame_bounds(frame).ok()?;
        let mut r: &[u8] = frame.get(hl..)?;
        Self::body_level_decode_stream(h, &mut r, 0)
    }
    fn body_level_decode_stream(h: Self::Header, r: &mut &[u8], variant: u8) -> Option<Result<Self::Packet, Self::Error>> {
        use futures_lite::future::block_on;
        use v3::PacketType as T;
        let mut r = r;
        let rl = h.remaining_len as usize;
        Some(match h.typ {
            T::Connect if variant == 1 => match block_on(mqtt_proto::Protocol::decode_async(&mut r)) {
                Ok(proto) => block_on(v3::Connect::decode_with_protocol(&mut r, proto)).map(Into::into),
                Err(e) => Err(e),
            },
            T::Connect => block_on(v3::Connect::decode_async(&mut r)).map(Into::into),
            T::Connack => block_on(v3::Connack::decode_async(&mut r)).map(Into::into),
            T::Publish => block_on(v3::Publish::decode_async(&mut r, h)).map(Into::into),
            T::Subscribe => block_on(v3::Subscribe::decode_async(&mut r, rl)).map(Into::into),
            T::Suback => block_on(v3::Suback::decode_async(&mut r, rl)).map(Into::into),
            T::Unsubscribe => block_on(v3::Unsubscribe::decode_async(&mut r, rl)).map(Into::into),
            _ => return None,
        })
    }
    fn walk(p: &Self::Packet) -> Vec<crate::walk::Field<'_>> {
        crate::walk::fields_v3(p)
    }
    const FIELD_LABELS: &'static [&'static str] = crate::walk::V3_LABELS;
    fn parts(p: &Self::Packet) -> Vec<Part> {
        use v3::Packet as P;
        let mut v = Vec::new();
        match p {
            P::Connect(c) => {
                v.push(part("v3.Connect", c));
                v.push(part("Protocol", &c.protocol));
                if let Some(w) = &c.last_will {
                    v.push(part("v3.LastWill", w));
                }
            }
            P::Publish(x) => v.push(part("v3.Publish", x)),
            P::Subscribe(x) => v.push(part("v3.Subscribe", x)),
            P::Suback(x) => v.push(part("v3.Suback", x)),
            P::Unsubscribe(x) => v.push(part("v3.Unsubscribe", x)),
            _ => {}
        }
        v
    }
    fn oversize_props(_n: usize, _len: usize) -> Vec<Self::Packet> {
        Vec::new()
    }
}

impl Family for V5 {
    const FAM: Fam = Fam::V5;
    const NTYPES: usize = gen::V5_TYPES;
    type Packet = v5::Packet;
    type Error = v5::ErrorV5;
    type Header = v5::Header;

    fn gen(t: &mut Tape, cfg: &GenCfg) -> Result<Self::Packet, GenError> {
        gen::gen_v5(t, cfg)
    }
    fn gen_of_type(t: &mut Tape, cfg: &GenCfg, typ: usize) -> Result<Self::Packet, GenError> {
        gen::gen_v5_of_type(t, cfg, typ)
    }
    fn project(p: &Self::Packet) -> WPacket {
        project::project_v5(p)
    }
    fn encode(p: &Self::Packet) -> Result<VarBytes, mqtt_proto::Error> {
        p.encode()
    }
    fn encode_len(p: &Self::Packet) -> Result<usize, String> {
        p.encode_len().map_err(|e| format!("{:?}", e))
    }
    fn decode(b: &[u8]) -> Result<Option<Self::Packet>, Self::Error> {
        warm_thread(Fam::V5);
        v5::Packet::decode(b)
    }
    async fn decode_async<R: AsyncRead + Unpin>(r: &mut R) -> Result<Self::Packet, Self::Error> {
        v5::Packet::decode_async(r).await
    }
    async fn encode_async<W: AsyncWrite + Unpin>(p: &Self::Packet, w: &mut W) -> Result<(), Self::Error> {
        p.encode_async(w).await
    }
    fn header_decode(b: &[u8]) -> Result<Self::Header, Self::Error> {
        v5::Header::decode(b)
    }
    async fn header_decode_async<R: AsyncRead + Unpin>(r: &mut R) -> Result<Self::Header, Self::Error> {
        v5::Header::decode_async(r).await
    }
    fn header_new_with(hd: u8, rl: u32) -> Result<Self::Header, Self::Error> {
        v5::Header::new_with(hd, rl)
    }
    fn header_parts(h: &Self::Header) -> (u8, bool, u8, bool, u32) {
        (project::packet_type_num(h.typ), h.dup, project::qos_num(h.qos), h.retain, h.remaining_len)
    }
    fn header_new(parts: (u8, bool, u8, bool, u32)) -> Option<Self::Header> {
        let typ = crate::mutate::packet_type_of(parts.0)?;
        let qos = qos_of(parts.2)?;
        Some(v5::Header::new(typ, parts.1, qos, parts.3, parts.4))
    }
    fn packet_type_num(p: &Self::Packet) -> u8 {
        project::packet_type_num(p.get_type())
    }
    fn derive(p: &Self::Packet, t: &mut Tape) -> Option<Self::Packet> {
        let mut q = p.clone();
        match &mut q {
            v5::Packet::Publish(pb) => match t.pick(6) {
                0 => pb.properties.topic_alias = Some(pb.properties.topic_alias.map(|x| x.wrapping_add(1)).unwrap_or(3)),
                1 => pb.properties.subscription_id = std::convert::TryFrom::try_from(t.pick(1000) as u32 + 1).ok(),
                2 => pb.properties.user_properties.push(v5::UserProperty { name: std::sync::Arc::new("to".to_string()), value: std::sync::Arc::new(format!("sub-{}", t.pick(9))) }),
                3 => pb.properties.message_expiry_interval = Some(t.pick(100) as u32),
                4 => pb.retain = !pb.retain,
                _ => {
                    pb.properties.user_properties.pop();
                    pb.properties.content_type = None;
                }
            },
            v5::Packet::Connect(c) => c.keep_alive = c.keep_alive.wrapping_add(1),
            v5::Packet::Puback(a) => a.pid = a.pid + 1,
            v5::Packet::Disconnect(d) => d.properties.user_properties.push(v5::UserProperty { name: std::sync::Arc::new("k".to_string()), value: std::sync::Arc::new("v".to_string()) }),
            _ => {
                gen::user_props_mut(&mut q)?.push(v5::UserProperty { name: std::sync::Arc::new("k".to_string()), value: std::sync::Arc::new("v".to_string()) });
            }
        }
        if q == *p {
            return None;
        }
        Some(q)
    }
    fn is_eof(e: &Self::Error) -> bool {
        e.is_eof()
    }
    fn common(e: &Self::Error) -> Option<&mqtt_proto::Error> {
        match e {
            v5::ErrorV5::Common(c) => Some(c),
            _ => None,
        }
    }
    fn wrap(e: mqtt_proto::Error) -> Self::Error {
        v5::ErrorV5::Common(e)
    }
    fn to_io(_e: Self::Error) -> Option<io::Error> {
        None
    }
    fn body_encode<W: io::Write>(p: &Self::Packet, w: &mut W) -> Option<io::Result<()>> {
        use v5::Packet as P;
        match p {
            P::Connect(x) => Some(x.encode(w)),
            P::Connack(x) => Some(x.encode(w)),
            P::Publish(x) => Some(x.encode(w)),
            P::Puback(x) => Some(x.encode(w)),
            P::Pubrec(x) => Some(x.encode(w)),
            P::Pubrel(x) => Some(x.encode(w)),
            P::Pubcomp(x) => Some(x.encode(w)),
            P::Subscribe(x) => Some(x.encode(w)),
            P::Suback(x) => Some(x.encode(w)),
            P::Unsubscribe(x) => Some(x.encode(w)),
            P::Unsuback(x) => Some(x.encode(w)),
            P::Disconnect(x) => Some(x.encode(w)),
            P::Auth(x) => Some(x.encode(w)),
            P::Pingreq | P::Pingresp => None,
        }
    }
    fn body_encode_len(p: &Self::Packet) -> Option<usize> {
        use v5::Packet as P;
        match p {
            P::Connect(x) => Some(x.encode_len()),
            P::Connack(x) => Some(x.encode_len()),
            P::Publish(x) => Some(x.encode_len()),
            P::Puback(x) => Some(x.encode_len()),
            P::Pubrec(x) => Some(x.encode_len()),
            P::Pubrel(x) => Some(x.encode_len()),
            P::Pubcomp(x) => Some(x.encode_len()),
            P::Subscribe(x) => Some(x.encode_len()),
            P::Suback(x) => Some(x.encode_len()),
            P::Unsubscribe(x) => Some(x.encode_len()),
            P::Unsuback(x) => Some(x.encode_len()),
            P::Disconnect(x) => Some(x.encode_len()),
            P::Auth(x) => Some(x.encode_len()),
            P::Pingreq | P::Pingresp => None,
        }
    }
    fn publish_with_payload(payload: Vec<u8>) -> Self::Packet {
        let topic = std::convert::TryFrom::try_from("t".to_string()).expect("MQV-INTERNAL topic");
        v5::Packet::Publish(v5::Publish::new(mqtt_proto::QosPid::Level0, topic, bytes::Bytes::from(payload)))
    }
    fn type_index(p: &Self::Packet) -> usize {
        type_index_v5(p)
    }
    fn from_exp(e: &crate::mutate::ExpErr) -> Option<Self::Error> {
        e.v5()
    }
    fn build_sized(kind: u64, typ: usize, target: usize) -> Option<Self::Packet> {
        crate::sized::build_v5(kind, typ, target)
    }
    fn body_level_decode(frame: &[u8]) -> Option<Result<Self::Packet, Self::Error>> {
        use futures_lite::future::block_on;
        use v5::PacketType as T;
        let _ = block_on(async {});
        let _ = T::Connect;
        let h = v5::Header::decode(frame).ok()?;
        let (hl, _) = crate::refdec::frame_bounds(frame).ok()?;
        let mut r: &[u8] = frame.get(hl..)?;
        Self::body_level_decode_stream(h, &mut r, 0)
    }
    fn body_level_decode_stream(h: Self::Header, r: &mut &[u8], variant: u8) -> Option<Result<Self::Packet, Self::Error>> {
        use futures_lite::future::block_on;
        use v5::PacketType as T;
        let mut r = r;
        Some(match h.typ {
            T::Connect if variant == 1 => match block_on(mqtt_proto::Protocol::decode_async(&mut r)) {
                Ok(proto) => block_on(v5::Connect::decode_with_protocol(&mut r, h, proto)).map(Into::into),
                Err(e) => Err(e.into()),
            },
            T::Connect => block_on(v5::Connect::decode_async(&mut r, h)).map(Into::into),
            T::Connack => block_on(v5::Connack::decode_async(&mut r, h)).map(Into::into),
            T::Publish => block_on(v5::Publish::decode_async(&mut r, h)).map(Into::into),
            T::Puback => block_on(v5::Puback::decode_async(&mut r, h)).map(Into::into),
            T::Pubrec => block_on(v5::Pubrec::decode_async(&mut r, h)).map(Into::into),
            T::Pubrel => block_on(v5::Pubrel::decode_async(&mut r, h)).map(Into::into),
            T::Pubcomp => block_on(v5::Pubcomp::decode_async(&mut r, h)).map(Into::into),
            T::Subscribe => block_on(v5::Subscribe::decode_async(&mut r, h)).map(Into::into),
            T::Suback => block_on(v5::Suback::decode_async(&mut r, h)).map(Into::into),
            T::Unsubscribe => block_on(v5::Unsubscribe::decode_async(&mut r, h)).map(Into::into),
            T::Unsuback => block_on(v5::Unsuback::decode_async(&mut r, h)).map(Into::into),
            T::Disconnect => block_on(v5::Disconnect::decode_async(&mut r, h)).map(Into::into),
            T::Auth => block_on(v5::Auth::decode_async(&mut r, h)).map(Into::into),
            T::Pingreq | T::Pingresp => return None,
        })
    }
    fn walk(p: &Self::Packet) -> Vec<crate::walk::Field<'_>> {
        crate::walk::fields_v5(p)
    }
    const FIELD_LABELS: &'static [&'static str] = crate::walk::V5_LABELS;
    fn parts(p: &Self::Packet) -> Vec<Part> {
        use v5::Packet as P;
        let mut v = Vec::new();
        match p {
            P::Connect(c) => {
                v.push(part("v5.Connect", c));
                v.push(part("Protocol", &c.protocol));
                v.push(part("ConnectProperties", &c.properties));
                if let Some(w) = &c.last_will {
                    v.push(part("v5.LastWill", w));
                    v.push(part("WillProperties", &w.properties));
                }
            }
            P::Connack(x) => {
                v.push(part("v5.Connack", x));
                v.push(part("ConnackProperties", &x.properties));
            }
            P::Publish(x) => {
                v.push(part("v5.Publish", x));
                v.push(part("PublishProperties", &x.properties));
            }
            P::Puback(x) => {
                v.push(part("v5.Puback", x));
                v.push(part("PubackProperties", &x.properties));
            }
            P::Pubrec(x) => {
                v.push(part("v5.Pubrec", x));
                v.push(part("PubrecProperties", &x.properties));
            }
            P::Pubrel(x) => {
                v.push(part("v5.Pubrel", x));
                v.push(part("PubrelProperties", &x.properties));
            }
            P::Pubcomp(x) => {
                v.push(part("v5.Pubcomp", x));
                v.push(part("PubcompProperties", &x.properties));
            }
            P::Subscribe(x) => {
                v.push(part("v5.Subscribe", x));
                v.push(part("SubscribeProperties", &x.properties));
            }
            P::Suback(x) => {
                v.push(part("v5.Suback", x));
                v.push(part("SubackProperties", &x.properties));
            }
            P::Unsubscribe(x) => {
                v.push(part("v5.Unsubscribe", x));
                v.push(part("UnsubscribeProperties", &x.properties));
            }
            P::Unsuback(x) => {
                v.push(part("v5.Unsuback", x));
                v.push(part("UnsubackProperties", &x.properties));
            }
            P::Disconnect(x) => {
                v.push(part("v5.Disconnect", x));
                v.push(part("DisconnectProperties", &x.properties));
            }
            P::Auth(x) => {
                v.push(part("v5.Auth", x));
                v.push(part("AuthProperties", &x.properties));
            }
            P::Pingreq | P::Pingresp => {}
        }
        v
    }
    fn oversize_props(n: usize, len: usize) -> Vec<Self::Packet> {
        let s = std::sync::Arc::new("u".repeat(len));
        let ups: Vec<v5::UserProperty> = (0..n).map(|_| v5::UserProperty { name: s.clone(), value: s.clone() }).collect();
        let mut out = Vec::new();
        for typ in 0..gen::V5_TYPES {
            let mut t = Tape::new(&[]);
            if let Ok(mut p) = gen::gen_v5_of_type(&mut t, &GenCfg::SMALL, typ) {
                if let Some(u) = gen::user_props_mut(&mut p) {
                    *u = ups.clone();
                    out.push(p);
                }
            }
        }
        // and inside the will
        let mut t = Tape::new(&[]);
        if let Ok(mut c) = gen::gen_v5_connect(&mut t, &GenCfg::SMALL) {
            let topic = std::convert::TryFrom::try_from("w".to_string()).expect("MQV-INTERNAL topic");
            let mut w = v5::LastWill::new(mqtt_proto::QoS::Level0, topic, bytes::Bytes::new());
            w.properties.user_properties = ups;
            c.last_will = Some(w);
            out.push(v5::Packet::Connect(c));
        }
        out
    }
}

// ---------------------------------------------------------------------------------------
// front-end adapters

/// async decoder on a plain slice: result and bytes consumed
pub fn dec_async<F: Family>(b: &[u8]) -> (Result<F::Packet, F::Error>, usize) {
    warm_thread(F::FAM);
    let mut r: &[u8] = b;
    let res = futures_lite::future::block_on(F::decode_async(&mut r));
    (res, b.len() - r.len())
}

/// the async decoder over a transport that delivers `k` bytes per read (k >= 1), with a Pending before every third read
pub fn dec_async_chunked<F: Family>(b: &[u8], k: usize) -> (Result<F::Packet, F::Error>, usize) {
    let n = b.len() / k.max(1) + 2;
    let steps: Vec<Step> = (0..n + n / 3 + 2).map(|i| if i % 4 == 3 { Step::Pending } else { Step::Chunk(k.max(1)) }).collect();
    let mut rd = ScriptedReader::new(b, &steps);
    let (res, _) = sio::drive(F::decode_async(&mut rd), b.len() + steps.len() + 16);
    (res, rd.pos)
}

/// the async decoder on a connection that stays open and idle behind the given bytes (a read issued once everything
/// was delivered never becomes ready): Err(description) if the decoder is still waiting after all bytes were delivered
pub fn dec_async_idle<F: Family>(b: &[u8]) -> Result<(Result<F::Packet, F::Error>, usize), String> {
    let mut rd = ScriptedReader::new(b, &[]);
    rd.idle_at_end = true;
    let out = sio::poll_n(F::decode_async(&mut rd), 3);
    match out {
        Some(res) => Ok((res, rd.pos)),
        None => Err(format!("still waiting after all {} bytes were delivered ({} reads issued on the idle connection)", b.len(), rd.idle_polls)),
    }
}

#[derive(Debug, Clone, PartialEq)]
pub struct PollOk<P> {
    pub total: usize,
    pub body: Vec<u8>,
    pub pkt: P,
}

pub fn body_bytes(v: Vec<MaybeUninit<u8>>) -> Vec<u8> {
    // reading the returned buffer as bytes is exactly what a caller does; under Miri this
    // read is what detects uninitialised memory being handed out
    v.into_iter().map(|b| unsafe { b.assume_init() }).collect()
}

pub struct PollRun<F: Family> {
    pub result: Result<PollOk<F::Packet>, F::Error>,
    /// transport position when the decoder finished
    pub pos: usize,
    pub log: Vec<ReadRec>,
    /// decoder returned Pending although the transport did not in that poll
    pub spurious_pending: bool,
    /// the decoder returned Pending in a poll in which the waker of the task was not woken (the transport wakes the
    /// waker it is given): nobody would poll this decode again
    pub lost_wakeup: bool,
    pub polls: usize,
    pub reads_at_end: usize,
    pub final_state_is_header: bool,
    /// transient transport failures (sio::Step::Fail) after which the caller polled again with the same state
    pub resumed_after_error: u32,
    /// a poll in which the transport reported a transient failure did not return that failure
    pub transient_not_surfaced: Option<String>,
    /// piece ends (sio::Step::End) after which the caller polled again with the same state
    pub resumed_after_end: u32,
    /// what the caller-held state holds when the decoder has finished, if it is a Body state:
    /// (bytes received so far, i.e. buf[..idx]; length of the buffer)
    pub final_body: Option<(Vec<u8>, usize)>,
}

/// Runs the poll decoder by hand over a scripted transport.
/// `drop_mask`: bit i set => after the i-th Pending the future is dropped and re-created
/// from the caller-held state (bits beyond 63 repeat).
pub fn dec_poll_scripted<F: Family>(
    data: &[u8],
    steps: &[Step],
    drop_mask: u64,
    fault: Option<(usize, io::ErrorKind)>,
    keep_log: bool,
) -> PollRun<F> {
    dec_poll_styled::<F>(data, steps, drop_mask, fault, keep_log, 0)
}

/// like `dec_poll_scripted` with an explicit ReadBuf fill style of the transport (see sio::ScriptedReader)
pub fn dec_poll_styled<F: Family>(
    data: &[u8],
    steps: &[Step],
    drop_mask: u64,
    fault: Option<(usize, io::ErrorKind)>,
    keep_log: bool,
    fill_style: u8,
) -> PollRun<F> {
    // bit 0: ReadBuf fill style; bit 1: when the future is re-created at a Pending, continue from a
    // clone of the caller-held state (the original is dropped); bit 2: the transport signals the end of
    // the stream with Err(UnexpectedEof) instead of an empty read; bits 4..7: payload shape of injected errors
    warm_thread(F::FAM);
    let clone_state = fill_style & 2 != 0;
    let eof_as_error = fill_style & 4 != 0;
    let fault_shape = fill_style >> 4;
    // bit 3: `fault` is a one-shot transient failure at that position instead of a persistent error
    let one_shot = fill_style & 8 != 0;
    // (fault = Some((usize::MAX, kind)) names the kind with which reads *after* the reported end of the stream fail)
    let fill_style = fill_style & 1;
    let mut reader = ScriptedReader::new(data, steps);
    reader.fill_style = fill_style;
    reader.eof_as_error = eof_as_error;
    reader.fault_shape = fault_shape;
    if matches!(fault, Some((usize::MAX, _))) {
        reader.after_eof = fault.map(|f| f.1);
    } else if one_shot {
        reader.fail_once_at = fault;
    } else {
        reader.fault = fault;
    }
    reader.keep_log = keep_log;
    let pend = reader.pendings.clone();
    let ends = reader.ends.clone();
    let mut seen_ends = 0u64;
    let mut resumed_after_end = 0u32;
    let transients = reader.transients.clone();
    let last_transient = reader.last_transient.clone();
    let mut seen_transients = 0u64;
    let mut resumed_after_error = 0u32;
    let mut transient_not_surfaced: Option<String> = None;
    let mut state: GenericPollPacketState<F::Header> = GenericPollPacketState::default();
    let (waker, wakes) = sio::counting_waker();
    let mut cx = Context::from_waker(&waker);
    let mut spurious = false;
    let mut lost_wakeup = false;
    let mut polls = 0usize;
    let mut npend = 0u32;
    let mut cloned_bytes = 0usize;
    let max_polls = data.len() + steps.len() + 32;
    let result = 'outer: loop {
        let mut fut = GenericPollPacket::new(&mut state, &mut reader);
        loop {
            polls += 1;
            if polls > max_polls {
                panic!("MQV-SPIN poll decoder polled {} times for {} bytes", polls, data.len());
            }
            let before = pend.get();
            let wakes_before = wakes.get();
            match std::pin::Pin::new(&mut fut).poll(&mut cx) {
                Poll::Ready(r) => {
                    // the current piece of the stream ended in this very poll (sio::Step::End): the decoder says "end of
                    // input"; the caller keeps the state and polls again now that the next piece is there
                    if ends.get() > seen_ends {
                        seen_ends = ends.get();
                        if matches!(&r, Err(e) if F::is_eof(e)) {
                            resumed_after_end += 1;
                            continue 'outer;
                        }
                        break 'outer r;
                    }
                    // a transient failure reported by the transport in this very poll (sio::Step::Fail): the
                    // decoder has to hand it on; the caller then polls again with the state it holds
                    if transients.get() > seen_transients {
                        seen_transients = transients.get();
                        let surfaced = match &r {
                            Err(e) => matches!(F::common(e), Some(mqtt_proto::Error::IoError(k, _)) if *k == last_transient.get()),
                            Ok(_) => false,
                        };
                        if !surfaced {
                            transient_not_surfaced = Some(format!("{:?} (the transport failed with {:?})", r.as_ref().map(|x| x.0), last_transient.get()));
                            break 'outer r;
                        }
                        resumed_after_error += 1;
                        continue 'outer;
                    }
                    break 'outer r;
                }
                Poll::Pending => {
                    if transients.get() > seen_transients {
                        seen_transients = transients.get();
                        transient_not_surfaced = Some("Pending".to_string());
                    }

                    if pend.get() == before {
                        spurious = true;
                    }
                    if wakes.get() == wakes_before {
                        // the transport woke the waker it was given; it was not the task's
                        lost_wakeup = true;
                    }
                    let bit = (drop_mask >> (npend % 64)) & 1;
                    npend += 1;
                    if bit == 1 {
                        drop(fut);
                        // rendering the parked state is ordinary use (a log line); for small buffers it is done here so
                        // that Miri / the sanitizers see it if that ever reads bytes the transport has not delivered
                        if let GenericPollPacketState::Body(b) = &state {
                            if b.buf.len() <= 48 {
                                std::hint::black_box(format!("{:?}", state).len());
                            }
                        }
                        if clone_state {
                            // a Body state owns a buffer as large as the declared remaining length (up to
                            // 256 MiB): the copies of one run are bounded so that a run stays cheap
                            let sz = match &state {
                                GenericPollPacketState::Body(b) => b.buf.len(),
                                _ => 0,
                            };
                            if cloned_bytes + sz <= (8 << 20) {
                                cloned_bytes += sz;
                                let copy = state.clone();
                                state = copy;
                            }
                        }
                        continue 'outer; // drops `fut`, re-creates it from state + reader
                    }
                }
            }
        }
    };
    let _ = &cx;
    let final_state_is_header = matches!(state, GenericPollPacketState::Header(_));
    let final_body = match &state {
        GenericPollPacketState::Body(b) if b.buf.len() <= (64 << 20) => {
            // only the first idx bytes have been written by the transport; nothing beyond them is read here
            let k = b.idx.min(b.buf.len());
            Some((b.buf[..k].iter().map(|x| unsafe { x.assume_init() }).collect::<Vec<u8>>(), b.buf.len()))
        }
        _ => None,
    };
    PollRun {
        result: result.map(|(total, buf, pkt)| PollOk { total, body: body_bytes(buf), pkt }),
        pos: reader.pos,
        log: std::mem::take(&mut reader.log),
        spurious_pending: spurious,
        lost_wakeup,
        polls,
        reads_at_end: reader.reads_at_end,
        final_state_is_header,
        resumed_after_error,
        resumed_after_end,
        transient_not_surfaced,
        final_body,
    }
}

/// The poll decoder started from a body state the *caller* built: it has read the fixed header itself
/// (`Header::decode`), holds the first `prefill` body bytes already, and hands the decoder
/// `GenericPollPacketState::Body { header, total, idx: prefill, buf: <remaining_len bytes> }` together with a reader that
/// stands behind what it holds. None when the string has no parsable header, no body, or a body above 4 MiB.
/// Returns the decoder's result and the reader position relative to the start of `data`.
pub fn dec_poll_from_built_body<F: Family>(data: &[u8], prefill: usize) -> Option<(Result<PollOk<F::Packet>, F::Error>, usize)> {
    let (hl, rl) = crate::refdec::frame_bounds(data).ok()?;
    if rl == 0 || rl > (4 << 20) {
        return None;
    }
    let header = F::header_decode(data).ok()?;
    // (at least one body byte is left for the decoder to read: a state whose body is already complete is not one the
    // machine itself ever hands back, and nothing is claimed about it)
    let pre = prefill.min(rl - 1).min(data.len() - hl);
    let mut buf: Vec<MaybeUninit<u8>> = Vec::with_capacity(rl);
    // (uninitialised on purpose, like the buffer the decoder makes for itself)
    unsafe { buf.set_len(rl) };
    for (d, s) in buf.iter_mut().zip(&data[hl..hl + pre]) {
        *d = MaybeUninit::new(*s);
    }
    let mut state: GenericPollPacketState<F::Header> = GenericPollPacketState::Body(mqtt_proto::GenericPollBodyState { header, total: hl + rl, idx: pre, buf });
    let mut rd = ScriptedReader::new(&data[hl + pre..], &[]);
    let (res, _) = sio::drive(GenericPollPacket::new(&mut state, &mut rd), 16);
    Some((res.map(|(total, buf, pkt)| PollOk { total, body: body_bytes(buf), pkt }), hl + pre + rd.pos))
}

thread_local! {
    static WARMED: std::cell::Cell<bool> = const { std::cell::Cell::new(false) };
}

/// Process-wide state that the two families might share (a `static` inside a generic function is one item for all
/// instantiations) is filled by whoever comes first. Before any check runs, every front-end of one family, then of the
/// other, is given the frames on which the families differ (v5 AUTH, DISCONNECT with and without a body, CONNECTs of the
/// three protocol levels, CONNACKs, body-less and bodied forms): the main process lets v3 come first, the child processes
/// of the release / unoptimised runs let v5 come first, so that both orders are exercised by one check run.
pub fn process_warm(v3_first: bool) {
    use futures_lite::future::block_on;
    let frames: [&[u8]; 12] = [
        &[0xF0, 0x00],
        &[0xF0, 0x02, 0x18, 0x00],
        &[0xE0, 0x00],
        &[0xE0, 0x01, 0x00],
        &[0xE0, 0x02, 0x00, 0x00],
        &[0x10, 0x0C, 0x00, 0x04, b'M', b'Q', b'T', b'T', 0x04, 0x02, 0x00, 0x00, 0x00, 0x00],
        &[0x10, 0x0D, 0x00, 0x04, b'M', b'Q', b'T', b'T', 0x05, 0x02, 0x00, 0x00, 0x00, 0x00, 0x00],
        &[0x10, 0x0E, 0x00, 0x06, b'M', b'Q', b'I', b's', b'd', b'p', 0x03, 0x02, 0x00, 0x00, 0x00, 0x00],
        &[0x20, 0x02, 0x00, 0x00],
        &[0x20, 0x03, 0x00, 0x00, 0x00],
        &[0x62, 0x02, 0x00, 0x01],
        &[0x62, 0x04, 0x00, 0x01, 0x00, 0x00],
    ];
    let run3 = || {
        for f in frames {
            let _ = v3::Packet::decode(f);
            let mut r: &[u8] = f;
            let _ = block_on(v3::Packet::decode_async(&mut r));
            let mut st: GenericPollPacketState<v3::Header> = Default::default();
            let mut r: &[u8] = f;
            let _ = block_on(GenericPollPacket::new(&mut st, &mut r));
            let _ = v3::Header::decode(f);
        }
    };
    let run5 = || {
        for f in frames {
            let _ = v5::Packet::decode(f);
            let mut r: &[u8] = f;
            let _ = block_on(v5::Packet::decode_async(&mut r));
            let mut st: GenericPollPacketState<v5::Header> = Default::default();
            let mut r: &[u8] = f;
            let _ = block_on(GenericPollPacket::new(&mut st, &mut r));
            let _ = v5::Header::decode(f);
        }
    };
    if v3_first {
        run3();
        run5();
    } else {
        run5();
        run3();
    }
}

/// A bridge or a broker serves both protocol families on one thread. On the worker threads with an odd shard number the
/// first decode of a family is therefore preceded by a decode of a small packet of the *other* family through every
/// front-end: whatever per-thread state the two families might share is then already filled by the other one.
pub fn warm_thread(fam: Fam) {
    if WARMED.with(|w| w.replace(true)) {
        return;
    }
    let slot = crate::run::SLOT.with(|s| s.get());
    if slot == usize::MAX || slot % 2 == 0 {
        return;
    }
    use futures_lite::future::block_on;
    let frames: [&[u8]; 3] = [&[0xC0, 0x00], &[0x40, 0x02, 0x00, 0x01], &[0x30, 0x04, 0x00, 0x01, b'a', 0x00]];
    for f in frames {
        if fam == Fam::V3 {
            let _ = v5::Packet::decode(f);
            let mut r: &[u8] = f;
            let _ = block_on(v5::Packet::decode_async(&mut r));
            let mut st: GenericPollPacketState<v5::Header> = Default::default();
            let mut r: &[u8] = f;
            let _ = block_on(GenericPollPacket::new(&mut st, &mut r));
        } else {
            let _ = v3::Packet::decode(f);
            let mut r: &[u8] = f;
            let _ = block_on(v3::Packet::decode_async(&mut r));
            let mut st: GenericPollPacketState<v3::Header> = Default::default();
            let mut r: &[u8] = f;
            let _ = block_on(GenericPollPacket::new(&mut st, &mut r));
        }
    }
}

/// one-shot poll decode of a byte string (everything ready in one read)
pub fn dec_poll<F: Family>(data: &[u8]) -> PollRun<F> {
    dec_poll_scripted::<F>(data, &[], 0, None, false)
}

pub fn type_index_v3(p: &v3::Packet) -> usize {
    use v3::Packet as P;
    match p {
        P::Connect(_) => 0,
        P::Connack(_) => 1,
        P::Publish(_) => 2,
        P::Puback(_) => 3,
        P::Pubrec(_) => 4,
        P::Pubrel(_) => 5,
        P::Pubcomp(_) => 6,
        P::Subscribe(_) => 7,
        P::Suback(_) => 8,
        P::Unsubscribe(_) => 9,
        P::Unsuback(_) => 10,
        P::Pingreq => 11,
        P::Pingresp => 12,
        P::Disconnect => 13,
    }
}

pub fn type_index_v5(p: &v5::Packet) -> usize {
    use v5::Packet as P;
    match p {
        P::Connect(_) => 0,
        P::Connack(_) => 1,
        P::Publish(_) => 2,
        P::Puback(_) => 3,
        P::Pubrec(_) => 4,
        P::Pubrel(_) => 5,
        P::Pubcomp(_) => 6,
        P::Subscribe(_) => 7,
        P::Suback(_) => 8,
        P::Unsubscribe(_) => 9,
        P::Unsuback(_) => 10,
        P::Pingreq => 11,
        P::Pingresp => 12,
        P::Disconnect(_) => 13,
        P::Auth(_) => 14,
    }
}

/// render a packet for samples/replays without flooding the output
pub fn render<T: Debug>(p: &T) -> String {
    let s = format!("{:?}", p);
    if s.len() > 360 {
        let mut cut = 360;
        while !s.is_char_boundary(cut) {
            cut -= 1;
        }
        format!("{}…(+{} chars)", &s[..cut], s.len() - cut)
    } else {
        s
    }
}
