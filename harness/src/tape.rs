//! Choice-sequence ("tape") source. Every generator in the harness draws from a `Tape`,
//! so the same generator is driven by proptest (which shrinks the tape), by libFuzzer
//! (bytes reinterpreted as a tape), by Miri (fixed tapes) and by replay files.
//! An exhausted tape yields 0, which every generator maps to its simplest alternative.

pub struct Tape<'a> {
    data: &'a [u16],
    pos: usize,
}

impl<'a> Tape<'a> {
    pub fn new(data: &'a [u16]) -> Self {
        Tape { data, pos: 0 }
    }
    pub fn used(&self) -> usize {
        self.pos
    }
    pub fn exhausted(&self) -> bool {
        self.pos >= self.data.len()
    }
    #[inline]
    pub fn next(&mut self) -> u16 {
        let v = self.data.get(self.pos).copied().unwrap_or(0);
        self.pos += 1;
        v
    }
    /// Monotone map of the next cell onto 0..n (never `%`, so shrinking is monotone).
    #[inline]
    pub fn pick(&mut self, n: usize) -> usize {
        if n <= 1 {
            // still consume a cell so that tapes stay aligned across alternatives
            self.next();
            return 0;
        }
        ((self.next() as usize) * n) >> 16
    }
    /// true with probability num/den; exhausted tape => false.
    #[inline]
    pub fn chance(&mut self, num: u32, den: u32) -> bool {
        let v = self.next() as u32;
        let thr = 65536 - (65536u64 * num as u64 / den as u64) as u32;
        v >= thr && num > 0
    }
    #[inline]
    pub fn flag(&mut self) -> bool {
        self.next() >= 0x8000
    }
    /// Weighted choice; index 0 is the simplest alternative.
    pub fn weighted(&mut self, weights: &[u32]) -> usize {
        let total: u64 = weights.iter().map(|w| *w as u64).sum();
        let v = (self.next() as u64 * total) >> 16;
        let mut acc = 0u64;
        for (i, w) in weights.iter().enumerate() {
            acc += *w as u64;
            if v < acc {
                return i;
            }
        }
        weights.len() - 1
    }
    pub fn u8(&mut self) -> u8 {
        (self.next() >> 8) as u8
    }
    pub fn u16(&mut self) -> u16 {
        self.next()
    }
    /// boundary-biased u16 (0, 1, 255, 256, 32767, 32768, 65534, 65535 with probability 1/3)
    pub fn u16b(&mut self) -> u16 {
        match self.pick(12) {
            0 => [0u16, 1, 255, 256][self.pick(4)],
            1 => [32_767u16, 32_768, 65_534, 65_535][self.pick(4)],
            2 => 0,
            3 => 65_535,
            _ => self.next(),
        }
    }
    /// boundary-biased u32
    pub fn u32b(&mut self) -> u32 {
        match self.pick(8) {
            0 => 0,
            1 => u32::MAX,
            2 => [1u32, 65_535, 65_536, 0x7FFF_FFFF, 0x8000_0000, 268_435_455, 268_435_456, u32::MAX - 1][self.pick(8)],
            _ => self.u32(),
        }
    }
    pub fn u32(&mut self) -> u32 {
        // small values stay likely: class choice first
        match self.pick(4) {
            0 => self.next() as u32 >> 8,
            1 => self.next() as u32,
            _ => ((self.next() as u32) << 16) | self.next() as u32,
        }
    }
    /// inclusive range, monotone
    pub fn range(&mut self, lo: usize, hi: usize) -> usize {
        lo + self.pick(hi - lo + 1)
    }
}

/// Reinterpret fuzz bytes as a tape (little endian pairs).
pub fn bytes_to_tape(b: &[u8]) -> Vec<u16> {
    b.chunks(2)
        .map(|c| if c.len() == 2 { u16::from_le_bytes([c[0], c[1]]) } else { (c[0] as u16) << 8 })
        .collect()
}
