//! Scripted transports: an `AsyncRead` that delivers a byte string according to a schedule
//! (chunk sizes, Pending, injected error, EOF) and logs every request, and the dual writer.
//! Both are call-bounded so that a spinning codec becomes a deterministic failure.

use std::cell::Cell;
use std::io;
use std::pin::Pin;
use std::rc::Rc;
use std::task::{Context, Poll};
use tokio::io::{AsyncRead, AsyncWrite, ReadBuf};

/// Number of payload shapes `make_err` knows.
pub const ERR_SHAPES: u8 = 10;

#[derive(Debug)]
struct ChainedCause(io::Error);
impl std::fmt::Display for ChainedCause {
    fn fmt(&self, f: &mut std::fmt::Formatter<'_>) -> std::fmt::Result {
        write!(f, "transport adapter failure")
    }
}
impl std::error::Error for ChainedCause {
    fn source(&self) -> Option<&(dyn std::error::Error + 'static)> {
        Some(&self.0)
    }
}

/// The kind an error nested inside an injected error of kind `k` carries: chosen to be the most misleading one
/// (an EOF inside anything else, a connection reset inside an EOF).
pub fn inner_kind(k: io::ErrorKind) -> io::ErrorKind {
    if k == io::ErrorKind::UnexpectedEof {
        io::ErrorKind::ConnectionReset
    } else {
        io::ErrorKind::UnexpectedEof
    }
}

/// An `io::Error` of kind `kind` in one of the payload shapes real transports produce. Whatever the shape,
/// `kind()` of the result is `kind`: 0 message payload, 1 bare kind, 2 another io::Error of a different kind as
/// payload (TLS / WebSocket adapters wrap the socket error), 3 a custom error whose `source()` chain leads to an
/// io::Error of a different kind, 4 an OS error code where the kind has one, 5 `io::Error::other`-style boxed
/// std error (only for kind Other; otherwise as 0 with an empty message).
pub fn make_err(kind: io::ErrorKind, shape: u8) -> io::Error {
    use io::ErrorKind as K;
    let e = match shape % ERR_SHAPES {
        1 => io::Error::from(kind),
        2 => io::Error::new(kind, io::Error::new(inner_kind(kind), "inner")),
        3 => io::Error::new(kind, ChainedCause(io::Error::from(inner_kind(kind)))),
        4 => match kind {
            K::ConnectionReset => io::Error::from_raw_os_error(libc::ECONNRESET),
            K::BrokenPipe => io::Error::from_raw_os_error(libc::EPIPE),
            K::TimedOut => io::Error::from_raw_os_error(libc::ETIMEDOUT),
            K::PermissionDenied => io::Error::from_raw_os_error(libc::EACCES),
            K::ConnectionAborted => io::Error::from_raw_os_error(libc::ECONNABORTED),
            K::NotConnected => io::Error::from_raw_os_error(libc::ENOTCONN),
            K::ConnectionRefused => io::Error::from_raw_os_error(libc::ECONNREFUSED),
            K::AddrInUse => io::Error::from_raw_os_error(libc::EADDRINUSE),
            K::NotFound => io::Error::from_raw_os_error(libc::ENOENT),
            K::AlreadyExists => io::Error::from_raw_os_error(libc::EEXIST),
            K::InvalidInput => io::Error::from_raw_os_error(libc::EINVAL),
            K::OutOfMemory => io::Error::from_raw_os_error(libc::ENOMEM),
            _ => io::Error::new(kind, "injected"),
        },
        5 => {
            if kind == K::Other {
                io::Error::other(ChainedCause(io::Error::from(K::UnexpectedEof)))
            } else {
                io::Error::new(kind, "")
            }
        }
        // 6, 7: a layered transport (a tunnel or bridge that itself speaks MQTT) reports its failure with one of the
        // codec's own error values as payload; it is still a transport failure of kind `kind`
        6 => io::Error::new(kind, if kind == K::InvalidData { mqtt_proto::Error::ZeroPid } else { mqtt_proto::Error::InvalidHeader }),
        7 => io::Error::new(kind, mqtt_proto::v5::ErrorV5::Common(mqtt_proto::Error::InvalidRemainingLength)),
        // 8, 9: the text of the error looks like that of an operating-system error of *another* kind: a nested OS error
        // (an adapter that wraps the errno it got and assigns its own kind), and a message that quotes one
        8 => io::Error::new(kind, io::Error::from_raw_os_error(if kind == K::NotFound { libc::ECONNRESET } else { libc::ENOENT })),
        9 => io::Error::new(kind, if kind == K::PermissionDenied { "upstream said: Connection reset by peer (os error 104)" } else { "upstream said: Permission denied (os error 13)" }),
        _ => io::Error::new(kind, "injected"),
    };
    debug_assert_eq!(e.kind(), kind);
    e
}

#[derive(Clone, Copy, Debug, PartialEq, Eq)]
pub enum Step {
    Pending,
    Chunk(usize),
    /// the transport reports a transient failure of this kind without consuming anything; the bytes
    /// are still there for the next read (a retryable condition: Interrupted, WouldBlock, a read timeout)
    Fail(io::ErrorKind),
    /// the current piece of the stream is exhausted: this read fills nothing (what a slice reader does at its end)
    /// although more of the stream follows. A caller that feeds the decoder one received slice after another keeps the
    /// state and polls again with the next slice; here the same reader simply goes on.
    End,
}

#[derive(Clone, Copy, Debug, PartialEq, Eq)]
pub struct ReadRec {
    /// stream position when the call was made
    pub pos: usize,
    /// capacity offered by the caller (ReadBuf::remaining)
    pub cap: usize,
    /// bytes delivered; None = Pending, Some(0) at EOF; error => usize::MAX
    pub got: Option<usize>,
}

pub struct ScriptedReader<'a> {
    pub data: &'a [u8],
    pub pos: usize,
    steps: &'a [Step],
    step_idx: usize,
    /// error injected when the position reaches this offset
    pub fault: Option<(usize, io::ErrorKind)>,
    pub log: Vec<ReadRec>,
    pub keep_log: bool,
    pub calls: usize,
    max_calls: usize,
    pub pendings: Rc<Cell<u64>>,
    /// number of reads issued after the whole data was delivered
    pub reads_at_end: usize,
    /// how the transport fills the caller's ReadBuf: 0 = put_slice, 1 = initialize_unfilled() + advance()
    /// (the style of tokio's AsyncFd example, TLS wrappers and compat layers; it initialises the whole
    /// unfilled part of the buffer but only advances by what was received)
    pub fill_style: u8,
    /// payload shape of the injected error (see `make_err`)
    pub fault_shape: u8,
    /// the stream end is signalled by `Err(UnexpectedEof)` (as TLS wrappers do for a missing close_notify)
    /// instead of a read that fills nothing
    pub eof_as_error: bool,
    /// number of transient failures (Step::Fail) reported so far
    pub transients: Rc<Cell<u64>>,
    pub last_transient: Rc<Cell<io::ErrorKind>>,
    /// a transient failure (as Step::Fail) that fires once, at the first read issued at or after this stream position
    pub fail_once_at: Option<(usize, io::ErrorKind)>,
    /// number of artificial piece ends (Step::End) reported so far
    pub ends: Rc<Cell<u64>>,
    /// the end of the stream is reported once (an empty read); a read issued after that fails with this kind (a closed
    /// connection object answers NotConnected; nothing is promised about reads after EOF)
    pub after_eof: Option<io::ErrorKind>,
    /// every read that delivers bytes takes this long inside `poll_read` (a transport that decrypts, decompresses or
    /// copies from a slow device before it answers); taken from `SLOW_READ_US` when the reader is made
    pub delay_us: u32,
    /// the connection stays open and idle behind the data: a read issued after everything was delivered is not the
    /// end of the stream but never becomes ready (counted in `idle_polls`)
    pub idle_at_end: bool,
    pub idle_polls: usize,
    /// the transport is not ready once, at the first read issued at or after this stream position (reads before it do
    /// not cross it): a Pending at a *position* of the stream, however the caller sizes its reads
    pub pend_once_at: Option<usize>,
    /// the transport has nothing more from this stream position on, for as long as it is polled (the peer stalls): every
    /// read issued at or after it is not ready; reads before it do not cross it
    pub stall_at: Option<usize>,
}

thread_local! {
    /// microseconds every delivering read of the ScriptedReaders made on this thread spends inside `poll_read` (0 = none)
    pub static SLOW_READ_US: Cell<u32> = const { Cell::new(0) };
}

impl<'a> ScriptedReader<'a> {
    pub fn new(data: &'a [u8], steps: &'a [Step]) -> Self {
        ScriptedReader {
            data,
            pos: 0,
            steps,
            step_idx: 0,
            fault: None,
            log: Vec::new(),
            keep_log: false,
            calls: 0,
            max_calls: data.len() + steps.len() + 16,
            pendings: Rc::new(Cell::new(0)),
            reads_at_end: 0,
            fill_style: 0,
            fault_shape: 0,
            eof_as_error: false,
            transients: Rc::new(Cell::new(0)),
            last_transient: Rc::new(Cell::new(io::ErrorKind::Other)),
            fail_once_at: None,
            ends: Rc::new(Cell::new(0)),
            after_eof: None,
            delay_us: SLOW_READ_US.with(|c| c.get()),
            idle_at_end: false,
            idle_polls: 0,
            pend_once_at: None,
            stall_at: None,
        }
    }
    pub fn with_fault(mut self, pos: usize, kind: io::ErrorKind) -> Self {
        self.fault = Some((pos, kind));
        self
    }
    pub fn with_fault_shape(mut self, shape: u8) -> Self {
        self.fault_shape = shape;
        self
    }
    pub fn logging(mut self) -> Self {
        self.keep_log = true;
        self
    }
}

impl<'a> AsyncRead for ScriptedReader<'a> {
    fn poll_read(self: Pin<&mut Self>, cx: &mut Context<'_>, buf: &mut ReadBuf<'_>) -> Poll<io::Result<()>> {
        let me = self.get_mut();
        me.calls += 1;
        if me.calls > me.max_calls {
            panic!("MQV-SPIN transport polled {} times for {} bytes", me.calls, me.data.len());
        }
        let cap = buf.remaining();
        let step = me.steps.get(me.step_idx).copied();
        me.step_idx += 1;
        if step == Some(Step::Pending) {
            me.pendings.set(me.pendings.get() + 1);
            if me.keep_log {
                me.log.push(ReadRec { pos: me.pos, cap, got: None });
            }
            cx.waker().wake_by_ref();
            return Poll::Pending;
        }
        if let Some(sp) = me.stall_at {
            if me.pos >= sp {
                me.step_idx -= 1;
                me.pendings.set(me.pendings.get() + 1);
                if me.keep_log {
                    me.log.push(ReadRec { pos: me.pos, cap, got: None });
                }
                cx.waker().wake_by_ref();
                return Poll::Pending;
            }
        }
        if let Some(pp) = me.pend_once_at {
            if me.pos >= pp {
                me.pend_once_at = None;
                me.step_idx -= 1; // the scripted step is kept for the next read
                me.pendings.set(me.pendings.get() + 1);
                if me.keep_log {
                    me.log.push(ReadRec { pos: me.pos, cap, got: None });
                }
                cx.waker().wake_by_ref();
                return Poll::Pending;
            }
        }
        let step = match me.fail_once_at {
            Some((fp, kind)) if me.pos >= fp && step != Some(Step::Pending) => {
                me.fail_once_at = None;
                me.step_idx -= 1; // the scripted step is kept for the next read
                Some(Step::Fail(kind))
            }
            _ => step,
        };
        if step == Some(Step::End) && me.pos < me.data.len() {
            me.ends.set(me.ends.get() + 1);
            if me.keep_log {
                me.log.push(ReadRec { pos: me.pos, cap, got: Some(0) });
            }
            return Poll::Ready(Ok(()));
        }
        if let Some(Step::Fail(kind)) = step {
            me.transients.set(me.transients.get() + 1);
            me.last_transient.set(kind);
            if me.keep_log {
                me.log.push(ReadRec { pos: me.pos, cap, got: Some(usize::MAX) });
            }
            return Poll::Ready(Err(make_err(kind, me.fault_shape)));
        }
        if let Some((fp, kind)) = me.fault {
            if me.pos >= fp {
                if me.keep_log {
                    me.log.push(ReadRec { pos: me.pos, cap, got: Some(usize::MAX) });
                }
                return Poll::Ready(Err(make_err(kind, me.fault_shape)));
            }
        }
        let mut n = me.data.len() - me.pos;
        if n == 0 && me.idle_at_end {
            // (also for a read with an empty buffer: a socket that has nothing to deliver is simply not ready)
            me.idle_polls += 1;
            return Poll::Pending;
        }
        if n == 0 {
            me.reads_at_end += 1;
            if let (Some(k), true) = (me.after_eof, me.reads_at_end > 1 && cap > 0) {
                return Poll::Ready(Err(io::Error::new(k, "read after the end of the stream was reported")));
            }
            if me.eof_as_error && cap > 0 {
                if me.keep_log {
                    me.log.push(ReadRec { pos: me.pos, cap, got: Some(usize::MAX) });
                }
                return Poll::Ready(Err(make_err(io::ErrorKind::UnexpectedEof, me.fault_shape)));
            }
        }
        if let Some(Step::Chunk(k)) = step {
            n = n.min(k.max(1));
        }
        n = n.min(cap);
        if let Some((fp, _)) = me.fault {
            n = n.min(fp - me.pos);
        }
        if let Some((fp, _)) = me.fail_once_at {
            if fp > me.pos {
                n = n.min(fp - me.pos);
            }
        }
        if let Some(pp) = me.pend_once_at {
            if pp > me.pos {
                n = n.min(pp - me.pos);
            }
        }
        if let Some(sp) = me.stall_at {
            if sp > me.pos {
                n = n.min(sp - me.pos);
            }
        }
        if me.delay_us > 0 && n > 0 {
            std::thread::sleep(std::time::Duration::from_micros(me.delay_us as u64));
        }
        if me.fill_style == 0 {
            buf.put_slice(&me.data[me.pos..me.pos + n]);
        } else {
            let dst = buf.initialize_unfilled();
            dst[..n].copy_from_slice(&me.data[me.pos..me.pos + n]);
            buf.advance(n);
        }
        if me.keep_log {
            me.log.push(ReadRec { pos: me.pos, cap, got: Some(n) });
        }
        me.pos += n;
        Poll::Ready(Ok(()))
    }
}

#[derive(Clone, Copy, Debug, PartialEq, Eq)]
pub enum WStep {
    Pending,
    Accept(usize),
    Zero,
    /// the call is interrupted (ErrorKind::Interrupted) before anything was written; by the contract of
    /// std::io::Write::write_all the writer tries again
    Interrupt,
}

pub struct ScriptedWriter<'a> {
    pub out: Vec<u8>,
    steps: &'a [WStep],
    step_idx: usize,
    pub fault: Option<(usize, io::ErrorKind)>,
    /// position from which every write returns Ok(0)
    pub zero_at: Option<usize>,
    /// with `fault` / `zero_at`: the sink fails only once at that position and accepts writes again afterwards (a
    /// transient condition: a signal, a full pipe that drains, a quota that is lifted)
    pub fault_is_transient: bool,
    /// number of times the sink was shut down (`AsyncWrite::poll_shutdown`); a sink that was shut down is closed:
    /// every later write fails with BrokenPipe, as on a socket
    pub shutdowns: usize,
    pub calls: usize,
    max_calls: usize,
    pub flushes: usize,
    /// accept one byte per call once the script is exhausted
    pub one_byte: bool,
    /// the sink implements vectored writes itself (a short vectored write may end inside any buffer)
    pub vectored: bool,
    pub vectored_calls: usize,
    /// payload shape of the injected error (see `make_err`)
    pub fault_shape: u8,
    /// every flush is not ready this many times before it completes (an async sink whose flush has to wait for the
    /// peer: TLS, a BufWriter over a slow socket); 0 = flush completes at once
    pub flush_pending: u8,
    flush_waits: u8,
    /// once a write has failed (fault or zero-length write), flush fails with this kind (a socket whose first failing
    /// call reports the reset and every later call a broken pipe; a buffering layer that writes inside flush)
    pub flush_fails_after_fault: Option<io::ErrorKind>,
    faulted: bool,
}

impl<'a> ScriptedWriter<'a> {
    pub fn new(steps: &'a [WStep], expected_len: usize) -> Self {
        ScriptedWriter {
            out: Vec::new(),
            steps,
            step_idx: 0,
            fault: None,
            zero_at: None,
            fault_is_transient: false,
            shutdowns: 0,
            calls: 0,
            max_calls: expected_len * 2 + steps.len() + 64,
            flushes: 0,
            one_byte: false,
            vectored: false,
            vectored_calls: 0,
            fault_shape: 0,
            flush_pending: 0,
            flush_waits: 0,
            flush_fails_after_fault: None,
            faulted: false,
        }
    }
    fn do_write_vectored(&mut self, bufs: &[io::IoSlice<'_>]) -> Result<Option<usize>, io::Error> {
        // same script as plain writes, but the accepted bytes may span several buffers
        let total: usize = bufs.iter().map(|b| b.len()).sum();
        let mut joined = Vec::with_capacity(total);
        for b in bufs {
            joined.extend_from_slice(b);
        }
        self.vectored_calls += 1;
        self.do_write(&joined)
    }
    fn do_write(&mut self, data: &[u8]) -> Result<Option<usize>, io::Error> {
        self.calls += 1;
        if self.calls > self.max_calls {
            panic!("MQV-SPIN sink written {} times", self.calls);
        }
        if self.shutdowns > 0 {
            return Err(io::Error::new(io::ErrorKind::BrokenPipe, "write after the sink was shut down"));
        }
        let step = self.steps.get(self.step_idx).copied();
        self.step_idx += 1;
        if step == Some(WStep::Pending) {
            return Ok(None);
        }
        if step == Some(WStep::Interrupt) {
            return Err(io::Error::from(io::ErrorKind::Interrupted));
        }
        if let Some((fp, kind)) = self.fault {
            if self.out.len() >= fp {
                self.faulted = true;
                if self.fault_is_transient {
                    self.fault = None;
                }
                return Err(make_err(kind, self.fault_shape));
            }
        }
        if let Some(z) = self.zero_at {
            if self.out.len() >= z {
                self.faulted = true;
                if self.fault_is_transient {
                    self.zero_at = None;
                }
                return Ok(Some(0));
            }
        }
        if step == Some(WStep::Zero) {
            return Ok(Some(0));
        }
        let mut n = data.len();
        if let Some(WStep::Accept(k)) = step {
            n = n.min(k.max(1));
        } else if self.one_byte {
            n = n.min(1);
        }
        if let Some((fp, _)) = self.fault {
            n = n.min(fp - self.out.len());
        }
        if let Some(z) = self.zero_at {
            n = n.min(z - self.out.len());
        }
        self.out.extend_from_slice(&data[..n]);
        Ok(Some(n))
    }
}

impl<'a> AsyncWrite for ScriptedWriter<'a> {
    fn poll_write(self: Pin<&mut Self>, cx: &mut Context<'_>, buf: &[u8]) -> Poll<io::Result<usize>> {
        match self.get_mut().do_write(buf) {
            Ok(None) => {
                cx.waker().wake_by_ref();
                Poll::Pending
            }
            Ok(Some(n)) => Poll::Ready(Ok(n)),
            Err(e) => Poll::Ready(Err(e)),
        }
    }
    fn poll_write_vectored(self: Pin<&mut Self>, cx: &mut Context<'_>, bufs: &[io::IoSlice<'_>]) -> Poll<io::Result<usize>> {
        let me = self.get_mut();
        let r = if me.vectored {
            me.do_write_vectored(bufs)
        } else {
            let first = bufs.iter().find(|b| !b.is_empty()).map(|b| &**b).unwrap_or(&[]);
            me.do_write(first)
        };
        match r {
            Ok(None) => {
                cx.waker().wake_by_ref();
                Poll::Pending
            }
            Ok(Some(n)) => Poll::Ready(Ok(n)),
            Err(e) => Poll::Ready(Err(e)),
        }
    }
    fn is_write_vectored(&self) -> bool {
        self.vectored
    }
    fn poll_flush(self: Pin<&mut Self>, cx: &mut Context<'_>) -> Poll<io::Result<()>> {
        let me = self.get_mut();
        me.calls += 1;
        if me.calls > me.max_calls {
            panic!("MQV-SPIN sink flushed / written {} times", me.calls);
        }
        if me.faulted {
            if let Some(k) = me.flush_fails_after_fault {
                return Poll::Ready(Err(io::Error::new(k, "flush after a failed write")));
            }
        }
        if me.flush_waits < me.flush_pending {
            me.flush_waits += 1;
            cx.waker().wake_by_ref();
            return Poll::Pending;
        }
        me.flush_waits = 0;
        me.flushes += 1;
        Poll::Ready(Ok(()))
    }
    fn poll_shutdown(self: Pin<&mut Self>, _cx: &mut Context<'_>) -> Poll<io::Result<()>> {
        self.get_mut().shutdowns += 1;
        Poll::Ready(Ok(()))
    }
}

impl<'a> io::Write for ScriptedWriter<'a> {
    fn write(&mut self, buf: &[u8]) -> io::Result<usize> {
        loop {
            // a blocking sink has no Pending: skip those steps
            match self.do_write(buf)? {
                None => continue,
                Some(n) => return Ok(n),
            }
        }
    }
    fn write_vectored(&mut self, bufs: &[io::IoSlice<'_>]) -> io::Result<usize> {
        if !self.vectored {
            let first = bufs.iter().find(|b| !b.is_empty()).map(|b| &**b).unwrap_or(&[]);
            return io::Write::write(self, first);
        }
        loop {
            match self.do_write_vectored(bufs)? {
                None => continue,
                Some(n) => return Ok(n),
            }
        }
    }
    fn flush(&mut self) -> io::Result<()> {
        if self.faulted {
            if let Some(k) = self.flush_fails_after_fault {
                return Err(io::Error::new(k, "flush after a failed write"));
            }
        }
        self.flushes += 1;
        Ok(())
    }
}

pub fn noop_waker() -> std::task::Waker {
    use std::task::{RawWaker, RawWakerVTable, Waker};
    fn clone(_: *const ()) -> RawWaker {
        RawWaker::new(std::ptr::null(), &VTABLE)
    }
    fn noop(_: *const ()) {}
    static VTABLE: RawWakerVTable = RawWakerVTable::new(clone, noop, noop, noop);
    unsafe { Waker::from_raw(RawWaker::new(std::ptr::null(), &VTABLE)) }
}

/// A waker that counts how often it was woken: the task's waker of the hand-written drivers. Every scripted transport
/// wakes the waker it is given before it answers Pending, so a future that returns Pending without this count having
/// moved has not passed the task's waker down (or has swallowed the transport's answer): under a real executor nobody
/// would ever poll it again.
pub struct WakeCount(std::sync::atomic::AtomicUsize);
impl WakeCount {
    pub fn get(&self) -> usize {
        self.0.load(std::sync::atomic::Ordering::Relaxed)
    }
}
impl std::task::Wake for WakeCount {
    fn wake(self: std::sync::Arc<Self>) {
        self.0.fetch_add(1, std::sync::atomic::Ordering::Relaxed);
    }
    fn wake_by_ref(self: &std::sync::Arc<Self>) {
        self.0.fetch_add(1, std::sync::atomic::Ordering::Relaxed);
    }
}
pub fn counting_waker() -> (std::task::Waker, std::sync::Arc<WakeCount>) {
    let a = std::sync::Arc::new(WakeCount(std::sync::atomic::AtomicUsize::new(0)));
    (std::task::Waker::from(a.clone()), a)
}

/// Polls a future to completion by hand (the scripted transports wake immediately, so a
/// Pending simply means "poll again"). Returns the output and the number of Pending results.
pub fn drive<F: std::future::Future>(fut: F, max_polls: usize) -> (F::Output, usize) {
    let (waker, wakes) = counting_waker();
    let mut cx = Context::from_waker(&waker);
    let mut fut = std::pin::pin!(fut);
    let mut pendings = 0;
    loop {
        let before = wakes.get();
        match fut.as_mut().poll(&mut cx) {
            Poll::Ready(v) => return (v, pendings),
            Poll::Pending => {
                if wakes.get() == before {
                    panic!("MQV-SPIN (lost wake-up) the future returned Pending in a poll in which the waker of the task was not woken, although the transport wakes whoever polls it before it answers Pending: under an executor this operation never completes");
                }
                pendings += 1;
                if pendings > max_polls {
                    panic!("MQV-SPIN future returned Pending {} times", pendings);
                }
            }
        }
    }
}

/// Polls a future at most `n` times; `Some(output)` if it completed, `None` if it is still pending
/// (the future is dropped on return, i.e. abandoned).
pub fn poll_n<F: std::future::Future>(fut: F, n: usize) -> Option<F::Output> {
    let waker = noop_waker();
    let mut cx = Context::from_waker(&waker);
    let mut fut = std::pin::pin!(fut);
    for _ in 0..n {
        if let Poll::Ready(v) = fut.as_mut().poll(&mut cx) {
            return Some(v);
        }
    }
    None
}
