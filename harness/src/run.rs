//! Drivers: sharded proptest runner over tapes, parallel enumerators, regression replay,
//! panic/abort capture, evidence and replay files. A run is a pure function of
//! (tree, VERIF_SEED, tier): 16 fixed shards, each with a seed derived from the run seed.

use crate::json::J;
use crate::model::{hex, unhex};
use proptest::test_runner::{Config, RngAlgorithm, TestCaseError, TestError, TestRng, TestRunner};
use std::cell::{Cell, RefCell};
use std::collections::{BTreeMap, HashMap, HashSet};
use std::panic::{catch_unwind, AssertUnwindSafe};
use std::path::PathBuf;
use std::sync::atomic::{AtomicBool, AtomicUsize, Ordering};
use std::sync::Mutex;
use std::time::Instant;

pub const SHARDS: usize = 16;

#[derive(Clone, Copy, Debug, PartialEq, Eq)]
pub enum Tier {
    Quick,
    Thorough,
}

impl Tier {
    pub fn name(self) -> &'static str {
        match self {
            Tier::Quick => "quick",
            Tier::Thorough => "thorough",
        }
    }
    /// pick by tier
    pub fn sel<T>(self, q: T, t: T) -> T {
        match self {
            Tier::Quick => q,
            Tier::Thorough => t,
        }
    }
}

#[derive(Clone, Debug, PartialEq, Eq)]
pub enum Input {
    Tape(Vec<u16>),
    Bytes(Vec<u8>),
    Nums(Vec<u64>),
    Text(Vec<u8>),
}

impl Input {
    pub fn to_json(&self) -> J {
        match self {
            Input::Tape(t) => J::obj(vec![("kind", J::s("tape")), ("data", J::Arr(t.iter().map(|x| J::Int(*x as i64)).collect()))]),
            Input::Bytes(b) => J::obj(vec![("kind", J::s("bytes")), ("hex", J::s(hex(b)))]),
            Input::Nums(n) => J::obj(vec![("kind", J::s("nums")), ("data", J::Arr(n.iter().map(|x| J::Int(*x as i64)).collect()))]),
            Input::Text(b) => J::obj(vec![("kind", J::s("text")), ("hex", J::s(hex(b))), ("lossy", J::s(String::from_utf8_lossy(b).chars().take(200).collect::<String>()))]),
        }
    }
    pub fn from_json(j: &J) -> Option<Input> {
        let kind = j.get("kind")?.as_str()?;
        match kind {
            "tape" => Some(Input::Tape(j.get("data")?.as_arr()?.iter().filter_map(|x| x.as_i64()).map(|x| x as u16).collect())),
            "bytes" => Some(Input::Bytes(unhex(j.get("hex")?.as_str()?)?)),
            "nums" => Some(Input::Nums(j.get("data")?.as_arr()?.iter().filter_map(|x| x.as_i64()).map(|x| x as u64).collect())),
            "text" => Some(Input::Text(unhex(j.get("hex")?.as_str()?)?)),
            _ => None,
        }
    }
    pub fn tape(&self) -> &[u16] {
        match self {
            Input::Tape(t) => t,
            _ => &[],
        }
    }
    pub fn bytes(&self) -> &[u8] {
        match self {
            Input::Bytes(b) | Input::Text(b) => b,
            _ => &[],
        }
    }
    pub fn nums(&self) -> &[u64] {
        match self {
            Input::Nums(n) => n,
            _ => &[],
        }
    }
}

#[derive(Clone, Debug)]
pub struct Violation {
    pub msg: String,
}

impl Violation {
    pub fn new(msg: impl Into<String>) -> Violation {
        Violation { msg: msg.into() }
    }
}

#[macro_export]
macro_rules! viol {
    ($($arg:tt)*) => { return Err($crate::run::Violation::new(format!($($arg)*))) };
}

#[macro_export]
macro_rules! ensure {
    ($cond:expr, $($arg:tt)*) => { if !($cond) { return Err($crate::run::Violation::new(format!($($arg)*))); } };
}

pub type CaseResult = Result<(), Violation>;
pub type CaseFn = fn(&Input, &mut Ctx) -> CaseResult;

#[derive(Clone, Copy)]
pub struct Sub {
    pub name: &'static str,
    pub f: CaseFn,
}

/// Per-shard statistics handed to every case.
pub struct Ctx {
    pub frozen: bool,
    pub thorough: bool,
    pub evals: u64,
    pub labels: HashMap<String, u64>,
    pub distinct: HashSet<u64>,
    pub samples: Vec<String>,
    pub want_samples: usize,
    pub known: BTreeMap<String, u64>,
    /// order-independent digest of what the case produced (profile comparison)
    pub digest: u64,
    pub excluded: u64,
    pub prop: &'static str,
    /// non-trivial cases that are distinct by construction (enumerations), counted not hashed
    pub distinct_counted: u64,
    /// a more precise reproduction of the failure than the case input (sub-check name, input)
    pub refine: Option<(&'static str, Input)>,
}

impl Ctx {
    pub fn new(prop: &'static str, thorough: bool) -> Ctx {
        Ctx {
            frozen: false,
            thorough,
            evals: 0,
            labels: HashMap::new(),
            distinct: HashSet::new(),
            samples: Vec::new(),
            want_samples: 2,
            known: BTreeMap::new(),
            digest: 0,
            excluded: 0,
            prop,
            distinct_counted: 0,
            refine: None,
        }
    }
    /// count `n` further evaluations done inside one case (block enumerations)
    pub fn more_evals(&mut self, n: u64) {
        if !self.frozen {
            self.evals += n;
        }
    }
    pub fn count_distinct(&mut self, n: u64) {
        if !self.frozen {
            self.distinct_counted += n;
        }
    }
    #[inline]
    pub fn label(&mut self, l: &str) {
        if self.frozen {
            return;
        }
        if let Some(c) = self.labels.get_mut(l) {
            *c += 1;
        } else {
            self.labels.insert(l.to_string(), 1);
        }
    }
    pub fn label_n(&mut self, l: &str, n: u64) {
        if self.frozen || n == 0 {
            return;
        }
        *self.labels.entry(l.to_string()).or_insert(0) += n;
    }
    /// register a non-trivial case by its hash; returns true if it is new
    #[inline]
    pub fn nontrivial(&mut self, h: u64) -> bool {
        if self.frozen {
            return false;
        }
        self.distinct.insert(h)
    }
    pub fn wants_sample(&self) -> bool {
        !self.frozen && self.samples.len() < self.want_samples
    }
    pub fn sample(&mut self, f: impl FnOnce() -> String) {
        if self.wants_sample() {
            let s = f();
            self.samples.push(s);
        }
    }
    pub fn add_digest(&mut self, h: u64) {
        if !self.frozen {
            self.digest = self.digest.wrapping_add(h.wrapping_mul(0x9E3779B97F4A7C15) | 1);
        }
    }
    /// A failure matching a listed known finding is counted and tolerated; otherwise it is a violation.
    pub fn known_finding(&mut self, sig: &str, what: &str) -> CaseResult {
        let p = self.prop;
        self.known_finding_as(p, sig, what)
    }
    /// same, for an oracle that runs on behalf of a fixed property (shared fuzz targets)
    pub fn known_finding_as(&mut self, prop: &str, sig: &str, what: &str) -> CaseResult {
        if crate::kf::listed(prop, sig) {
            if !self.frozen {
                *self.known.entry(format!("property={} sig={} {}", prop, sig, crate::kf::describe(prop, sig))).or_insert(0) += 1;
            }
            let _ = what;
            Ok(())
        } else {
            Err(Violation::new(format!("{} (signature {} is not a listed known finding)", what, sig)))
        }
    }
    fn merge(&mut self, o: Ctx) {
        self.evals += o.evals;
        for (k, v) in o.labels {
            *self.labels.entry(k).or_insert(0) += v;
        }
        self.distinct.extend(o.distinct);
        for s in o.samples {
            if self.samples.len() < 6 {
                self.samples.push(s);
            }
        }
        for (k, v) in o.known {
            *self.known.entry(k).or_insert(0) += v;
        }
        self.digest = self.digest.wrapping_add(o.digest);
        self.excluded += o.excluded;
        self.distinct_counted += o.distinct_counted;
    }
}

// ---------------------------------------------------------------------------------------
// panic capture

thread_local! {
    static LAST_PANIC: RefCell<Option<(String, String)>> = const { RefCell::new(None) };
    pub static SLOT: Cell<usize> = const { Cell::new(usize::MAX) };
}

pub fn install_panic_hook() {
    std::panic::set_hook(Box::new(|info| {
        let loc = info.location().map(|l| format!("{}:{}", l.file(), l.line())).unwrap_or_default();
        let msg = if let Some(s) = info.payload().downcast_ref::<&str>() {
            s.to_string()
        } else if let Some(s) = info.payload().downcast_ref::<String>() {
            s.clone()
        } else {
            "<non-string panic>".to_string()
        };
        LAST_PANIC.with(|p| *p.borrow_mut() = Some((loc, msg)));
    }));
}

pub struct Panicked {
    pub loc: String,
    pub msg: String,
}

impl Panicked {
    /// a panic raised by the harness itself (not by the library, not the spin guard)
    pub fn internal(&self) -> bool {
        (self.loc.starts_with("src/") || self.loc.contains("verif/harness")) && !self.msg.starts_with("MQV-SPIN")
    }
}

pub fn guard<T>(f: impl FnOnce() -> T) -> Result<T, Panicked> {
    match catch_unwind(AssertUnwindSafe(f)) {
        Ok(v) => Ok(v),
        Err(_) => {
            let (loc, msg) = LAST_PANIC.with(|p| p.borrow_mut().take()).unwrap_or_default();
            Err(Panicked { loc, msg })
        }
    }
}

static INTERNAL_ERROR: Mutex<Option<String>> = Mutex::new(None);

fn run_case(sub: &Sub, input: &Input, ctx: &mut Ctx) -> CaseResult {
    if !ctx.frozen {
        ctx.evals += 1;
    }
    match guard(|| (sub.f)(input, ctx)) {
        Ok(Err(v)) if v.msg.contains("MQV-INTERNAL") => {
            // the harness caught itself in an inconsistency (a generator slip, a model that cannot be built):
            // broken machinery, exit 2 - never a violation of the property
            let mut g = INTERNAL_ERROR.lock().unwrap();
            if g.is_none() {
                *g = Some(format!("{} (sub {}, input {})", v.msg, sub.name, input.to_json().render()));
            }
            STOP.store(true, Ordering::SeqCst);
            Ok(())
        }
        Ok(r) => r,
        Err(p) => {
            if p.internal() {
                let mut g = INTERNAL_ERROR.lock().unwrap();
                if g.is_none() {
                    *g = Some(format!("harness panic at {}: {} (sub {}, input {})", p.loc, p.msg, sub.name, input.to_json().render()));
                }
                STOP.store(true, Ordering::SeqCst);
                Ok(())
            } else {
                Err(Violation::new(format!("panic at {}: {}", p.loc, p.msg)))
            }
        }
    }
}

static STOP: AtomicBool = AtomicBool::new(false);

// ---------------------------------------------------------------------------------------
// abort capture: the case about to run is parked in a per-thread static slot; a SIGABRT /
// SIGSEGV / SIGBUS handler dumps it as a replay file and exits 1 with a VIOLATION line.

const SLOT_SIZE: usize = 1 << 17;
struct SlotBuf(std::cell::UnsafeCell<[u8; SLOT_SIZE]>);
unsafe impl Sync for SlotBuf {}
static SLOT_BUFS: [SlotBuf; SHARDS] = [const { SlotBuf(std::cell::UnsafeCell::new([0u8; SLOT_SIZE])) }; SHARDS];
static SLOT_LENS: [AtomicUsize; SHARDS] = [const { AtomicUsize::new(0) }; SHARDS];
static ABORT_PATHS: Mutex<Vec<(std::ffi::CString, Vec<u8>)>> = Mutex::new(Vec::new());
static ABORT_READY: AtomicBool = AtomicBool::new(false);
static mut ABORT_TABLE: *const Vec<(std::ffi::CString, Vec<u8>)> = std::ptr::null();

extern "C" fn on_fatal(_sig: libc::c_int) {
    unsafe {
        let slot = SLOT.with(|s| s.get());
        if ABORT_READY.load(Ordering::SeqCst) && slot < SHARDS && !ABORT_TABLE.is_null() {
            let len = SLOT_LENS[slot].load(Ordering::SeqCst);
            let (path, line) = &(&(*ABORT_TABLE))[slot];
            if len > 0 {
                let fd = libc::open(path.as_ptr(), libc::O_WRONLY | libc::O_CREAT | libc::O_TRUNC, 0o644);
                if fd >= 0 {
                    let p = (*SLOT_BUFS[slot].0.get()).as_ptr();
                    libc::write(fd, p as *const libc::c_void, len);
                    libc::close(fd);
                }
                libc::write(1, line.as_ptr() as *const libc::c_void, line.len());
            }
        }
        libc::_exit(1);
    }
}

pub fn install_abort_capture(prop: &str, replay_dir: &std::path::Path) {
    let _ = std::fs::create_dir_all(replay_dir);
    let mut v = Vec::new();
    for i in 0..SHARDS {
        let p = replay_dir.join(format!("abort-{}-{}.json", std::process::id(), i));
        let line = format!("VIOLATION property={} replay={}\n", prop, p.display());
        v.push((std::ffi::CString::new(p.to_string_lossy().as_bytes()).unwrap(), line.into_bytes()));
    }
    let mut g = ABORT_PATHS.lock().unwrap();
    *g = v;
    unsafe {
        ABORT_TABLE = &*g as *const _;
        ABORT_READY.store(true, Ordering::SeqCst);
        // SA_ONSTACK: a stack overflow raises SIGSEGV on a stack that has no room left for a handler; the threads std
        // spawns carry an alternate signal stack, on which the handler then runs
        for sig in [libc::SIGABRT, libc::SIGSEGV, libc::SIGBUS] {
            let mut sa: libc::sigaction = std::mem::zeroed();
            sa.sa_sigaction = on_fatal as *const () as usize;
            sa.sa_flags = libc::SA_ONSTACK;
            libc::sigemptyset(&mut sa.sa_mask);
            libc::sigaction(sig, &sa, std::ptr::null_mut());
        }
    }
}

fn park_case(prop: &str, sub: &str, input: &Input, profile: &str) {
    let slot = SLOT.with(|s| s.get());
    if slot >= SHARDS {
        return;
    }
    let text = replay_json(prop, sub, input, "process aborted (allocation failure, stack overflow or memory fault) while this case was running", profile, 0, "").render();
    let b = text.as_bytes();
    let n = b.len().min(SLOT_SIZE);
    SLOT_LENS[slot].store(0, Ordering::SeqCst);
    unsafe {
        let dst = (*SLOT_BUFS[slot].0.get()).as_mut_ptr();
        std::ptr::copy_nonoverlapping(b.as_ptr(), dst, n);
    }
    SLOT_LENS[slot].store(if b.len() <= SLOT_SIZE { n } else { 0 }, Ordering::SeqCst);
}

fn unpark() {
    let slot = SLOT.with(|s| s.get());
    if slot < SHARDS {
        SLOT_LENS[slot].store(0, Ordering::SeqCst);
    }
}

// ---------------------------------------------------------------------------------------

pub fn replay_json(prop: &str, sub: &str, input: &Input, msg: &str, profile: &str, seed: u64, tier: &str) -> J {
    J::obj(vec![
        ("property", J::s(prop)),
        ("sub", J::s(sub)),
        ("profile", J::s(profile)),
        ("seed", J::Int(seed as i64)),
        ("tier", J::s(tier)),
        ("message", J::s(msg)),
        ("input", input.to_json()),
    ])
}

pub struct SubReport {
    pub name: String,
    pub evals: u64,
    pub distinct: u64,
    pub labels: BTreeMap<String, u64>,
    pub samples: Vec<String>,
    pub known: BTreeMap<String, u64>,
    pub digest: u64,
    pub excluded: u64,
    pub exhaustive: Option<bool>,
    pub wall_s: f64,
}

pub struct Failure {
    pub sub: String,
    pub input: Input,
    pub msg: String,
}

pub struct Env {
    pub prop: &'static str,
    pub tier: Tier,
    pub seed: u64,
    pub root: PathBuf,
    pub profile: &'static str,
    /// park every case for abort capture (only for checks that feed arbitrary bytes)
    pub park: bool,
    /// run only the sub-checks named here (the unoptimised-library child run); empty = all
    pub only: Vec<String>,
    /// shrink attempts proptest may spend on a failing tape (lowered for sub-checks whose failing cases are slow)
    pub shrink_iters: u32,
    pub subs: Vec<SubReport>,
    pub failure: Option<Failure>,
    pub notes: Vec<String>,
    pub required: Vec<(String, String)>,
}

pub struct Stop;
pub type RunResult = Result<(), Stop>;

fn shard_seed(seed: u64, sub: &str, shard: usize) -> [u8; 32] {
    let mut s = [0u8; 32];
    let h = crate::model::fnv(sub.as_bytes());
    s[..8].copy_from_slice(&seed.to_le_bytes());
    s[8..16].copy_from_slice(&h.to_le_bytes());
    s[16..24].copy_from_slice(&(shard as u64).to_le_bytes());
    s[24..32].copy_from_slice(&0x6d71_7631_7365_6564u64.to_le_bytes());
    s
}

impl Env {
    pub fn new(prop: &'static str, tier: Tier, seed: u64, root: PathBuf, profile: &'static str) -> Env {
        Env { prop, tier, seed, root, profile, park: false, only: Vec::new(), shrink_iters: 4096, subs: Vec::new(), failure: None, notes: Vec::new(), required: Vec::new() }
    }

    pub fn thorough(&self) -> bool {
        self.tier == Tier::Thorough
    }

    /// declare that a label of a sub must have been hit (otherwise: broken machinery, exit 2)
    pub fn require(&mut self, sub: &str, label: &str) {
        self.required.push((sub.to_string(), label.to_string()));
    }

    fn finish(&mut self, sub: &Sub, mut total: Ctx, fail: Option<(&'static str, Input, String)>, t0: Instant, exhaustive: Option<bool>) -> RunResult {
        let rep = SubReport {
            name: sub.name.to_string(),
            evals: total.evals,
            distinct: total.distinct.len() as u64 + total.distinct_counted,
            labels: std::mem::take(&mut total.labels).into_iter().collect(),
            samples: std::mem::take(&mut total.samples),
            known: std::mem::take(&mut total.known),
            digest: total.digest,
            excluded: total.excluded,
            exhaustive,
            wall_s: t0.elapsed().as_secs_f64(),
        };
        self.subs.push(rep);
        if let Some(e) = INTERNAL_ERROR.lock().unwrap().clone() {
            eprintln!("INTERNAL-ERROR {}", e);
            std::process::exit(2);
        }
        if let Some((sn, input, msg)) = fail {
            self.failure = Some(Failure { sub: sn.to_string(), input, msg });
            return Err(Stop);
        }
        Ok(())
    }

    /// proptest-driven run over random tapes: `cases` per shard, tapes of at most `max_len` cells.
    pub fn run_tapes(&mut self, sub: Sub, cases: u32, max_len: usize) -> RunResult {
        if !self.only.is_empty() && !self.only.iter().any(|n| n == sub.name) {
            return Ok(());
        }
        let t0 = Instant::now();
        let prop = self.prop;
        let thorough = self.thorough();
        let seed = self.seed;
        let park = self.park;
        let profile = self.profile;
        let shrink_iters = self.shrink_iters;
        let results: Vec<(Ctx, Option<(&'static str, Input, String)>)> = std::thread::scope(|sc| {
            let hs: Vec<_> = (0..SHARDS)
                .map(|shard| {
                    sc.spawn(move || {
                        SLOT.with(|s| s.set(shard));
                        let ctx = RefCell::new(Ctx::new(prop, thorough));
                        let failed = Cell::new(false);
                        let last_msg = RefCell::new(String::new());
                        let cfg = Config {
                            cases,
                            failure_persistence: None,
                            max_shrink_iters: shrink_iters,
                            ..Config::default()
                        };
                        let rng = TestRng::from_seed(RngAlgorithm::ChaCha, &shard_seed(seed, sub.name, shard));
                        let mut runner = TestRunner::new_with_rng(cfg, rng);
                        let strat = proptest::collection::vec(proptest::num::u16::ANY, 0..=max_len);
                        let res = runner.run(&strat, |tape| {
                            if STOP.load(Ordering::Relaxed) && !failed.get() {
                                return Ok(());
                            }
                            let input = Input::Tape(tape);
                            let mut c = ctx.borrow_mut();
                            if failed.get() {
                                c.frozen = true;
                            }
                            if park {
                                park_case(prop, sub.name, &input, profile);
                            }
                            let r = run_case(&sub, &input, &mut c);
                            if park {
                                unpark();
                            }
                            match r {
                                Ok(()) => Ok(()),
                                Err(v) => {
                                    failed.set(true);
                                    c.frozen = true;
                                    *last_msg.borrow_mut() = v.msg.clone();
                                    Err(TestCaseError::fail(v.msg))
                                }
                            }
                        });
                        let fail = match res {
                            Ok(()) => None,
                            Err(TestError::Fail(reason, tape)) => {
                                STOP.store(true, Ordering::SeqCst);
                                Some((sub.name, Input::Tape(tape), reason.message().to_string()))
                            }
                            Err(TestError::Abort(r)) => Some((sub.name, Input::Tape(vec![]), format!("proptest aborted: {}", r.message()))),
                        };
                        let mut c = ctx.into_inner();
                        c.frozen = false;
                        (c, fail)
                    })
                })
                .collect();
            hs.into_iter().map(|h| h.join().expect("shard thread")).collect()
        });
        let mut total = Ctx::new(prop, thorough);
        let mut fail = None;
        for (c, f) in results {
            total.merge(c);
            if fail.is_none() {
                fail = f;
            }
        }
        self.finish(&sub, total, fail, t0, None)
    }

    /// parallel enumeration of indices 0..n; `mk` builds the input of an index.
    /// Shard s takes the indices congruent to s modulo SHARDS (so a prefix run is balanced).
    pub fn run_enum<M>(&mut self, sub: Sub, n: u64, exhaustive: bool, mk: M) -> RunResult
    where
        M: Fn(u64) -> Input + Sync,
    {
        if !self.only.is_empty() && !self.only.iter().any(|n| n == sub.name) {
            return Ok(());
        }
        let t0 = Instant::now();
        let prop = self.prop;
        let thorough = self.thorough();
        let park = self.park;
        let profile = self.profile;
        let mk = &mk;
        let results: Vec<(Ctx, Option<(u64, &'static str, Input, String)>)> = std::thread::scope(|sc| {
            let hs: Vec<_> = (0..SHARDS)
                .map(|shard| {
                    sc.spawn(move || {
                        SLOT.with(|s| s.set(shard));
                        let mut ctx = Ctx::new(prop, thorough);
                        let mut fail = None;
                        let mut i = shard as u64;
                        while i < n {
                            if STOP.load(Ordering::Relaxed) {
                                break;
                            }
                            let input = mk(i);
                            if park {
                                park_case(prop, sub.name, &input, profile);
                            }
                            let r = run_case(&sub, &input, &mut ctx);
                            if park {
                                unpark();
                            }
                            if let Err(v) = r {
                                STOP.store(true, Ordering::SeqCst);
                                let (sn, inp) = ctx.refine.take().unwrap_or((sub.name, input));
                                fail = Some((i, sn, inp, v.msg));
                                break;
                            }
                            ctx.refine = None;
                            i += SHARDS as u64;
                        }
                        (ctx, fail)
                    })
                })
                .collect();
            hs.into_iter().map(|h| h.join().expect("shard thread")).collect()
        });
        let mut total = Ctx::new(prop, thorough);
        let mut fail: Option<(u64, &'static str, Input, String)> = None;
        for (c, f) in results {
            total.merge(c);
            if let Some(f) = f {
                if fail.as_ref().map(|x| f.0 < x.0).unwrap_or(true) {
                    fail = Some(f);
                }
            }
        }
        let failed = fail.is_some();
        self.finish(&sub, total, fail.map(|(_, s, i, m)| (s, i, m)), t0, Some(exhaustive && !failed))
    }

    /// run a fixed list of inputs (regressions, seeds, hand-written vectors), sequentially
    pub fn run_inputs(&mut self, sub: Sub, inputs: &[Input]) -> RunResult {
        if !self.only.is_empty() && !self.only.iter().any(|n| n == sub.name) {
            return Ok(());
        }
        let t0 = Instant::now();
        let mut ctx = Ctx::new(self.prop, self.thorough());
        ctx.want_samples = 3;
        SLOT.with(|s| s.set(0));
        let mut fail = None;
        for input in inputs {
            if self.park {
                park_case(self.prop, sub.name, input, self.profile);
            }
            let r = run_case(&sub, input, &mut ctx);
            if self.park {
                unpark();
            }
            if let Err(v) = r {
                let (sn, inp) = ctx.refine.take().unwrap_or((sub.name, input.clone()));
                fail = Some((sn, inp, v.msg));
                break;
            }
            ctx.refine = None;
        }
        self.finish(&sub, ctx, fail, t0, None)
    }

    pub fn note(&mut self, s: impl Into<String>) {
        self.notes.push(s.into());
    }

    pub fn required_clear(&mut self) {
        self.required.clear();
    }

    pub fn missing_required(&self) -> Vec<String> {
        let mut miss = Vec::new();
        for (s, l) in &self.required {
            let hit = self.subs.iter().filter(|r| r.name == *s).any(|r| r.labels.get(l).copied().unwrap_or(0) > 0);
            if !hit {
                miss.push(format!("{}:{}", s, l));
            }
        }
        miss
    }
}

pub fn run_single(sub: &Sub, input: &Input, prop: &'static str) -> Result<Ctx, (Ctx, Violation)> {
    let mut ctx = Ctx::new(prop, true);
    ctx.want_samples = 1;
    match run_case(sub, input, &mut ctx) {
        Ok(()) => {
            if let Some(e) = INTERNAL_ERROR.lock().unwrap().clone() {
                eprintln!("INTERNAL-ERROR {}", e);
                std::process::exit(2);
            }
            Ok(ctx)
        }
        Err(v) => Err((ctx, v)),
    }
}
