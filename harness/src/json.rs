//! Minimal JSON value, writer and parser (no serde_json in the sealed sandbox).

#[derive(Clone, Debug, PartialEq)]
pub enum J {
    Null,
    Bool(bool),
    Int(i64),
    Num(f64),
    Str(String),
    Arr(Vec<J>),
    Obj(Vec<(String, J)>),
}

impl J {
    pub fn obj(v: Vec<(&str, J)>) -> J {
        J::Obj(v.into_iter().map(|(k, v)| (k.to_string(), v)).collect())
    }
    pub fn s(x: impl Into<String>) -> J {
        J::Str(x.into())
    }
    pub fn get(&self, k: &str) -> Option<&J> {
        match self {
            J::Obj(v) => v.iter().find(|(kk, _)| kk == k).map(|(_, v)| v),
            _ => None,
        }
    }
    pub fn as_str(&self) -> Option<&str> {
        match self {
            J::Str(s) => Some(s),
            _ => None,
        }
    }
    pub fn as_i64(&self) -> Option<i64> {
        match self {
            J::Int(i) => Some(*i),
            J::Num(f) => Some(*f as i64),
            _ => None,
        }
    }
    pub fn as_arr(&self) -> Option<&Vec<J>> {
        match self {
            J::Arr(a) => Some(a),
            _ => None,
        }
    }
    pub fn render(&self) -> String {
        let mut s = String::new();
        self.write(&mut s, 0);
        s.push('\n');
        s
    }
    fn write(&self, out: &mut String, ind: usize) {
        match self {
            J::Null => out.push_str("null"),
            J::Bool(b) => out.push_str(if *b { "true" } else { "false" }),
            J::Int(i) => out.push_str(&i.to_string()),
            J::Num(f) => {
                if f.is_finite() {
                    out.push_str(&format!("{:.3}", f));
                } else {
                    out.push_str("0");
                }
            }
            J::Str(s) => esc(s, out),
            J::Arr(a) => {
                let simple = a.iter().all(|x| matches!(x, J::Int(_) | J::Num(_) | J::Bool(_)));
                if a.is_empty() {
                    out.push_str("[]");
                } else if simple {
                    out.push('[');
                    for (i, x) in a.iter().enumerate() {
                        if i > 0 {
                            out.push(',');
                        }
                        x.write(out, ind);
                    }
                    out.push(']');
                } else {
                    out.push_str("[\n");
                    for (i, x) in a.iter().enumerate() {
                        pad(out, ind + 1);
                        x.write(out, ind + 1);
                        if i + 1 < a.len() {
                            out.push(',');
                        }
                        out.push('\n');
                    }
                    pad(out, ind);
                    out.push(']');
                }
            }
            J::Obj(o) => {
                if o.is_empty() {
                    out.push_str("{}");
                    return;
                }
                out.push_str("{\n");
                for (i, (k, v)) in o.iter().enumerate() {
                    pad(out, ind + 1);
                    esc(k, out);
                    out.push_str(": ");
                    v.write(out, ind + 1);
                    if i + 1 < o.len() {
                        out.push(',');
                    }
                    out.push('\n');
                }
                pad(out, ind);
                out.push('}');
            }
        }
    }
}

fn pad(out: &mut String, n: usize) {
    for _ in 0..n {
        out.push(' ');
    }
}

fn esc(s: &str, out: &mut String) {
    out.push('"');
    for c in s.chars() {
        match c {
            '"' => out.push_str("\\\""),
            '\\' => out.push_str("\\\\"),
            '\n' => out.push_str("\\n"),
            '\r' => out.push_str("\\r"),
            '\t' => out.push_str("\\t"),
            c if (c as u32) < 0x20 || c == '\u{7f}' => out.push_str(&format!("\\u{:04x}", c as u32)),
            c => out.push(c),
        }
    }
    out.push('"');
}

pub fn parse(s: &str) -> Option<J> {
    let b = s.as_bytes();
    let mut p = 0usize;
    let v = val(b, &mut p)?;
    ws(b, &mut p);
    if p == b.len() {
        Some(v)
    } else {
        None
    }
}

fn ws(b: &[u8], p: &mut usize) {
    while *p < b.len() && (b[*p] as char).is_ascii_whitespace() {
        *p += 1;
    }
}

fn val(b: &[u8], p: &mut usize) -> Option<J> {
    ws(b, p);
    match *b.get(*p)? {
        b'{' => {
            *p += 1;
            let mut o = Vec::new();
            ws(b, p);
            if b.get(*p) == Some(&b'}') {
                *p += 1;
                return Some(J::Obj(o));
            }
            loop {
                ws(b, p);
                let k = match val(b, p)? {
                    J::Str(s) => s,
                    _ => return None,
                };
                ws(b, p);
                if b.get(*p) != Some(&b':') {
                    return None;
                }
                *p += 1;
                let v = val(b, p)?;
                o.push((k, v));
                ws(b, p);
                match b.get(*p)? {
                    b',' => *p += 1,
                    b'}' => {
                        *p += 1;
                        return Some(J::Obj(o));
                    }
                    _ => return None,
                }
            }
        }
        b'[' => {
            *p += 1;
            let mut a = Vec::new();
            ws(b, p);
            if b.get(*p) == Some(&b']') {
                *p += 1;
                return Some(J::Arr(a));
            }
            loop {
                a.push(val(b, p)?);
                ws(b, p);
                match b.get(*p)? {
                    b',' => *p += 1,
                    b']' => {
                        *p += 1;
                        return Some(J::Arr(a));
                    }
                    _ => return None,
                }
            }
        }
        b'"' => {
            *p += 1;
            let mut s = String::new();
            loop {
                let c = *b.get(*p)?;
                *p += 1;
                match c {
                    b'"' => return Some(J::Str(s)),
                    b'\\' => {
                        let e = *b.get(*p)?;
                        *p += 1;
                        match e {
                            b'n' => s.push('\n'),
                            b'r' => s.push('\r'),
                            b't' => s.push('\t'),
                            b'u' => {
                                let h = std::str::from_utf8(b.get(*p..*p + 4)?).ok()?;
                                *p += 4;
                                s.push(char::from_u32(u32::from_str_radix(h, 16).ok()?)?);
                            }
                            x => s.push(x as char),
                        }
                    }
                    _ => {
                        // copy one UTF-8 scalar
                        let start = *p - 1;
                        let mut end = *p;
                        while end < b.len() && (b[end] & 0xC0) == 0x80 {
                            end += 1;
                        }
                        s.push_str(std::str::from_utf8(&b[start..end]).ok()?);
                        *p = end;
                    }
                }
            }
        }
        b't' if b[*p..].starts_with(b"true") => {
            *p += 4;
            Some(J::Bool(true))
        }
        b'f' if b[*p..].starts_with(b"false") => {
            *p += 5;
            Some(J::Bool(false))
        }
        b'n' if b[*p..].starts_with(b"null") => {
            *p += 4;
            Some(J::Null)
        }
        _ => {
            let st = *p;
            while *p < b.len() && (b[*p] == b'-' || b[*p] == b'+' || b[*p] == b'.' || b[*p] == b'e' || b[*p] == b'E' || b[*p].is_ascii_digit()) {
                *p += 1;
            }
            let t = std::str::from_utf8(&b[st..*p]).ok()?;
            if let Ok(i) = t.parse::<i64>() {
                Some(J::Int(i))
            } else {
                t.parse::<f64>().ok().map(J::Num)
            }
        }
    }
}
