//! Fixed-seed suite executed under Miri (thorough tier of C03 and C05): Miri is the oracle for
//! "reads or writes outside its buffers / exposes uninitialised memory / builds an invalid str".
//! It runs generated cases; it is a sanitizer for the same generated-input technique.
//!   miri_suite [c03|c05|all] [count]        run the suite
//!   miri_suite only <kind> <hex>            run one case (replay)

use mqv::fam::{self, Family, V3, V5};
use mqv::gen::GenCfg;
use mqv::model::{hex, unhex};
use mqv::run::Ctx;
use mqv::sio::Step;
use mqv::tape::Tape;

struct Lcg(u64);
impl Lcg {
    fn next(&mut self) -> u16 {
        self.0 = self.0.wrapping_mul(6364136223846793005).wrapping_add(1442695040888963407);
        (self.0 >> 33) as u16
    }
    fn tape(&mut self, n: usize) -> Vec<u16> {
        (0..n).map(|_| self.next()).collect()
    }
}

fn fail(kind: &str, input: &[u8], msg: &str) -> ! {
    eprintln!("MIRI-SUITE-VIOLATION kind={} input={} : {}", kind, hex(input), msg);
    std::process::exit(1);
}

fn total_case(b: &[u8]) {
    eprintln!("MIRI-CASE total {}", hex(b));
    let mut ctx = Ctx::new("C03", true);
    if let Err(v) = mqv::checks::c03::total::<V3>(b, &mut ctx).and_then(|_| mqv::checks::c03::total::<V5>(b, &mut ctx)) {
        fail("total", b, &v.msg);
    }
}

fn schedule_case<F: Family>(b: &[u8], l: &mut Lcg) {
    eprintln!("MIRI-CASE schedule{} {}", if F::FAM == mqv::model::Fam::V3 { 3 } else { 5 }, hex(b));
    let one = fam::dec_poll::<F>(b);
    for mode in 0..4 {
        let steps: Vec<Step> = (0..b.len() * 2 + 2)
            .map(|i| match mode {
                0 => Step::Chunk(1 + (l.next() % 5) as usize),
                _ => {
                    if i % 2 == 0 {
                        Step::Pending
                    } else {
                        Step::Chunk(1 + (l.next() % 3) as usize)
                    }
                }
            })
            .collect();
        let run = fam::dec_poll_styled::<F>(b, &steps, if mode >= 2 { u64::MAX } else { 0 }, None, false, if mode == 3 { 3 } else { (mode & 1) as u8 });
        if run.result != one.result {
            fail("schedule", b, "scheduled run differs from the one-shot run");
        }
        if let Ok(ok) = &run.result {
            // read every byte of the handed-back buffer: Miri flags uninitialised memory here
            let s: u32 = ok.body.iter().map(|x| *x as u32).sum();
            std::hint::black_box(s);
        }
    }
}

fn roundtrip_case<F: Family>(tape: &[u16]) {
    let mut t = Tape::new(tape);
    let mut ctx = Ctx::new("C01", true);
    if let Ok(p) = F::gen(&mut t, &GenCfg::SMALL) {
        if let Ok(e) = F::encode(&p) {
            eprintln!("MIRI-CASE roundtrip{} {}", if F::FAM == mqv::model::Fam::V3 { 3 } else { 5 }, hex(e.as_ref()));
        }
        if let Err(v) = mqv::checks::c01::roundtrip::<F>(&p, &mut ctx) {
            fail("roundtrip", &[], &v.msg);
        }
    }
}

fn filters_case() {
    for s in ["$share/g/a", "$share/\u{e9}\u{1F600}/\u{e9}/#", "$share/g//", "a/+/#", "/", "$SYS/x", "$share/$share/$share/x", "+"] {
        eprintln!("MIRI-CASE filter {}", hex(s.as_bytes()));
        if let Err(m) = mqv::checks::strings::check_shared_parts(s).and_then(|_| mqv::checks::strings::check_relations(s, "a", s)) {
            fail("filter", s.as_bytes(), &m);
        }
        if let Err(m) = mqv::checks::strings::check_filter(s, true, true) {
            fail("filter", s.as_bytes(), &m);
        }
    }
}

fn main() {
    let args: Vec<String> = std::env::args().collect();
    let which = args.get(1).map(|s| s.as_str()).unwrap_or("all").to_string();
    if which == "only" {
        let kind = args.get(2).cloned().unwrap_or_default();
        let b = unhex(args.get(3).map(|s| s.as_str()).unwrap_or("")).unwrap_or_default();
        let mut l = Lcg(7);
        match kind.as_str() {
            "schedule3" => schedule_case::<V3>(&b, &mut l),
            "schedule5" => schedule_case::<V5>(&b, &mut l),
            _ => total_case(&b),
        }
        println!("miri-suite: single case ok");
        return;
    }
    let count: usize = args.get(2).and_then(|s| s.parse().ok()).unwrap_or(120);
    let mut l = Lcg(0x5EED_0001);
    let mut cases = 0usize;
    if which == "c03" || which == "all" {
        for v in mqv::checks::c03::vectors().iter().take(6) {
            // (declared lengths far beyond the input; the 256 MB ones are too slow under Miri)
            if v.bytes().len() < 5 || v.bytes()[1..5] != [0xff, 0xff, 0xff, 0x7f] {
                total_case(v.bytes());
                cases += 1;
            }
        }
        for i in 0..count {
            let tape = l.tape(60);
            let mut t = Tape::new(&tape);
            let (b, _) = if i % 2 == 0 { mqv::corpus::gen_input::<V3>(&mut t, &GenCfg::SMALL) } else { mqv::corpus::gen_input::<V5>(&mut t, &GenCfg::SMALL) };
            if b.len() <= 300 && !mqv::fuzzsupport::too_big(&b) && mqv::refdec::frame_bounds(&b).map(|x| x.1 < 1 << 16).unwrap_or(true) {
                total_case(&b);
                cases += 1;
            }
        }
        for _ in 0..count / 4 {
            let tape = l.tape(80);
            roundtrip_case::<V3>(&tape);
            roundtrip_case::<V5>(&tape);
            cases += 2;
        }
        filters_case();
        cases += 8;
    }
    if which == "c05" || which == "all" {
        let s3 = mqv::checks::c05::short_streams::<V3>();
        let s5 = mqv::checks::c05::short_streams::<V5>();
        for (i, b) in s3.iter().enumerate() {
            if i % 2 == 0 && b.len() <= 40 {
                schedule_case::<V3>(b, &mut l);
                cases += 1;
            }
        }
        for (i, b) in s5.iter().enumerate() {
            if i % 2 == 1 && b.len() <= 40 {
                schedule_case::<V5>(b, &mut l);
                cases += 1;
            }
        }
        for i in 0..count / 3 {
            let tape = l.tape(60);
            let mut t = Tape::new(&tape);
            if i % 2 == 0 {
                let (b, _) = mqv::corpus::gen_input::<V3>(&mut t, &GenCfg::SMALL);
                if b.len() <= 200 && mqv::refdec::frame_bounds(&b).map(|x| x.1 < 1 << 16).unwrap_or(true) {
                    schedule_case::<V3>(&b, &mut l);
                    cases += 1;
                }
            } else {
                let (b, _) = mqv::corpus::gen_input::<V5>(&mut t, &GenCfg::SMALL);
                if b.len() <= 200 && mqv::refdec::frame_bounds(&b).map(|x| x.1 < 1 << 16).unwrap_or(true) {
                    schedule_case::<V5>(&b, &mut l);
                    cases += 1;
                }
            }
        }
    }
    println!("miri-suite: {} cases ok ({})", cases, which);
}
