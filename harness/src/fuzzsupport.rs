//! Glue between the cargo-fuzz targets and the checks: the semantic oracle runs inside the
//! target; a violation is turned into a panic whose message carries the property and the input.

use crate::fam::{Family, V3, V5};
use crate::gen::GenCfg;
use crate::run::{CaseResult, Ctx};
use crate::tape::Tape;
use std::sync::Once;

static INIT: Once = Once::new();
static mut PROP: &str = "C03";

pub fn init(prop: &'static str) {
    INIT.call_once(|| {
        let root = std::env::var("MQV_ROOT").unwrap_or_else(|_| "/verif".to_string());
        crate::kf::load(std::path::Path::new(&root));
        unsafe {
            PROP = prop;
        }
    });
}

fn prop() -> &'static str {
    unsafe { PROP }
}

/// Under ASan a 256 MB allocation costs milliseconds (shadow poisoning), so inputs that declare
/// more than 4 MiB are executed only for one input hash in sixteen; maximal declared lengths are
/// covered by the non-fuzzing tiers of C03.
pub fn too_big(data: &[u8]) -> bool {
    match crate::refdec::frame_bounds(data) {
        Ok((_, rl)) if rl > (4 << 20) => crate::model::fnv(data) % 16 != 0,
        _ => false,
    }
}

pub fn run(data: &[u8], what: &str, f: impl FnOnce(&[u8], &mut Ctx) -> CaseResult) {
    if too_big(data) {
        return;
    }
    let mut ctx = Ctx::new(prop(), true);
    ctx.frozen = false;
    ctx.want_samples = 0;
    if let Err(v) = f(data, &mut ctx) {
        panic!("MQV-VIOLATION [{}] {} ; input {}", what, v.msg, crate::model::hex_short(data, 256));
    }
}

fn tape_case<F: Family>(t: &mut Tape, ctx: &mut Ctx) -> CaseResult {
    let cfg = GenCfg::SMALL;
    if t.chance(1, 4) {
        // a valid packet through the round-trip and conformance oracles
        if let Ok(p) = F::gen(t, &cfg) {
            crate::checks::c01::roundtrip::<F>(&p, ctx)?;
            crate::checks::c10::conform::<F>(&p, ctx)?;
        }
        return Ok(());
    }
    let (b, origin) = crate::corpus::gen_input::<F>(t, &cfg);
    crate::checks::c06::agree::<F>(&b, origin, ctx)?;
    crate::checks::c11::reencode::<F>(&b, origin, ctx)?;
    crate::checks::c12::all_fronts::<F>(&b, origin, ctx)?;
    crate::checks::c04::decide::<F>(&b, ctx)?;
    Ok(())
}

pub fn run_tape(tape: &[u16]) {
    let mut ctx = Ctx::new(prop(), true);
    ctx.want_samples = 0;
    let mut t = Tape::new(tape);
    let r = if t.flag() { tape_case::<V5>(&mut t, &mut ctx) } else { tape_case::<V3>(&mut t, &mut ctx) };
    if let Err(v) = r {
        panic!("MQV-VIOLATION [tape] {} ; tape {:?}", v.msg, &tape[..tape.len().min(400)]);
    }
}
