//! The malformation catalogue (DESIGN.md Appendix C): single, localised edits of a valid
//! wire-level packet, each with the error the library documents for it; benign re-spellings
//! (long forms, property order, non-minimal integers); and byte-level mutations.

use crate::model::*;
use crate::project;
use crate::tape::Tape;
use mqtt_proto::{v5, Error, Protocol};

#[derive(Clone, Copy, Debug, PartialEq, Eq, Hash, PartialOrd, Ord)]
pub enum Entry {
    Flags,
    Type0,
    PubQos3,
    Pid0,
    SubQos,
    WillQos3,
    WillQosNoWill,
    ConnRes,
    ConnackFlags,
    V3Rc,
    V3SubRc,
    V5Reason,
    SubOpt,
    NonUtf8,
    Utf8Straddle,
    NameWild,
    RespTopic,
    BadFilter,
    PropUnknown,
    PropDup,
    PropForeign,
    WillPropForeign,
    PropLen,
    PropBool,
    VarInt5,
    ProtoName,
    ProtoFamily,
    EmptySub,
    RlStrict,
    RlSmall,
    InnerPastEnd,
    PropLenPastEnd,
    PayloadFormat,
    ConnFlagNoField,
}

pub const ALL_ENTRIES: &[Entry] = &[
    Entry::Flags,
    Entry::Type0,
    Entry::PubQos3,
    Entry::Pid0,
    Entry::SubQos,
    Entry::WillQos3,
    Entry::WillQosNoWill,
    Entry::ConnRes,
    Entry::ConnackFlags,
    Entry::V3Rc,
    Entry::V3SubRc,
    Entry::V5Reason,
    Entry::SubOpt,
    Entry::NonUtf8,
    Entry::Utf8Straddle,
    Entry::NameWild,
    Entry::RespTopic,
    Entry::BadFilter,
    Entry::PropUnknown,
    Entry::PropDup,
    Entry::PropForeign,
    Entry::WillPropForeign,
    Entry::PropLen,
    Entry::PropBool,
    Entry::VarInt5,
    Entry::ProtoName,
    Entry::ProtoFamily,
    Entry::EmptySub,
    Entry::RlStrict,
    Entry::RlSmall,
    Entry::InnerPastEnd,
    Entry::PropLenPastEnd,
    Entry::PayloadFormat,
    Entry::ConnFlagNoField,
];

impl Entry {
    pub fn name(self) -> &'static str {
        match self {
            Entry::Flags => "flags",
            Entry::Type0 => "type0",
            Entry::PubQos3 => "pubqos3",
            Entry::Pid0 => "pid0",
            Entry::SubQos => "subqos",
            Entry::WillQos3 => "willqos3",
            Entry::WillQosNoWill => "willqos-nowill",
            Entry::ConnRes => "connres",
            Entry::ConnackFlags => "connackflags",
            Entry::V3Rc => "v3rc",
            Entry::V3SubRc => "v3subrc",
            Entry::V5Reason => "v5reason",
            Entry::SubOpt => "subopt",
            Entry::NonUtf8 => "nonutf8",
            Entry::Utf8Straddle => "utf8-straddle",
            Entry::NameWild => "namewild",
            Entry::RespTopic => "resptopic",
            Entry::BadFilter => "badfilter",
            Entry::PropUnknown => "propunknown",
            Entry::PropDup => "propdup",
            Entry::PropForeign => "propforeign",
            Entry::WillPropForeign => "willpropforeign",
            Entry::PropLen => "proplen",
            Entry::PropBool => "propbool",
            Entry::VarInt5 => "varint5",
            Entry::ProtoName => "protoname",
            Entry::ProtoFamily => "protofamily",
            Entry::EmptySub => "emptysub",
            Entry::RlStrict => "rl-strict",
            Entry::RlSmall => "rl-small",
            Entry::InnerPastEnd => "inner-past-end",
            Entry::PropLenPastEnd => "proplen-past-end",
            Entry::PayloadFormat => "payloadformat",
            Entry::ConnFlagNoField => "connflag-nofield",
        }
    }
}

/// expected error, family independent
#[derive(Clone, Debug, PartialEq, Eq)]
pub enum ExpErr {
    ZeroPid,
    InvalidQos(u8),
    InvalidHeader,
    InvalidConnectFlags(u8),
    InvalidConnackFlags(u8),
    InvalidConnectReturnCode(u8),
    InvalidReasonCode(u8, u8),
    InvalidSubscriptionOption(u8),
    InvalidString,
    InvalidTopicName(String),
    InvalidResponseTopic,
    InvalidTopicFilter(String),
    InvalidPropertyId(u8),
    DuplicatedProperty(u8),
    InvalidProperty(u8, u8),
    InvalidWillProperty(u8),
    InvalidPropertyLength(u32),
    InvalidByteProperty(u8, u8),
    InvalidVarByteInt,
    InvalidProtocol(String, u8),
    UnexpectedProtocol(u8),
    EmptySubscription,
    InvalidRemainingLength,
    InvalidPayloadFormat,
}

pub fn property_id_of(n: u8) -> Option<v5::PropertyId> {
    use v5::PropertyId::*;
    [
        PayloadFormatIndicator,
        MessageExpiryInterval,
        ContentType,
        ResponseTopic,
        CorrelationData,
        SubscriptionIdentifier,
        SessionExpiryInterval,
        AssignedClientIdentifier,
        ServerKeepAlive,
        AuthenticationMethod,
        AuthenticationData,
        RequestProblemInformation,
        WillDelayInterval,
        RequestResponseInformation,
        ResponseInformation,
        ServerReference,
        ReasonString,
        ReceiveMaximum,
        TopicAliasMaximum,
        TopicAlias,
        MaximumQoS,
        RetainAvailable,
        UserProperty,
        MaximumPacketSize,
        WildcardSubscriptionAvailable,
        SubscriptionIdentifierAvailable,
        SharedSubscriptionAvailable,
    ]
    .into_iter()
    .find(|p| project::property_id_num(*p) == n)
}

pub fn packet_type_of(n: u8) -> Option<v5::PacketType> {
    use v5::PacketType::*;
    [Connect, Connack, Publish, Puback, Pubrec, Pubrel, Pubcomp, Subscribe, Suback, Unsubscribe, Unsuback, Pingreq, Pingresp, Disconnect, Auth]
        .into_iter()
        .find(|p| project::packet_type_num(*p) == n)
}

fn protocol_of(level: u8) -> Protocol {
    match level {
        3 => Protocol::V310,
        4 => Protocol::V311,
        _ => Protocol::V500,
    }
}

impl ExpErr {
    pub fn common(&self) -> Option<Error> {
        Some(match self {
            ExpErr::ZeroPid => Error::ZeroPid,
            ExpErr::InvalidQos(b) => Error::InvalidQos(*b),
            ExpErr::InvalidHeader => Error::InvalidHeader,
            ExpErr::InvalidConnectFlags(b) => Error::InvalidConnectFlags(*b),
            ExpErr::InvalidConnackFlags(b) => Error::InvalidConnackFlags(*b),
            ExpErr::InvalidConnectReturnCode(b) => Error::InvalidConnectReturnCode(*b),
            ExpErr::InvalidString => Error::InvalidString,
            ExpErr::InvalidTopicName(s) => Error::InvalidTopicName(s.clone()),
            ExpErr::InvalidTopicFilter(s) => Error::InvalidTopicFilter(s.clone()),
            ExpErr::InvalidVarByteInt => Error::InvalidVarByteInt,
            ExpErr::InvalidProtocol(s, l) => Error::InvalidProtocol(s.clone(), *l),
            ExpErr::UnexpectedProtocol(l) => Error::UnexpectedProtocol(protocol_of(*l)),
            ExpErr::EmptySubscription => Error::EmptySubscription,
            ExpErr::InvalidRemainingLength => Error::InvalidRemainingLength,
            _ => return None,
        })
    }
    pub fn v3(&self) -> Option<Error> {
        self.common()
    }
    pub fn v5(&self) -> Option<v5::ErrorV5> {
        use v5::ErrorV5 as E;
        if let Some(c) = self.common() {
            return Some(E::Common(c));
        }
        Some(match self {
            ExpErr::InvalidReasonCode(t, b) => E::InvalidReasonCode(packet_type_of(*t)?, *b),
            ExpErr::InvalidSubscriptionOption(b) => E::InvalidSubscriptionOption(*b),
            ExpErr::InvalidResponseTopic => E::InvalidResponseTopic,
            ExpErr::InvalidPropertyId(b) => E::InvalidPropertyId(*b),
            ExpErr::DuplicatedProperty(i) => E::DuplicatedProperty(property_id_of(*i)?),
            ExpErr::InvalidProperty(t, i) => E::InvalidProperty(packet_type_of(*t)?, property_id_of(*i)?),
            ExpErr::InvalidWillProperty(i) => E::InvalidWillProperty(property_id_of(*i)?),
            ExpErr::InvalidPropertyLength(n) => E::InvalidPropertyLength(*n),
            ExpErr::InvalidByteProperty(i, b) => E::InvalidByteProperty(property_id_of(*i)?, *b),
            ExpErr::InvalidPayloadFormat => E::InvalidPayloadFormat,
            _ => return None,
        })
    }
}

#[derive(Clone, Debug, PartialEq, Eq)]
pub enum Expect {
    /// all three front-ends return this error
    All(ExpErr),
    /// the strict poll decoder returns this error; the lenient front-ends are not asserted
    PollOnly(ExpErr),
    /// poll: InvalidRemainingLength; blocking: Ok(None); async: EOF error
    InnerPastEnd,
}

#[derive(Clone, Debug)]
pub struct Mutated {
    pub bytes: Vec<u8>,
    pub expect: Expect,
    pub desc: String,
}

#[derive(Clone, Debug, PartialEq, Eq)]
pub struct Site {
    pub entry: Entry,
    /// which field / property / list element (meaning depends on the entry)
    pub idx: usize,
}

// ---------------------------------------------------------------------------------------
// field paths

#[derive(Clone, Debug, PartialEq, Eq)]
pub enum SKind {
    ProtoName,
    Plain,
    TopicName,
    ResponseTopic,
    Filter,
    Binary,
}

#[derive(Clone, Debug, PartialEq, Eq)]
pub enum FPath {
    ProtoName,
    ClientId,
    WillTopic,
    WillPayload,
    Username,
    Password,
    PubTopic,
    SubFilter(usize),
    UnsubFilter(usize),
    /// (in will?, property index, 0 = value / pair name, 1 = pair value)
    Prop(bool, usize, u8),
}

pub fn main_props(w: &WPacket) -> Option<&Props> {
    match &w.body {
        Body::Connect { props, .. }
        | Body::Connack { props, .. }
        | Body::Publish { props, .. }
        | Body::Ack { props, .. }
        | Body::Subscribe { props, .. }
        | Body::Suback { props, .. }
        | Body::Unsubscribe { props, .. }
        | Body::Reason { props, .. } => props.as_ref(),
        Body::Empty => None,
    }
}

pub fn main_props_mut(w: &mut WPacket) -> Option<&mut Props> {
    match &mut w.body {
        Body::Connect { props, .. }
        | Body::Connack { props, .. }
        | Body::Publish { props, .. }
        | Body::Ack { props, .. }
        | Body::Subscribe { props, .. }
        | Body::Suback { props, .. }
        | Body::Unsubscribe { props, .. }
        | Body::Reason { props, .. } => props.as_mut(),
        Body::Empty => None,
    }
}

pub fn will_props(w: &WPacket) -> Option<&Props> {
    match &w.body {
        Body::Connect { will: Some(wl), .. } => wl.props.as_ref(),
        _ => None,
    }
}

pub fn will_props_mut(w: &mut WPacket) -> Option<&mut Props> {
    match &mut w.body {
        Body::Connect { will: Some(wl), .. } => wl.props.as_mut(),
        _ => None,
    }
}

/// every string / binary field of the packet with its kind
pub fn fields(w: &WPacket) -> Vec<(FPath, SKind)> {
    let mut v = Vec::new();
    match &w.body {
        Body::Connect { will, username, password, .. } => {
            v.push((FPath::ProtoName, SKind::ProtoName));
            v.push((FPath::ClientId, SKind::Plain));
            if will.is_some() {
                v.push((FPath::WillTopic, SKind::TopicName));
                v.push((FPath::WillPayload, SKind::Binary));
            }
            if username.is_some() {
                v.push((FPath::Username, SKind::Plain));
            }
            if password.is_some() {
                v.push((FPath::Password, SKind::Binary));
            }
        }
        Body::Publish { .. } => v.push((FPath::PubTopic, SKind::TopicName)),
        Body::Subscribe { topics, .. } => {
            for i in 0..topics.len() {
                v.push((FPath::SubFilter(i), SKind::Filter));
            }
        }
        Body::Unsubscribe { topics, .. } => {
            for i in 0..topics.len() {
                v.push((FPath::UnsubFilter(i), SKind::Filter));
            }
        }
        _ => {}
    }
    for (in_will, ps) in [(false, main_props(w)), (true, will_props(w))] {
        if let Some(ps) = ps {
            for (i, p) in ps.items.iter().enumerate() {
                match &p.val {
                    PVal::Str(_) => v.push((FPath::Prop(in_will, i, 0), if p.id == 0x08 { SKind::ResponseTopic } else { SKind::Plain })),
                    PVal::Bin(_) => v.push((FPath::Prop(in_will, i, 0), SKind::Binary)),
                    PVal::Pair(_, _) => {
                        v.push((FPath::Prop(in_will, i, 0), SKind::Plain));
                        v.push((FPath::Prop(in_will, i, 1), SKind::Plain));
                    }
                    _ => {}
                }
            }
        }
    }
    v
}

pub fn field_mut<'a>(w: &'a mut WPacket, p: &FPath) -> Option<&'a mut Vec<u8>> {
    if let FPath::Prop(in_will, i, which) = p {
        let ps = if *in_will { will_props_mut(w) } else { main_props_mut(w) }?;
        return match &mut ps.items.get_mut(*i)?.val {
            PVal::Str(s) | PVal::Bin(s) => Some(s),
            PVal::Pair(a, b) => Some(if *which == 0 { a } else { b }),
            _ => None,
        };
    }
    match (&mut w.body, p) {
        (Body::Connect { name, .. }, FPath::ProtoName) => Some(name),
        (Body::Connect { client_id, .. }, FPath::ClientId) => Some(client_id),
        (Body::Connect { will: Some(wl), .. }, FPath::WillTopic) => Some(&mut wl.topic),
        (Body::Connect { will: Some(wl), .. }, FPath::WillPayload) => Some(&mut wl.payload),
        (Body::Connect { username: Some(u), .. }, FPath::Username) => Some(u),
        (Body::Connect { password: Some(u), .. }, FPath::Password) => Some(u),
        (Body::Publish { topic, .. }, FPath::PubTopic) => Some(topic),
        (Body::Subscribe { topics, .. }, FPath::SubFilter(i)) => topics.get_mut(*i).map(|x| &mut x.0),
        (Body::Unsubscribe { topics, .. }, FPath::UnsubFilter(i)) => topics.get_mut(*i),
        _ => None,
    }
}

fn lossy(b: &[u8]) -> String {
    String::from_utf8_lossy(b).into_owned()
}

// ---------------------------------------------------------------------------------------
// sites

fn single_valued(ps: &Props) -> Vec<usize> {
    ps.items.iter().enumerate().filter(|(_, p)| p.id != 0x26 && prop_info(p.id).is_some()).map(|(i, _)| i).collect()
}

fn byte_props(ps: &Props) -> Vec<usize> {
    ps.items.iter().enumerate().filter(|(_, p)| matches!(p.val, PVal::Byte(_))).map(|(i, _)| i).collect()
}

fn ctx_of(w: &WPacket) -> u8 {
    w.typ()
}

/// all catalogue sites applicable to a valid packet
pub fn sites(w: &WPacket) -> Vec<Site> {
    let mut v = Vec::new();
    let t = w.typ();
    let v5 = w.fam == Fam::V5;
    let mut push = |e: Entry, n: usize| {
        for i in 0..n {
            v.push(Site { entry: e, idx: i });
        }
    };
    if t != T_PUBLISH {
        push(Entry::Flags, 1);
    } else {
        push(Entry::PubQos3, 1);
    }
    push(Entry::Type0, if v5 { 1 } else { 2 });
    push(Entry::VarInt5, 1); // remaining length
    match &w.body {
        Body::Connect { flags, .. } => {
            if flags & 0b100 != 0 {
                push(Entry::WillQos3, 1);
            } else {
                push(Entry::WillQosNoWill, 3);
            }
            push(Entry::ConnRes, 1);
            push(Entry::ProtoName, 14);
            push(Entry::ProtoFamily, if v5 { 2 } else { 1 });
        }
        Body::Connack { .. } => {
            push(Entry::ConnackFlags, 1);
            if v5 {
                push(Entry::V5Reason, 1);
            } else {
                push(Entry::V3Rc, 1);
            }
        }
        Body::Publish { pid, .. } => {
            if pid.is_some() {
                push(Entry::Pid0, 1);
            }
            push(Entry::RlSmall, 1);
        }
        Body::Ack { reason, .. } => {
            push(Entry::Pid0, 1);
            if v5 && reason.is_some() {
                push(Entry::V5Reason, 1);
            }
        }
        Body::Subscribe { topics, .. } => {
            push(Entry::Pid0, 1);
            if v5 {
                push(Entry::SubOpt, topics.len());
            } else {
                push(Entry::SubQos, topics.len());
            }
            push(Entry::EmptySub, 1);
            push(Entry::RlSmall, 1);
        }
        Body::Suback { codes, .. } => {
            push(Entry::Pid0, 1);
            if v5 {
                push(Entry::V5Reason, codes.len());
            } else {
                push(Entry::V3SubRc, codes.len());
            }
            push(Entry::RlSmall, 1);
        }
        Body::Unsubscribe { .. } => {
            push(Entry::Pid0, 1);
            push(Entry::EmptySub, 1);
            push(Entry::RlSmall, 1);
        }
        Body::Reason { reason, .. } => {
            if reason.is_some() {
                push(Entry::V5Reason, 1);
            }
        }
        Body::Empty => {}
    }
    let fs = fields(w);
    for (i, (_, k)) in fs.iter().enumerate() {
        match k {
            SKind::Binary => {}
            _ => v.push(Site { entry: Entry::NonUtf8, idx: i }),
        }
        match k {
            SKind::TopicName => v.push(Site { entry: Entry::NameWild, idx: i }),
            SKind::ResponseTopic => v.push(Site { entry: Entry::RespTopic, idx: i }),
            SKind::Filter => v.push(Site { entry: Entry::BadFilter, idx: i }),
            _ => {}
        }
    }
    for (in_will, ps) in [(false, main_props(w)), (true, will_props(w))] {
        if let Some(ps) = ps {
            for (i, p) in ps.items.iter().enumerate() {
                if matches!(p.val, PVal::Pair(..)) {
                    v.push(Site { entry: Entry::Utf8Straddle, idx: if in_will { 1000 + i } else { i } });
                }
            }
        }
    }
    if let Some(ps) = main_props(w) {
        // first / last / middle position of the list
        let npos = if ps.items.is_empty() { 1 } else if ps.items.len() == 1 { 2 } else { 3 };
        for pos in 0..npos {
            v.push(Site { entry: Entry::PropUnknown, idx: 2 * pos });
            v.push(Site { entry: Entry::PropForeign, idx: pos });
        }
        v.push(Site { entry: Entry::PropLenPastEnd, idx: 0 });
        v.push(Site { entry: Entry::VarInt5, idx: 1 });
        for i in single_valued(ps) {
            v.push(Site { entry: Entry::PropDup, idx: i });
        }
        for i in byte_props(ps) {
            v.push(Site { entry: Entry::PropBool, idx: i });
        }
        if !ps.items.is_empty() {
            v.push(Site { entry: Entry::PropLen, idx: 0 });
        }
        if ps.items.iter().any(|p| matches!(p.val, PVal::VarInt(..))) {
            v.push(Site { entry: Entry::VarInt5, idx: 3 });
        }
    }
    if let Some(ps) = will_props(w) {
        let npos = if ps.items.is_empty() { 1 } else if ps.items.len() == 1 { 2 } else { 3 };
        for pos in 0..npos {
            v.push(Site { entry: Entry::PropUnknown, idx: 2 * pos + 1 });
            v.push(Site { entry: Entry::WillPropForeign, idx: pos });
        }
        v.push(Site { entry: Entry::VarInt5, idx: 2 });
        for i in single_valued(ps) {
            v.push(Site { entry: Entry::PropDup, idx: 1000 + i });
        }
        for i in byte_props(ps) {
            v.push(Site { entry: Entry::PropBool, idx: 1000 + i });
        }
        if !ps.items.is_empty() {
            v.push(Site { entry: Entry::PropLen, idx: 1 });
        }
    }
    // CONNECT: the user-name / password flag set although the frame ends where that field would begin
    if let Body::Connect { username, password, .. } = &w.body {
        if username.is_none() && password.is_none() {
            v.push(Site { entry: Entry::ConnFlagNoField, idx: 0 });
        }
        if password.is_none() {
            v.push(Site { entry: Entry::ConnFlagNoField, idx: 1 });
        }
    }
    // a payload that is flagged as UTF-8 (Payload Format Indicator = 1) in a PUBLISH or in the will
    if let Body::Publish { props: Some(ps), .. } = &w.body {
        if ps.get(0x01) == Some(&PVal::Byte(1)) {
            v.push(Site { entry: Entry::PayloadFormat, idx: 0 });
        }
    }
    if let Body::Connect { will: Some(wl), .. } = &w.body {
        if wl.props.as_ref().and_then(|ps| ps.get(0x01)) == Some(&PVal::Byte(1)) {
            v.push(Site { entry: Entry::PayloadFormat, idx: 1 });
        }
    }
    v.push(Site { entry: Entry::RlStrict, idx: 0 });
    v.push(Site { entry: Entry::RlStrict, idx: 1 });
    v.push(Site { entry: Entry::InnerPastEnd, idx: 0 });
    let _ = ctx_of(w);
    v
}

/// an out-of-range byte >= lo, biased towards the boundary (lo itself, lo+1, 0x7F, 0x80, 0xFF)
fn bad_byte(t: &mut Tape, lo: u8) -> u8 {
    match t.pick(8) {
        0 | 1 | 2 => lo,
        3 => lo.saturating_add(1),
        4 => 0x7F.max(lo),
        5 => 0x80.max(lo),
        6 => 0xFF,
        _ => lo + t.pick(256 - lo as usize) as u8,
    }
}

/// a value of the right wire type for property `id`
fn sample_value(id: u8, t: &mut Tape) -> PVal {
    match prop_info(id).map(|x| x.1) {
        Some(PType::Byte) => PVal::Byte(t.pick(2) as u8),
        Some(PType::U16) => PVal::U16(t.u16()),
        Some(PType::U32) => PVal::U32(t.u32()),
        Some(PType::VarInt) => PVal::VarInt(t.u32() % 268_435_456, 0),
        Some(PType::Str) => PVal::Str(if id == 0x08 { b"r/t".to_vec() } else { b"s".to_vec() }),
        Some(PType::Bin) => PVal::Bin(vec![1, 2, 3]),
        Some(PType::Pair) => PVal::Pair(b"k".to_vec(), b"v".to_vec()),
        None => PVal::Raw(vec![]),
    }
}

const BAD_FILTERS: &[&str] = &["", "a/#/b", "a+", "#a", "$share/g", "$share//a", "$share/g/", "a\0", "+a/b", "$share/g+/a", "a/b#", "+x", "a/+x", "$share/g/+x", "#/", "++"];

/// Applies one catalogue entry. `None` when the site does not apply after all (the caller counts it).
pub fn apply(orig: &WPacket, site: &Site, t: &mut Tape) -> Option<Mutated> {
    let mut out = None;
    apply_ex(orig, site, t, &mut out)
}

/// Several entries applied one after the other to the same packet (only the decoder-facing
/// corpus uses this; C20 applies exactly one). Model-level entries are chained on the wire
/// model; a byte-level entry (wrong remaining length, inner length past the end) ends the chain.
pub fn apply_chain(orig: &WPacket, sites: &[Site], t: &mut Tape) -> Option<(Vec<u8>, Vec<&'static str>)> {
    let mut cur = orig.clone();
    let mut names = Vec::new();
    let mut last: Option<Vec<u8>> = None;
    for s in sites {
        let mut out = None;
        match apply_ex(&cur, s, t, &mut out) {
            Some(m) => {
                names.push(s.entry.name());
                last = Some(m.bytes);
                match out {
                    Some(w2) => cur = w2,
                    None => break,
                }
            }
            None => continue,
        }
    }
    last.map(|b| (b, names))
}

/// like `apply`; `out_w` receives the edited wire model when the entry works on the model
pub fn apply_ex(orig: &WPacket, site: &Site, t: &mut Tape, out_w: &mut Option<WPacket>) -> Option<Mutated> {
    let mut w = orig.clone();
    let ty = w.typ();
    let v5 = w.fam == Fam::V5;
    let all = |e: ExpErr| Expect::All(e);
    let (expect, desc): (Expect, String) = match site.entry {
        Entry::Flags => {
            let req = required_flags(ty)?;
            let mut f = t.pick(16) as u8;
            if f == req {
                f = (req + 1) & 0x0F;
            }
            w.first = (ty << 4) | f;
            (all(ExpErr::InvalidHeader), format!("flag nibble {:04b} instead of {:04b}", f, req))
        }
        Entry::Type0 => {
            let nt = if site.idx == 0 { 0 } else { 15 };
            w.first = (nt << 4) | (w.first & 0x0F);
            (all(ExpErr::InvalidHeader), format!("type nibble {}", nt))
        }
        Entry::PubQos3 => {
            w.first |= 0b0110;
            (all(ExpErr::InvalidQos(3)), "PUBLISH QoS bits 11".into())
        }
        Entry::Pid0 => {
            match &mut w.body {
                Body::Publish { pid: Some(p), .. } => *p = 0,
                Body::Ack { pid, .. } | Body::Subscribe { pid, .. } | Body::Suback { pid, .. } | Body::Unsubscribe { pid, .. } => *pid = 0,
                _ => return None,
            }
            (all(ExpErr::ZeroPid), "packet identifier 0".into())
        }
        Entry::SubQos => {
            let b = bad_byte(t, 3);
            match &mut w.body {
                Body::Subscribe { topics, .. } => topics.get_mut(site.idx)?.1 = b,
                _ => return None,
            }
            (all(ExpErr::InvalidQos(b)), format!("requested QoS byte {:#04x} in entry {}", b, site.idx))
        }
        Entry::WillQos3 => {
            match &mut w.body {
                Body::Connect { flags, .. } => *flags |= 0b0001_1000,
                _ => return None,
            }
            (all(ExpErr::InvalidQos(3)), "will QoS bits 11".into())
        }
        Entry::WillQosNoWill => {
            let q = 1 + site.idx as u8;
            let f = match &mut w.body {
                Body::Connect { flags, .. } => {
                    *flags = (*flags & !0b0001_1000) | (q << 3);
                    *flags
                }
                _ => return None,
            };
            (all(ExpErr::InvalidConnectFlags(f)), format!("will QoS {} without will flag", q))
        }
        Entry::ConnRes => {
            let f = match &mut w.body {
                Body::Connect { flags, .. } => {
                    *flags |= 1;
                    *flags
                }
                _ => return None,
            };
            (all(ExpErr::InvalidConnectFlags(f)), "reserved connect flag set".into())
        }
        Entry::ConnackFlags => {
            let b = bad_byte(t, 2);
            match &mut w.body {
                Body::Connack { flags, .. } => *flags = b,
                _ => return None,
            }
            (all(ExpErr::InvalidConnackFlags(b)), format!("connack flags byte {:#04x}", b))
        }
        Entry::V3Rc => {
            let b = bad_byte(t, 6);
            match &mut w.body {
                Body::Connack { code, .. } => *code = b,
                _ => return None,
            }
            (all(ExpErr::InvalidConnectReturnCode(b)), format!("return code {:#04x}", b))
        }
        Entry::V3SubRc => {
            let mut b = [3u8, 4, 0x7F, 0x81, 0xFF, 0x10][t.pick(6)];
            if t.flag() {
                b = t.u8();
            }
            if [0u8, 1, 2, 0x80].contains(&b) {
                b = 3;
            }
            match &mut w.body {
                Body::Suback { codes, .. } => *codes.get_mut(site.idx)? = b,
                _ => return None,
            }
            (all(ExpErr::InvalidQos(b)), format!("suback code {:#04x} at {}", b, site.idx))
        }
        Entry::V5Reason => {
            let table = reason_codes(ty);
            if table.is_empty() {
                return None; // (an earlier edit of the chain changed the type nibble)
            }
            // neighbours of legal codes, codes of other packet types, or any byte
            let mut b = match t.pick(4) {
                0 => table[t.pick(table.len())].wrapping_add(1),
                1 => [0x01u8, 0x04, 0x10, 0x11, 0x18, 0x19, 0x80, 0x92, 0x9E, 0xA2, 0xA3, 0xFF][t.pick(12)],
                _ => t.u8(),
            };
            while table.contains(&b) {
                b = b.wrapping_add(1);
            }
            match &mut w.body {
                Body::Connack { code, .. } => *code = b,
                Body::Ack { reason: Some(r), .. } | Body::Reason { reason: Some(r), .. } => *r = b,
                Body::Suback { codes, .. } => *codes.get_mut(site.idx)? = b,
                _ => return None,
            }
            (all(ExpErr::InvalidReasonCode(ty, b)), format!("reason code {:#04x} not in the table of {}", b, type_name(ty)))
        }
        Entry::SubOpt => {
            let cur = match &w.body {
                Body::Subscribe { topics, .. } => topics.get(site.idx)?.1,
                _ => return None,
            };
            let b = match t.pick(4) {
                0 => cur | 0x40,
                1 => cur | 0x80,
                2 => cur | 0b11,
                _ => cur | 0b11_0000,
            };
            if let Body::Subscribe { topics, .. } = &mut w.body {
                topics[site.idx].1 = b;
            }
            (all(ExpErr::InvalidSubscriptionOption(b)), format!("subscription options {:#010b} in entry {}", b, site.idx))
        }
        Entry::NonUtf8 | Entry::NameWild | Entry::RespTopic | Entry::BadFilter => {
            let fs = fields(&w);
            let (path, _) = fs.get(site.idx)?.clone();
            let f = field_mut(&mut w, &path)?;
            if f.len() >= 65_535 {
                return None;
            }
            match site.entry {
                Entry::NonUtf8 => {
                    // several shapes of ill-formed UTF-8 (MQTT 1.5.4: also surrogates and overlong forms)
                    let shapes: [&[u8]; 10] = [&[0xFF], &[0x80], &[0xC3], &[0xE2, 0x82], &[0xED, 0xA0, 0x80], &[0xC0, 0x80], &[0xF4, 0x90, 0x80, 0x80], &[0xF0, 0x9F, 0x98], &[0xED, 0xA0, 0xBD, 0xED, 0xB8, 0x80], &[0xED, 0xAF, 0xBF, 0xED, 0xBF, 0xBF]];
                    // (the last two: a well-formed pair of encoded surrogates, CESU-8 / Java modified UTF-8)
                    let k = t.weighted(&[4, 1, 1, 1, 1, 1, 1, 1, 1, 1]);
                    let shape = shapes[k];
                    let how = if f.is_empty() || k >= 2 {
                        // truncated / ill-formed sequence at the end of the string (or spliced at a boundary)
                        let s = std::str::from_utf8(f).ok()?;
                        let mut i = if t.flag() { s.len() } else { t.pick(s.len() + 1) };
                        while !s.is_char_boundary(i) {
                            i -= 1;
                        }
                        if matches!(k, 2 | 3 | 7) {
                            i = s.len(); // incomplete sequences are only ill-formed at the end or before ASCII
                        }
                        for (j, b) in shape.iter().enumerate() {
                            f.insert(i + j, *b);
                        }
                        "inserted"
                    } else {
                        let i = t.pick(f.len());
                        f[i] = shape[0];
                        "overwrote a byte"
                    };
                    if f.len() > 65_535 || std::str::from_utf8(f).is_ok() {
                        return None;
                    }
                    (all(ExpErr::InvalidString), format!("ill-formed UTF-8 {:02x?} {} in {:?}", shape, how, path))
                }
                Entry::NameWild | Entry::RespTopic => {
                    let c = [b'+', b'#', 0u8][t.pick(3)];
                    let s = std::str::from_utf8(f).ok()?;
                    let mut i = t.pick(s.len() + 1);
                    while !s.is_char_boundary(i) {
                        i -= 1;
                    }
                    f.insert(i, c);
                    let s = lossy(f);
                    if site.entry == Entry::RespTopic {
                        (all(ExpErr::InvalidResponseTopic), format!("{:?} inserted in response topic {:?}", c as char, path))
                    } else {
                        (all(ExpErr::InvalidTopicName(s)), format!("{:?} inserted in {:?}", c as char, path))
                    }
                }
                _ => {
                    // half of the time a listed one; otherwise built level by level (up to five levels out of the shapes the
                    // validator distinguishes, optionally behind a share prefix) and kept if the specification calls it invalid
                    let mut s = BAD_FILTERS[t.pick(BAD_FILTERS.len())].to_string();
                    if t.flag() {
                        const LV: [&str; 14] = ["", "+", "#", "a", "a+", "+a", "#a", "a#", "sport", "$share", "$SYS", "\u{e9}", "a\0b", "+#"];
                        for _ in 0..4 {
                            let n = 1 + t.pick(5);
                            let mut c = (0..n).map(|_| LV[t.weighted(&[2, 4, 6, 4, 1, 1, 1, 1, 2, 1, 1, 1, 1, 1])]).collect::<Vec<_>>().join("/");
                            if t.chance(1, 4) {
                                c = format!("$share/{}/{}", ["g", "g", "g\0h", "\0", "g+", "g#"][t.pick(6)], c);
                            }
                            if !crate::specpred::filter_valid(&c) {
                                s = c;
                                break;
                            }
                        }
                    }
                    *f = s.as_bytes().to_vec();
                    (all(ExpErr::InvalidTopicFilter(s.clone())), format!("filter {:?} replaced by {:?}", path, s))
                }
            }
        }
        Entry::Utf8Straddle => {
            // a multi-byte character split across the two strings of a user property: the pair is
            // well-formed only when read as one buffer
            let in_will = site.idx >= 1000;
            let ps = if in_will { will_props_mut(&mut w) } else { main_props_mut(&mut w) }?;
            let p = ps.items.get_mut(site.idx % 1000)?;
            if let PVal::Pair(a, b) = &mut p.val {
                if a.len() + 3 > 65_535 || b.len() + 3 > 65_535 {
                    return None;
                }
                let (head, tail): (&[u8], &[u8]) = [(&[0xE4u8, 0xBD][..], &[0xA0u8][..]), (&[0xC3][..], &[0xA9][..]), (&[0xF0, 0x9F][..], &[0x98, 0x80][..]), (&[0xE2][..], &[0x82, 0xAC][..])][t.pick(4)];
                a.extend_from_slice(head);
                let mut nb = tail.to_vec();
                nb.extend_from_slice(b);
                *b = nb;
            } else {
                return None;
            }
            (all(ExpErr::InvalidString), "multi-byte character split across the name and value of a user property".into())
        }
        Entry::PropUnknown => {
            let id = [0x00u8, 0x04, 0x7F, 0x80, 0xFF, 0x2B, 0x0A, 0x14][t.pick(8)];
            let in_will = site.idx % 2 == 1;
            let ps = if in_will { will_props_mut(&mut w) } else { main_props_mut(&mut w) }?;
            let at = match site.idx / 2 {
                0 => 0,
                1 => ps.items.len(),
                _ => ps.items.len() / 2,
            };
            let mut spelled: Option<(Expect, String)> = None;
            if !ps.items.is_empty() && t.chance(1, 3) {
                // an existing property whose identifier is spelled like a two-byte variable byte integer (0x80|id, 2k):
                // read as one byte it is an unknown identifier; folded back onto eight bits it would be the original one.
                // Half of the time the declared section length is one short, so that a reader that takes both bytes for
                // the identifier finds the lengths consistent.
                let j = t.pick(ps.items.len());
                let old = ps.items[j].clone();
                if old.id < 0x80 {
                    let single = Props { items: vec![old.clone()], declared: None, width: 0 };
                    let sec = crate::model::serialize_props(&single);
                    let lw = varint_min_width(single.body_len() as u32);
                    let mut raw = vec![2 * (1 + t.pick(3)) as u8];
                    raw.extend_from_slice(&sec[lw + 1..]);
                    let nid = 0x80 | old.id;
                    ps.items[j] = Prop { id: nid, val: PVal::Raw(raw) };
                    let short = t.flag();
                    if short {
                        ps.declared = Some(ps.body_len() as u32 - 1);
                    }
                    spelled = Some((all(ExpErr::InvalidPropertyId(nid)), format!("identifier of property {:#04x} spelled as the two-byte variable byte integer {:#04x} xx{}", old.id, nid, if short { ", section length declared one short" } else { "" })));
                }
            }
            match spelled {
                Some(x) => x,
                None => {
                    ps.items.insert(at, Prop { id, val: PVal::Raw(vec![]) });
                    (all(ExpErr::InvalidPropertyId(id)), format!("unknown property id {:#04x} at position {} of the {} list", id, at, if in_will { "will" } else { "packet" }))
                }
            }
        }
        Entry::PropDup => {
            let in_will = site.idx >= 1000;
            let ps = if in_will { will_props_mut(&mut w) } else { main_props_mut(&mut w) }?;
            let p = ps.items.get(site.idx % 1000)?.clone();
            let id = p.id;
            ps.items.push(p);
            (all(ExpErr::DuplicatedProperty(id)), format!("second copy of property {:#04x}", id))
        }
        Entry::PropForeign | Entry::WillPropForeign => {
            let ctx = if site.entry == Entry::WillPropForeign { CTX_WILL } else { ty };
            let cands: Vec<u8> = PROP_TABLE.iter().filter(|e| e.3 & (1 << ctx) == 0).map(|e| e.0).collect();
            let id = cands[t.pick(cands.len())];
            let val = sample_value(id, t);
            let ps = if ctx == CTX_WILL { will_props_mut(&mut w) } else { main_props_mut(&mut w) }?;
            let at = match site.idx {
                0 => 0,
                1 => ps.items.len(),
                _ => ps.items.len() / 2,
            };
            ps.items.insert(at, Prop { id, val });
            if ctx == CTX_WILL {
                (all(ExpErr::InvalidWillProperty(id)), format!("property {:#04x} not allowed in will properties", id))
            } else {
                (all(ExpErr::InvalidProperty(ty, id)), format!("property {:#04x} not allowed in {}", id, type_name(ty)))
            }
        }
        Entry::PropLen => {
            let ps = if site.idx == 1 { will_props_mut(&mut w) } else { main_props_mut(&mut w) }?;
            let actual = ps.body_len() as u32;
            if actual == 0 || varint_min_width(actual) != varint_min_width(actual - 1) {
                return None;
            }
            ps.declared = Some(actual - 1);
            (all(ExpErr::InvalidPropertyLength(actual - 1)), format!("property length declared {} for {} bytes", actual - 1, actual))
        }
        Entry::ConnFlagNoField => {
            // the announced field is simply not there: the frame is complete and too short, like an inner length that runs
            // past its end
            match &mut w.body {
                Body::Connect { flags, username, password, .. } => {
                    if site.idx == 0 {
                        if username.is_some() || password.is_some() {
                            return None;
                        }
                        *flags |= 0x80;
                    } else {
                        if password.is_some() {
                            return None;
                        }
                        // (the user name, if there is one, stays; in v5 a password needs no user name, in the v3 family the
                        // library accepts that too: pinned leniency L3)
                        *flags |= 0x40;
                    }
                }
                _ => return None,
            }
            let bytes = serialize(&w)?;
            return Some(Mutated { bytes, expect: Expect::InnerPastEnd, desc: format!("{} flag set, the field itself absent", if site.idx == 0 { "user name" } else { "password" }) });
        }
        Entry::PayloadFormat => {
            // one of the ill-formed UTF-8 shapes at the front, in the middle or at the end of the payload
            let shapes: [&[u8]; 8] = [b"\xFF", b"\x80", b"\xC3", b"\xE2\x82", b"\xF0\x9F\x98", b"\xED\xA0\x80", b"\xC0\x80", b"\xF4\x90\x80\x80"];
            let bad = shapes[t.pick(shapes.len())];
            let payload: &mut Vec<u8> = match (&mut w.body, site.idx) {
                (Body::Publish { payload, .. }, 0) => payload,
                (Body::Connect { will: Some(wl), .. }, 1) => &mut wl.payload,
                _ => return None,
            };
            if payload.len() + bad.len() > 65_000 {
                return None;
            }
            // where: the front, the end, the middle, or (long payloads) just before / at a power-of-two offset, which is
            // where a validator that works block by block changes blocks. Always on a character boundary of the valid
            // payload, so that a truncated sequence is followed by a lead byte or the end and stays ill-formed.
            let want = match t.pick(if payload.len() > 300 { 6 } else { 3 }) {
                0 => 0,
                1 => payload.len(),
                2 => payload.len() / 2,
                _ => {
                    let mut pw = 256usize;
                    let mut cands: Vec<usize> = Vec::new();
                    while pw <= payload.len() {
                        cands.push(pw);
                        pw *= 2;
                    }
                    let c = cands[t.pick(cands.len())];
                    c.saturating_sub(t.pick(4)).min(payload.len())
                }
            };
            let mut at = want.min(payload.len());
            while at > 0 && at < payload.len() && (payload[at] & 0xC0) == 0x80 {
                at -= 1;
            }
            for (i, b) in bad.iter().enumerate() {
                payload.insert(at + i, *b);
            }
            (all(ExpErr::InvalidPayloadFormat), format!("{} payload flagged as UTF-8 with the ill-formed bytes {} at offset {}", if site.idx == 0 { "PUBLISH" } else { "will" }, crate::model::hex(bad), at))
        }
        Entry::PropBool => {
            let in_will = site.idx >= 1000;
            let ps = if in_will { will_props_mut(&mut w) } else { main_props_mut(&mut w) }?;
            let p = ps.items.get_mut(site.idx % 1000)?;
            let b = bad_byte(t, 2);
            p.val = PVal::Byte(b);
            (all(ExpErr::InvalidByteProperty(p.id, b)), format!("byte property {:#04x} with value {}", p.id, b))
        }
        Entry::VarInt5 => {
            match site.idx {
                0 => w.rl_width = 5,
                1 => main_props_mut(&mut w)?.width = 5,
                2 => will_props_mut(&mut w)?.width = 5,
                _ => {
                    let ps = main_props_mut(&mut w)?;
                    let p = ps.items.iter_mut().find(|p| matches!(p.val, PVal::VarInt(..)))?;
                    if let PVal::VarInt(_, wd) = &mut p.val {
                        *wd = 5;
                    }
                }
            }
            (all(ExpErr::InvalidVarByteInt), format!("five-byte variable byte integer ({})", ["remaining length", "property length", "will property length", "subscription identifier"][site.idx.min(3)]))
        }
        Entry::ProtoName => {
            let fam_ok: &[(&[u8], u8)] = &[(b"MQIsdp", 3), (b"MQTT", 4), (b"MQTT", 5)];
            let cands: &[(&[u8], u8)] =
                &[(b"MQTT", 6), (b"MQTT", 3), (b"MQIsdp", 4), (b"mqtt", 4), (b"", 4), (b"MQTTX", 5), (b"MQIsdp", 5), (b"MQTT", 0), (b"MQTT", 0x84), (b"MQTT", 0x85), (b"MQIsdp", 0x83), (b"MQTT", 0x04 | 0x40), (b"MQTT", 255), (b"MQIsdp", 0x03 | 0x10)];
            let (n, l) = cands[site.idx % cands.len()];
            if fam_ok.contains(&(n, l)) {
                return None;
            }
            match &mut w.body {
                Body::Connect { name, level, .. } => {
                    *name = n.to_vec();
                    *level = l;
                }
                _ => return None,
            }
            (all(ExpErr::InvalidProtocol(lossy(n), l)), format!("protocol ({:?}, {})", lossy(n), l))
        }
        Entry::ProtoFamily => {
            let (n, l): (&[u8], u8) = if v5 {
                [(&b"MQTT"[..], 4u8), (&b"MQIsdp"[..], 3u8)][site.idx % 2]
            } else {
                (&b"MQTT"[..], 5u8)
            };
            match &mut w.body {
                Body::Connect { name, level, .. } => {
                    *name = n.to_vec();
                    *level = l;
                }
                _ => return None,
            }
            (all(ExpErr::UnexpectedProtocol(l)), format!("the other family's protocol ({:?}, {})", lossy(n), l))
        }
        Entry::EmptySub => {
            match &mut w.body {
                Body::Subscribe { topics, .. } => topics.clear(),
                Body::Unsubscribe { topics, .. } => topics.clear(),
                _ => return None,
            }
            (all(ExpErr::EmptySubscription), "empty subscription list".into())
        }
        Entry::RlStrict | Entry::RlSmall | Entry::InnerPastEnd | Entry::PropLenPastEnd if w.rl_delta != 0 || w.rl_width != 0 || !w.trailing.is_empty() => {
            // the length entries assume a consistently framed base packet
            return None;
        }
        Entry::RlStrict => {
            // over-declared (trailing bytes inside the frame) or under-declared (frame cut short)
            let k = 1 + t.pick(3);
            if site.idx == 0 {
                if matches!(ty, T_PUBLISH | T_SUBSCRIBE | T_UNSUBSCRIBE | T_SUBACK) || (v5 && ty == T_UNSUBACK) {
                    return None; // not self-delimiting: extra bytes are payload / further entries
                }
                w.trailing = (0..k).map(|_| t.u8()).collect();
                let bytes = serialize(&w)?;
                let r = crate::refdec::refdec(w.fam, &bytes);
                if !matches!(r, Err(crate::refdec::Reject::Trailing) | Err(crate::refdec::Reject::BodyLength)) {
                    return None;
                }
                return Some(Mutated { bytes, expect: Expect::PollOnly(ExpErr::InvalidRemainingLength), desc: format!("{} trailing bytes inside the frame", k) });
            } else {
                let full = serialize(&w)?;
                let (hl, rl) = crate::refdec::frame_bounds(&full).ok()?;
                if rl < k || full.len() < hl + k {
                    return None;
                }
                let mut bytes = vec![w.first];
                write_varint(&mut bytes, (rl - k) as u32, 0);
                bytes.extend_from_slice(&full[hl..full.len() - k]);
                let r = crate::refdec::refdec(w.fam, &bytes);
                if !matches!(r, Err(crate::refdec::Reject::Truncated) | Err(crate::refdec::Reject::PropertyLength)) {
                    return None;
                }
                return Some(Mutated { bytes, expect: Expect::PollOnly(ExpErr::InvalidRemainingLength), desc: format!("frame cut short by {} bytes (remaining length adjusted)", k) });
            }
        }
        Entry::RlSmall => {
            // declared remaining length smaller than the mandatory fields, body bytes still present
            let full = serialize(&w)?;
            let (hl, rl) = crate::refdec::frame_bounds(&full).ok()?;
            let mandatory = match &w.body {
                Body::Publish { topic, pid, .. } => 2 + topic.len() + if pid.is_some() { 2 } else { 0 },
                Body::Subscribe { .. } | Body::Unsubscribe { .. } | Body::Suback { .. } => 2,
                _ => return None,
            };
            if mandatory == 0 || rl == 0 {
                return None;
            }
            let declared = t.pick(mandatory.min(rl));
            let mut bytes = vec![w.first];
            write_varint(&mut bytes, declared as u32, 0);
            bytes.extend_from_slice(&full[hl..]);
            return Some(Mutated { bytes, expect: Expect::All(ExpErr::InvalidRemainingLength), desc: format!("remaining length {} declared, mandatory fields need {}", declared, mandatory) });
        }
        Entry::PropLenPastEnd => {
            // the property section is the last thing in the frame and declares 1..3 bytes more than
            // the frame holds (an inner length running past the end of the frame)
            let (bytes, spans) = serialize_spans(&w, true)?;
            let actual = main_props(&w)?.body_len();
            let pl = spans.iter().rev().find(|sp| sp.kind == Kind::PropLen && !sp.label.starts_with("will"))?;
            if pl.end + actual != bytes.len() {
                return None; // something follows the properties
            }
            let k = 1 + t.pick(3) as u32;
            if varint_min_width(actual as u32) != varint_min_width(actual as u32 + k) {
                return None;
            }
            main_props_mut(&mut w)?.declared = Some(actual as u32 + k);
            let b = serialize(&w)?;
            if b.len() != bytes.len() {
                return None;
            }
            return Some(Mutated { bytes: b, expect: Expect::InnerPastEnd, desc: format!("property length declares {} bytes more than the frame holds", k) });
        }
        Entry::InnerPastEnd => {
            let (bytes, spans) = serialize_spans(&w, true)?;
            let last = spans.last()?;
            if last.end != bytes.len() || !matches!(last.kind, Kind::StrData | Kind::BinData) {
                return None;
            }
            let len_span = &spans[spans.len() - 2];
            if !matches!(len_span.kind, Kind::StrLen | Kind::BinLen) || len_span.end != last.start {
                return None;
            }
            let cur = u16::from_be_bytes([bytes[len_span.start], bytes[len_span.start + 1]]) as usize;
            let k = 1 + t.pick(3);
            if cur + k > 65_535 {
                return None;
            }
            let mut b = bytes.clone();
            b[len_span.start..len_span.start + 2].copy_from_slice(&((cur + k) as u16).to_be_bytes());
            return Some(Mutated { bytes: b, expect: Expect::InnerPastEnd, desc: format!("length of the last field ({}) raised by {} past the end of the frame", last.label, k) });
        }
    };
    let bytes = serialize(&w)?;
    *out_w = Some(w);
    Some(Mutated { bytes, expect, desc })
}

// ---------------------------------------------------------------------------------------
// benign re-spellings (frames the library's encoder never emits but the grammar allows)

pub fn respell(w: &mut WPacket, t: &mut Tape, allow_non_minimal: bool) -> Vec<&'static str> {
    let mut tags = Vec::new();
    let v5 = w.fam == Fam::V5;
    let ty = w.typ();
    // short forms for acks / disconnect / auth when nothing would be lost
    match &mut w.body {
        Body::Ack { reason, props, .. } if v5 && ty != T_UNSUBACK => {
            let empty = props.as_ref().map(|p| p.items.is_empty()).unwrap_or(true);
            if empty {
                match t.pick(3) {
                    0 => {}
                    1 => {
                        *props = None;
                        tags.push("ack:reason-only");
                    }
                    _ => {
                        if *reason == Some(0) || reason.is_none() {
                            *props = None;
                            *reason = None;
                            tags.push("ack:short");
                        }
                    }
                }
                if props.is_some() {
                    tags.push("ack:explicit-empty-properties");
                }
            }
        }
        Body::Reason { reason, props } => {
            let empty = props.as_ref().map(|p| p.items.is_empty()).unwrap_or(true);
            if empty {
                match t.pick(3) {
                    0 => {}
                    1 => {
                        if ty == T_DISCONNECT {
                            *props = None;
                            tags.push("disconnect:reason-only");
                        }
                    }
                    _ => {
                        if *reason == Some(0) || reason.is_none() {
                            *props = None;
                            *reason = None;
                            tags.push("reason:short");
                        }
                    }
                }
                if props.is_some() {
                    tags.push("reason:explicit-empty-properties");
                }
            }
        }
        _ => {}
    }
    // property order
    for in_will in [false, true] {
        let ps = if in_will { will_props_mut(w) } else { main_props_mut(w) };
        if let Some(ps) = ps {
            if ps.items.len() >= 2 && t.flag() {
                let n = ps.items.len();
                for i in (1..n).rev() {
                    let j = t.pick(i + 1);
                    ps.items.swap(i, j);
                }
                tags.push("properties:shuffled");
            }
            if allow_non_minimal && t.chance(1, 6) {
                ps.width = 2 + t.pick(3) as u8;
                tags.push("non-minimal:property-length");
            }
        }
    }
    if allow_non_minimal && t.chance(1, 5) {
        w.rl_width = 2 + t.pick(3) as u8;
        tags.push("non-minimal:remaining-length");
    }
    tags
}

// ---------------------------------------------------------------------------------------
// byte-level mutations

pub fn reframe(first: u8, body: &[u8]) -> Vec<u8> {
    let mut v = vec![first];
    write_varint(&mut v, (body.len() as u32).min(268_435_455), 0);
    v.extend_from_slice(body);
    v
}

/// mutates a byte string in place; returns a tag naming the operator
pub fn byte_mutate(b: &mut Vec<u8>, other: &[u8], t: &mut Tape) -> &'static str {
    let n = b.len();
    match t.pick(10) {
        0 if n > 0 => {
            let i = t.pick(n);
            b[i] ^= 1 << t.pick(8);
            "bitflip"
        }
        1 if n > 0 => {
            let i = t.pick(n);
            b[i] = [0x00, 0xFF, 0x7F, 0x80, 0x01, 0x26][t.pick(6)];
            "byteset"
        }
        2 => {
            let i = t.pick(n + 1);
            b.insert(i, t.u8());
            "insert"
        }
        3 if n > 0 => {
            let i = t.pick(n);
            b.remove(i);
            "delete"
        }
        4 if n > 0 => {
            let k = t.pick(n);
            b.truncate(k);
            "truncate"
        }
        5 => {
            let k = 1 + t.pick(6);
            for _ in 0..k {
                b.push(t.u8());
            }
            "extend"
        }
        6 if n > 0 && !other.is_empty() => {
            let i = t.pick(n);
            let j = t.pick(other.len());
            b.truncate(i);
            b.extend_from_slice(&other[j..]);
            "splice"
        }
        7 if n > 1 => {
            // set the remaining length to an extreme value
            let v: u32 = [0, 1, 0x7F, 0x80, 0x3FFF, 0x4000, 0x1F_FFFF, 0x0FFF_FFFF][t.pick(8)];
            let first = b[0];
            let body: Vec<u8> = match crate::refdec::frame_bounds(b) {
                Ok((hl, _)) => b[hl.min(n)..].to_vec(),
                Err(_) => b[1..].to_vec(),
            };
            b.clear();
            b.push(first);
            write_varint(b, v, 0);
            b.extend_from_slice(&body);
            "remaining-length-edit"
        }
        8 if n > 3 => {
            // overwrite two adjacent bytes (a likely inner length) with an extreme value
            let i = t.pick(n - 1);
            let v: u16 = [0, 1, 0xFFFF, 0x7FFF, 0x0100, (n as u16).wrapping_add(1)][t.pick(6)];
            b[i..i + 2].copy_from_slice(&v.to_be_bytes());
            "u16-edit"
        }
        _ => {
            if n > 0 {
                let i = t.pick(n);
                b[i] = t.u8();
            } else {
                b.push(t.u8());
            }
            "byterand"
        }
    }
}
