//! Known findings: `/verif/known_findings.txt`, committed, never written at run time.
//! `finding: property=<id> sig=<signature> <free text>` lines are tolerated by exact
//! signature; `fixed:` lines are documentation and suppress nothing.

use std::sync::OnceLock;

struct Entry {
    prop: String,
    sig: String,
    text: String,
}

static TABLE: OnceLock<Vec<Entry>> = OnceLock::new();

pub fn load(root: &std::path::Path) {
    let mut v = Vec::new();
    if let Ok(s) = std::fs::read_to_string(root.join("known_findings.txt")) {
        for line in s.lines() {
            let line = line.trim();
            if let Some(rest) = line.strip_prefix("finding:") {
                let mut prop = String::new();
                let mut sig = String::new();
                let mut text = Vec::new();
                for tok in rest.split_whitespace() {
                    if let Some(p) = tok.strip_prefix("property=") {
                        prop = p.to_string();
                    } else if let Some(p) = tok.strip_prefix("sig=") {
                        sig = p.to_string();
                    } else {
                        text.push(tok);
                    }
                }
                if !prop.is_empty() && !sig.is_empty() {
                    v.push(Entry { prop, sig, text: text.join(" ") });
                }
            }
        }
    }
    let _ = TABLE.set(v);
}

pub fn listed(prop: &str, sig: &str) -> bool {
    TABLE.get().map(|t| t.iter().any(|e| e.prop == prop && e.sig == sig)).unwrap_or(false)
}

pub fn describe(prop: &str, sig: &str) -> String {
    TABLE
        .get()
        .and_then(|t| t.iter().find(|e| e.prop == prop && e.sig == sig))
        .map(|e| e.text.clone())
        .unwrap_or_default()
}
