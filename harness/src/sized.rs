//! Boundary-size constructions shared by C01, C02, C09, C10 (and sampled by C07/C14): packets whose
//! remaining length or whose v5 property section has an exact target length around the
//! variable-byte-integer width boundaries, and large payloads that are flagged as UTF-8.
//! A case is identified by three numbers (kind, type index, target) so that it is replayable.

use crate::fam::Family;
use crate::gen::{self, GenCfg};
use crate::model::Fam;
use crate::tape::Tape;
use mqtt_proto::v5;
use std::sync::Arc;

pub const K_PAYLOAD: u64 = 0; // PUBLISH with the given remaining length
pub const K_PROPS: u64 = 1; // packet of type `typ` whose property section is exactly `target` bytes (v5)
pub const K_WILL_PROPS: u64 = 2; // CONNECT whose will property section is exactly `target` bytes (v5)
pub const K_UTF8_PAYLOAD: u64 = 3; // v5 PUBLISH flagged UTF-8 with a multi-byte payload of `target` bytes

pub const K_MANY: u64 = 4; // SUBSCRIBE / SUBACK / UNSUBSCRIBE / (v5) UNSUBACK with `target` list entries
pub const K_MANY_USER: u64 = 5; // v5 packet of type `typ` with `target` (tiny) user properties
pub const K_MANY_WILL_USER: u64 = 6; // v5 CONNECT whose will carries `target` user properties

pub fn kind_name(k: u64) -> &'static str {
    match k {
        K_PAYLOAD => "sized-payload",
        K_PROPS => "sized-properties",
        K_WILL_PROPS => "sized-will-properties",
        K_MANY => "many-list-entries",
        K_MANY_USER => "many-user-properties",
        K_MANY_WILL_USER => "many-will-user-properties",
        _ => "utf8-flagged-payload",
    }
}

/// list lengths around the widths a counter might have (u8, u16) and a few in between
pub const MANY_COUNTS: [u64; 9] = [255, 256, 257, 1_000, 4_096, 65_535, 65_536, 65_537, 70_001];

fn many_filter(i: usize) -> mqtt_proto::TopicFilter {
    // distinct, short, valid; every 7th one is shared, every 5th ends in a wildcard
    let s = match (i % 7, i % 5) {
        (0, _) => format!("$share/g{}/t/{}", i % 3, i),
        (_, 0) => format!("t/{}/#", i),
        (_, 1) => format!("t/+/{}", i),
        _ => format!("t/{}", i),
    };
    std::convert::TryFrom::try_from(s).expect("valid filter")
}

fn many_user_props(n: usize) -> Vec<v5::UserProperty> {
    let v = Arc::new("v".to_string());
    (0..n).map(|i| v5::UserProperty { name: Arc::new(format!("k{}", i % 1000)), value: if i % 2 == 0 { v.clone() } else { Arc::new(String::new()) } }).collect()
}

pub fn build_v3(kind: u64, typ: usize, n: usize) -> Option<mqtt_proto::v3::Packet> {
    use mqtt_proto::{v3, Pid, QoS};
    if kind != K_MANY || n == 0 {
        return None;
    }
    let pid = Pid::try_from(0x1234u16).ok()?;
    let qos = [QoS::Level0, QoS::Level1, QoS::Level2];
    let codes = [v3::SubscribeReturnCode::MaxLevel0, v3::SubscribeReturnCode::MaxLevel1, v3::SubscribeReturnCode::MaxLevel2, v3::SubscribeReturnCode::Failure];
    Some(match typ {
        7 => v3::Packet::Subscribe(v3::Subscribe::new(pid, (0..n).map(|i| (many_filter(i), qos[i % 3])).collect())),
        8 => v3::Packet::Suback(v3::Suback::new(pid, (0..n).map(|i| codes[i % 4]).collect())),
        9 => v3::Packet::Unsubscribe(v3::Unsubscribe::new(pid, (0..n).map(many_filter).collect())),
        _ => return None,
    })
}

fn build_many_v5(kind: u64, typ: usize, n: usize) -> Option<v5::Packet> {
    use mqtt_proto::{Pid, QoS};
    let pid = Pid::try_from(0x1234u16).ok()?;
    match kind {
        K_MANY => {
            if n == 0 {
                return None;
            }
            let qos = [QoS::Level0, QoS::Level1, QoS::Level2];
            let rh = [v5::RetainHandling::SendAtSubscribe, v5::RetainHandling::SendAtSubscribeIfNotExist, v5::RetainHandling::DoNotSend];
            Some(match typ {
                7 => v5::Packet::Subscribe(v5::Subscribe::new(
                    pid,
                    (0..n)
                        .map(|i| {
                            // No-Local on a shared subscription is a protocol error the codec does not police; keep it off there
                            let f = many_filter(i);
                            let o = v5::SubscriptionOptions { max_qos: qos[i % 3], no_local: i % 2 == 1 && !f.is_shared(), retain_as_published: i % 4 < 2, retain_handling: rh[(i / 3) % 3] };
                            (f, o)
                        })
                        .collect(),
                )),
                8 => v5::Packet::Suback(v5::Suback::new(pid, (0..n).map(|i| gen::SUBACK_REASONS[i % gen::SUBACK_REASONS.len()]).collect())),
                9 => v5::Packet::Unsubscribe(v5::Unsubscribe::new(pid, (0..n).map(many_filter).collect())),
                10 => v5::Packet::Unsuback(v5::Unsuback::new(pid, (0..n).map(|i| gen::UNSUBACK_REASONS[i % gen::UNSUBACK_REASONS.len()]).collect())),
                _ => return None,
            })
        }
        K_MANY_USER => {
            let mut t = Tape::new(&[]);
            let mut p = gen::gen_v5_of_type(&mut t, &GenCfg::SMALL, typ).ok()?;
            *gen::user_props_mut(&mut p)? = many_user_props(n);
            Some(p)
        }
        K_MANY_WILL_USER => {
            let mut t = Tape::new(&[]);
            let mut c = gen::gen_v5_connect(&mut t, &GenCfg::SMALL).ok()?;
            let topic = std::convert::TryFrom::try_from("w/t".to_string()).ok()?;
            let mut w = v5::LastWill::new(QoS::Level2, topic, bytes::Bytes::from_static(b"bye"));
            w.properties.user_properties = many_user_props(n);
            c.last_will = Some(w);
            Some(v5::Packet::Connect(c))
        }
        _ => None,
    }
}

/// user properties whose encoded size (5 + name + value each) adds up to exactly `total` (>= 5)
pub fn user_props_of_size(total: usize) -> Vec<v5::UserProperty> {
    let mut v = Vec::new();
    let mut left = total;
    let big = Arc::new("v".repeat(65_535));
    let name = Arc::new("n".repeat(65_535));
    while left >= 131_075 + 5 {
        v.push(v5::UserProperty { name: name.clone(), value: big.clone() });
        left -= 131_075;
    }
    if left >= 5 {
        let body = left - 5;
        let (n, val) = if body <= 65_535 { (0, body) } else { (body - 65_535, 65_535) };
        // multi-byte characters where they fit, so that the strings are not plain ASCII
        let mk = |k: usize| -> String {
            let mut s = String::with_capacity(k);
            while s.len() + 2 <= k && s.len() < 64 {
                s.push('\u{e9}');
            }
            while s.len() < k {
                s.push('u');
            }
            s
        };
        v.push(v5::UserProperty { name: Arc::new(mk(n)), value: Arc::new(mk(val)) });
    }
    v
}

pub fn build<F: Family>(kind: u64, typ: usize, target: usize) -> Option<F::Packet> {
    match kind {
        K_PAYLOAD => {
            let fixed = if F::FAM == Fam::V5 { 4 } else { 3 };
            if target < fixed {
                return None;
            }
            Some(F::publish_with_payload(vec![0u8; target - fixed]))
        }
        _ => F::build_sized(kind, typ, target),
    }
}

/// v5 only: the sized-properties / will / utf8 constructions
pub fn build_v5(kind: u64, typ: usize, target: usize) -> Option<v5::Packet> {
    let mut t = Tape::new(&[]);
    if matches!(kind, K_MANY | K_MANY_USER | K_MANY_WILL_USER) {
        return build_many_v5(kind, typ, target);
    }
    match kind {
        K_PROPS => {
            let mut p = gen::gen_v5_of_type(&mut t, &GenCfg::SMALL, typ).ok()?;
            // reason codes other than the default so that short forms do not hide the section
            let base = crate::fam::V5::project(&p);
            let cur = crate::mutate::main_props(&base).map(|x| x.body_len())?;
            if target < cur + 5 && target != cur {
                return None;
            }
            let ups = gen::user_props_mut(&mut p)?;
            if target > cur {
                *ups = user_props_of_size(target - cur);
            }
            Some(p)
        }
        K_WILL_PROPS => {
            let mut c = gen::gen_v5_connect(&mut t, &GenCfg::SMALL).ok()?;
            let topic = std::convert::TryFrom::try_from("w/t".to_string()).ok()?;
            let mut w = v5::LastWill::new(mqtt_proto::QoS::Level1, topic, bytes::Bytes::from_static(b"bye"));
            if target < 5 && target != 0 {
                return None;
            }
            w.properties.user_properties = if target == 0 { Vec::new() } else { user_props_of_size(target) };
            c.last_will = Some(w);
            Some(v5::Packet::Connect(c))
        }
        K_UTF8_PAYLOAD => {
            // "a" followed by two-byte characters: every even offset of the payload is inside a character
            let mut s = String::with_capacity(target);
            s.push('a');
            let fill = ['\u{e9}', '\u{20ac}', '\u{1F600}'][typ % 3];
            while s.len() + fill.len_utf8() <= target {
                s.push(fill);
            }
            while s.len() < target {
                s.push('z');
            }
            let topic = std::convert::TryFrom::try_from("t".to_string()).ok()?;
            let mut pb = v5::Publish::new(mqtt_proto::QosPid::Level0, topic, bytes::Bytes::from(s.into_bytes()));
            pb.properties.payload_is_utf8 = Some(true);
            Some(v5::Packet::Publish(pb))
        }
        _ => None,
    }
}

/// the list of (kind, typ, target) cases for a family and tier
pub fn cases(fam: Fam, thorough: bool) -> Vec<[u64; 3]> {
    let mut v: Vec<[u64; 3]> = Vec::new();
    let small: &[u64] = &[4, 5, 6, 126, 127, 128, 129, 130, 131, 16_382, 16_383, 16_384, 16_385, 16_386, 16_387, 16_388];
    let mb2: &[u64] = &[2_097_150, 2_097_151, 2_097_152, 2_097_153, 2_097_154, 2_097_155, 2_097_156, 2_097_157];
    for t in small.iter().chain(mb2.iter()) {
        v.push([K_PAYLOAD, 2, *t]);
    }
    // beyond 16 MiB (pre-allocation limits, chunked reads) and, in the thorough tier, further powers of two
    let big: &[u64] = if thorough {
        &[16_777_215, 16_777_216, 16_777_217, 16_777_219, 20_000_000, 33_554_431, 33_554_433, 67_108_865, 134_217_729]
    } else {
        &[16_777_216, 16_777_217, 20_000_001]
    };
    for t in big {
        v.push([K_PAYLOAD, 2, *t]);
    }
    if fam == Fam::V5 {
        let ptargets: &[u64] = &[0, 5, 6, 120, 121, 122, 123, 124, 125, 126, 127, 128, 129, 130, 16_378, 16_379, 16_380, 16_381, 16_382, 16_383, 16_384, 16_385, 16_386, 16_387];
        for typ in 0..gen::V5_TYPES as u64 {
            if typ == 11 || typ == 12 {
                continue;
            }
            for t in ptargets {
                v.push([K_PROPS, typ, *t]);
            }
            let big: &[u64] = if thorough || matches!(typ, 1 | 2 | 13) { mb2 } else { &mb2[2..4] };
            for t in big {
                v.push([K_PROPS, typ, *t]);
            }
        }
        for t in ptargets.iter().chain(if thorough { mb2.iter() } else { mb2[1..5].iter() }) {
            v.push([K_WILL_PROPS, 0, *t]);
        }
        // (fill character index, payload bytes): "a" + fill*: with 2- and 4-byte fills every power-of-two
        // offset falls inside a character
        let utf: &[(u64, u64)] = if thorough {
            &[(0, 4_097), (1, 8_193), (2, 65_537), (0, 1_048_577), (0, 4_194_305), (1, 4_194_400), (2, 4_194_400), (0, 8_388_609), (2, 16_777_300), (1, 16_777_301)]
        } else {
            &[(0, 4_097), (1, 8_193), (2, 65_537), (0, 1_048_577), (0, 4_194_400), (2, 4_194_401)]
        };
        for (f, t) in utf {
            v.push([K_UTF8_PAYLOAD, *f, *t]);
        }
    }
    // long lists: counts around the widths a counter might have
    let counts: &[u64] = if thorough { &MANY_COUNTS } else { &MANY_COUNTS[..8] };
    for typ in [7u64, 8, 9, 10] {
        if typ == 10 && fam == Fam::V3 {
            continue;
        }
        for n in counts {
            v.push([K_MANY, typ, *n]);
        }
    }
    if fam == Fam::V5 {
        for typ in [0u64, 1, 2, 3, 6, 7, 8, 9, 10, 13, 14] {
            let cs: &[u64] = if thorough || matches!(typ, 2 | 9 | 13) { counts } else { &[256, 65_536] };
            for n in cs {
                v.push([K_MANY_USER, typ, *n]);
            }
        }
        for n in counts {
            v.push([K_MANY_WILL_USER, 0, *n]);
        }
    }
    v
}

/// builds the case named by nums = [kind, typ, target] and labels it
pub fn from_input<F: Family>(input: &crate::run::Input, ctx: &mut crate::run::Ctx) -> Option<F::Packet> {
    let n = input.nums();
    if n.len() < 3 {
        return None;
    }
    let p = build::<F>(n[0], n[1] as usize, n[2] as usize);
    match &p {
        Some(_) => {
            ctx.label(kind_name(n[0]));
            if n[2] >= 2_097_150 {
                ctx.label("sized:2MiB-boundary");
            }
            if matches!(n[0], K_MANY | K_MANY_USER | K_MANY_WILL_USER) {
                ctx.label(if n[2] > 65_535 { "list-longer-than-65535" } else if n[2] > 255 { "list-longer-than-255" } else { "list-of-255" });
            }
        }
        None => ctx.label("sized:not-constructible"),
    }
    p
}

pub fn inputs(fam: Fam, thorough: bool) -> Vec<crate::run::Input> {
    cases(fam, thorough).into_iter().map(|c| crate::run::Input::Nums(c.to_vec())).collect()
}

/// encodings of the sized constructions as byte inputs (for the decoder-facing checks)
pub fn encoded_inputs<F: Family>(thorough: bool, max_total: usize) -> Vec<crate::run::Input> {
    let mut v = Vec::new();
    for c in cases(F::FAM, thorough) {
        if c[2] as usize > max_total {
            continue;
        }
        // the 2 MiB property constructions are kept to a few types to bound the cost
        if c[0] == K_PROPS && c[2] >= 2_000_000 && !matches!(c[1], 1 | 2 | 13) {
            continue;
        }
        if let Some(p) = build::<F>(c[0], c[1] as usize, c[2] as usize) {
            if let Ok(b) = F::encode(&p) {
                v.push(crate::run::Input::Bytes(b.as_ref().to_vec()));
            }
        }
    }
    v
}
