//! `project`: library packet value -> wire-level model, through name-keyed tables written
//! from the specification. Never uses `as u8` on a library enum: the numeric value of every
//! variant is spelled out here, so a wrong discriminant in the library is visible.

use crate::model::*;
use mqtt_proto::{v3, v5, Protocol, QoS, QosPid};

pub fn qos_num(q: QoS) -> u8 {
    match q {
        QoS::Level0 => 0,
        QoS::Level1 => 1,
        QoS::Level2 => 2,
    }
}

pub fn proto_pair(p: Protocol) -> (&'static [u8], u8) {
    match p {
        Protocol::V310 => (b"MQIsdp", 3),
        Protocol::V311 => (b"MQTT", 4),
        Protocol::V500 => (b"MQTT", 5),
    }
}

fn publish_first(dup: bool, retain: bool, qp: QosPid) -> (u8, Option<u16>) {
    let (q, pid) = match qp {
        QosPid::Level0 => (0u8, None),
        QosPid::Level1(p) => (1, Some(p.value())),
        QosPid::Level2(p) => (2, Some(p.value())),
    };
    ((T_PUBLISH << 4) | ((dup as u8) << 3) | (q << 1) | retain as u8, pid)
}

fn connect_flags(clean: bool, will: Option<(u8, bool)>, user: bool, pass: bool) -> u8 {
    let mut f = 0u8;
    if clean {
        f |= 0b10;
    }
    if let Some((q, r)) = will {
        f |= 0b100 | (q << 3);
        if r {
            f |= 0b10_0000;
        }
    }
    if pass {
        f |= 0b100_0000;
    }
    if user {
        f |= 0b1000_0000;
    }
    f
}

pub fn v3_return_code(c: v3::ConnectReturnCode) -> u8 {
    use v3::ConnectReturnCode::*;
    match c {
        Accepted => 0,
        UnacceptableProtocolVersion => 1,
        IdentifierRejected => 2,
        ServerUnavailable => 3,
        BadUserNameOrPassword => 4,
        NotAuthorized => 5,
    }
}

pub fn v3_suback_code(c: v3::SubscribeReturnCode) -> u8 {
    use v3::SubscribeReturnCode::*;
    match c {
        MaxLevel0 => 0,
        MaxLevel1 => 1,
        MaxLevel2 => 2,
        Failure => 0x80,
    }
}

pub fn project_v3(p: &v3::Packet) -> WPacket {
    use v3::Packet as P;
    let (first, body) = match p {
        P::Connect(c) => {
            let (name, level) = proto_pair(c.protocol);
            let will = c.last_will.as_ref().map(|w| (qos_num(w.qos), w.retain));
            (
                T_CONNECT << 4,
                Body::Connect {
                    name: name.to_vec(),
                    level,
                    flags: connect_flags(c.clean_session, will, c.username.is_some(), c.password.is_some()),
                    keep_alive: c.keep_alive,
                    props: None,
                    client_id: c.client_id.as_bytes().to_vec(),
                    will: c.last_will.as_ref().map(|w| Will {
                        props: None,
                        topic: w.topic_name.as_bytes().to_vec(),
                        payload: w.message.to_vec(),
                    }),
                    username: c.username.as_ref().map(|u| u.as_bytes().to_vec()),
                    password: c.password.as_ref().map(|u| u.to_vec()),
                },
            )
        }
        P::Connack(c) => (
            T_CONNACK << 4,
            Body::Connack { flags: c.session_present as u8, code: v3_return_code(c.code), props: None },
        ),
        P::Publish(pb) => {
            let (first, pid) = publish_first(pb.dup, pb.retain, pb.qos_pid);
            (
                first,
                Body::Publish { topic: pb.topic_name.as_bytes().to_vec(), pid, props: None, payload: pb.payload.to_vec() },
            )
        }
        P::Puback(pid) => (T_PUBACK << 4, Body::Ack { pid: pid.value(), reason: None, props: None }),
        P::Pubrec(pid) => (T_PUBREC << 4, Body::Ack { pid: pid.value(), reason: None, props: None }),
        P::Pubrel(pid) => ((T_PUBREL << 4) | 2, Body::Ack { pid: pid.value(), reason: None, props: None }),
        P::Pubcomp(pid) => (T_PUBCOMP << 4, Body::Ack { pid: pid.value(), reason: None, props: None }),
        P::Unsuback(pid) => (T_UNSUBACK << 4, Body::Ack { pid: pid.value(), reason: None, props: None }),
        P::Subscribe(s) => (
            (T_SUBSCRIBE << 4) | 2,
            Body::Subscribe {
                pid: s.pid.value(),
                props: None,
                topics: s.topics.iter().map(|(f, q)| (f.as_bytes().to_vec(), qos_num(*q))).collect(),
            },
        ),
        P::Suback(s) => (
            T_SUBACK << 4,
            Body::Suback { pid: s.pid.value(), props: None, codes: s.topics.iter().map(|c| v3_suback_code(*c)).collect() },
        ),
        P::Unsubscribe(s) => (
            (T_UNSUBSCRIBE << 4) | 2,
            Body::Unsubscribe {
                pid: s.pid.value(),
                props: None,
                topics: s.topics.iter().map(|f| f.as_bytes().to_vec()).collect(),
            },
        ),
        P::Pingreq => (T_PINGREQ << 4, Body::Empty),
        P::Pingresp => (T_PINGRESP << 4, Body::Empty),
        P::Disconnect => (T_DISCONNECT << 4, Body::Empty),
    };
    WPacket::new(Fam::V3, first, body)
}

// ---------------------------------------------------------------------------------------
// v5

pub fn connect_reason(c: v5::ConnectReasonCode) -> u8 {
    use v5::ConnectReasonCode::*;
    match c {
        Success => 0x00,
        UnspecifiedError => 0x80,
        MalformedPacket => 0x81,
        ProtocolError => 0x82,
        ImplementationSpecificError => 0x83,
        UnsupportedProtocolVersion => 0x84,
        ClientIdentifierNotValid => 0x85,
        BadUserNameOrPassword => 0x86,
        NotAuthorized => 0x87,
        ServerUnavailable => 0x88,
        ServerBusy => 0x89,
        Banned => 0x8A,
        BadAuthMethod => 0x8C,
        TopicNameInvalid => 0x90,
        PacketTooLarge => 0x95,
        QuotaExceeded => 0x97,
        PayloadFormatInvalid => 0x99,
        RetainNotSupported => 0x9A,
        QoSNotSupported => 0x9B,
        UseAnotherServer => 0x9C,
        ServerMoved => 0x9D,
        ConnectionRateExceeded => 0x9F,
    }
}

pub fn disconnect_reason(c: v5::DisconnectReasonCode) -> u8 {
    use v5::DisconnectReasonCode::*;
    match c {
        NormalDisconnect => 0x00,
        DisconnectWithWillMessage => 0x04,
        UnspecifiedError => 0x80,
        MalformedPacket => 0x81,
        ProtocolError => 0x82,
        ImplementationSpecificError => 0x83,
        NotAuthorized => 0x87,
        ServerBusy => 0x89,
        ServerShuttingDown => 0x8B,
        KeepAliveTimeout => 0x8D,
        SessionTakenOver => 0x8E,
        TopicFilterInvalid => 0x8F,
        TopicNameInvalid => 0x90,
        ReceiveMaximumExceeded => 0x93,
        TopicAliasInvalid => 0x94,
        PacketTooLarge => 0x95,
        MessageRateTooHigh => 0x96,
        QuotaExceeded => 0x97,
        AdministrativeAction => 0x98,
        PayloadFormatInvalid => 0x99,
        RetainNotSupported => 0x9A,
        QoSNotSupported => 0x9B,
        UserAnotherServer => 0x9C,
        ServerMoved => 0x9D,
        SharedSubscriptionNotSupported => 0x9E,
        ConnectionRateExceeded => 0x9F,
        MaximumConnectTime => 0xA0,
        SubscriptionIdentifiersNotSupported => 0xA1,
        WildcardSubscriptionsNotSupported => 0xA2,
    }
}

pub fn auth_reason(c: v5::AuthReasonCode) -> u8 {
    use v5::AuthReasonCode::*;
    match c {
        Success => 0x00,
        ContinueAuthentication => 0x18,
        ReAuthentication => 0x19,
    }
}

pub fn puback_reason(c: v5::PubackReasonCode) -> u8 {
    use v5::PubackReasonCode::*;
    match c {
        Success => 0x00,
        NoMatchingSubscribers => 0x10,
        UnspecifiedError => 0x80,
        ImplementationSpecificError => 0x83,
        NotAuthorized => 0x87,
        TopicNameInvalid => 0x90,
        PacketIdentifierInUse => 0x91,
        QuotaExceeded => 0x97,
        PayloadFormatInvalid => 0x99,
    }
}

pub fn pubrec_reason(c: v5::PubrecReasonCode) -> u8 {
    use v5::PubrecReasonCode::*;
    match c {
        Success => 0x00,
        NoMatchingSubscribers => 0x10,
        UnspecifiedError => 0x80,
        ImplementationSpecificError => 0x83,
        NotAuthorized => 0x87,
        TopicNameInvalid => 0x90,
        PacketIdentifierInUse => 0x91,
        QuotaExceeded => 0x97,
        PayloadFormatInvalid => 0x99,
    }
}

pub fn pubrel_reason(c: v5::PubrelReasonCode) -> u8 {
    use v5::PubrelReasonCode::*;
    match c {
        Success => 0x00,
        PacketIdentifierNotFound => 0x92,
    }
}

pub fn pubcomp_reason(c: v5::PubcompReasonCode) -> u8 {
    use v5::PubcompReasonCode::*;
    match c {
        Success => 0x00,
        PacketIdentifierNotFound => 0x92,
    }
}

pub fn suback_reason(c: v5::SubscribeReasonCode) -> u8 {
    use v5::SubscribeReasonCode::*;
    match c {
        GrantedQoS0 => 0x00,
        GrantedQoS1 => 0x01,
        GrantedQoS2 => 0x02,
        UnspecifiedError => 0x80,
        ImplementationSpecificError => 0x83,
        NotAuthorized => 0x87,
        TopicFilterInvalid => 0x8F,
        PacketIdentifierInUse => 0x91,
        QuotaExceeded => 0x97,
        SharedSubscriptionNotSupported => 0x9E,
        SubscriptionIdentifiersNotSupported => 0xA1,
        WildcardSubscriptionsNotSupported => 0xA2,
    }
}

pub fn unsuback_reason(c: v5::UnsubscribeReasonCode) -> u8 {
    use v5::UnsubscribeReasonCode::*;
    match c {
        Success => 0x00,
        NoSubscriptionExisted => 0x11,
        UnspecifiedError => 0x80,
        ImplementationSpecificError => 0x83,
        NotAuthorized => 0x87,
        TopicFilterInvalid => 0x8F,
        PacketIdentifierInUse => 0x91,
    }
}

pub fn retain_handling(r: v5::RetainHandling) -> u8 {
    use v5::RetainHandling::*;
    match r {
        SendAtSubscribe => 0,
        SendAtSubscribeIfNotExist => 1,
        DoNotSend => 2,
    }
}

pub fn sub_options(o: &v5::SubscriptionOptions) -> u8 {
    qos_num(o.max_qos)
        | ((o.no_local as u8) << 2)
        | ((o.retain_as_published as u8) << 3)
        | (retain_handling(o.retain_handling) << 4)
}

/// spec number of a library `PropertyId` (used when comparing error payloads)
pub fn property_id_num(id: v5::PropertyId) -> u8 {
    use v5::PropertyId::*;
    match id {
        PayloadFormatIndicator => 0x01,
        MessageExpiryInterval => 0x02,
        ContentType => 0x03,
        ResponseTopic => 0x08,
        CorrelationData => 0x09,
        SubscriptionIdentifier => 0x0B,
        SessionExpiryInterval => 0x11,
        AssignedClientIdentifier => 0x12,
        ServerKeepAlive => 0x13,
        AuthenticationMethod => 0x15,
        AuthenticationData => 0x16,
        RequestProblemInformation => 0x17,
        WillDelayInterval => 0x18,
        RequestResponseInformation => 0x19,
        ResponseInformation => 0x1A,
        ServerReference => 0x1C,
        ReasonString => 0x1F,
        ReceiveMaximum => 0x21,
        TopicAliasMaximum => 0x22,
        TopicAlias => 0x23,
        MaximumQoS => 0x24,
        RetainAvailable => 0x25,
        UserProperty => 0x26,
        MaximumPacketSize => 0x27,
        WildcardSubscriptionAvailable => 0x28,
        SubscriptionIdentifierAvailable => 0x29,
        SharedSubscriptionAvailable => 0x2A,
    }
}

pub fn packet_type_num(t: v5::PacketType) -> u8 {
    use v5::PacketType::*;
    match t {
        Connect => 1,
        Connack => 2,
        Publish => 3,
        Puback => 4,
        Pubrec => 5,
        Pubrel => 6,
        Pubcomp => 7,
        Subscribe => 8,
        Suback => 9,
        Unsubscribe => 10,
        Unsuback => 11,
        Pingreq => 12,
        Pingresp => 13,
        Disconnect => 14,
        Auth => 15,
    }
}

struct PB(Vec<Prop>);
impl PB {
    fn byte(&mut self, id: u8, v: Option<bool>) {
        if let Some(v) = v {
            self.0.push(Prop { id, val: PVal::Byte(v as u8) });
        }
    }
    fn u16(&mut self, id: u8, v: Option<u16>) {
        if let Some(v) = v {
            self.0.push(Prop { id, val: PVal::U16(v) });
        }
    }
    fn u32(&mut self, id: u8, v: Option<u32>) {
        if let Some(v) = v {
            self.0.push(Prop { id, val: PVal::U32(v) });
        }
    }
    fn string(&mut self, id: u8, v: Option<&str>) {
        if let Some(v) = v {
            self.0.push(Prop { id, val: PVal::Str(v.as_bytes().to_vec()) });
        }
    }
    fn bin(&mut self, id: u8, v: Option<&[u8]>) {
        if let Some(v) = v {
            self.0.push(Prop { id, val: PVal::Bin(v.to_vec()) });
        }
    }
    fn varint(&mut self, id: u8, v: Option<v5::VarByteInt>) {
        if let Some(v) = v {
            self.0.push(Prop { id, val: PVal::VarInt(v.value(), 0) });
        }
    }
    fn users(&mut self, u: &[v5::UserProperty]) {
        for p in u {
            self.0.push(Prop { id: 0x26, val: PVal::Pair(p.name.as_bytes().to_vec(), p.value.as_bytes().to_vec()) });
        }
    }
    fn done(self) -> Option<Props> {
        Some(Props { items: self.0, declared: None, width: 0 })
    }
}

pub fn connect_props(p: &v5::ConnectProperties) -> Option<Props> {
    let mut b = PB(Vec::new());
    b.u32(0x11, p.session_expiry_interval);
    b.u16(0x21, p.receive_max);
    b.u32(0x27, p.max_packet_size);
    b.u16(0x22, p.topic_alias_max);
    b.byte(0x19, p.request_response_info);
    b.byte(0x17, p.request_problem_info);
    b.string(0x15, p.auth_method.as_ref().map(|s| s.as_str()));
    b.bin(0x16, p.auth_data.as_ref().map(|s| s.as_ref()));
    b.users(&p.user_properties);
    b.done()
}

pub fn will_props(p: &v5::WillProperties) -> Option<Props> {
    let mut b = PB(Vec::new());
    b.u32(0x18, p.delay_interval);
    b.byte(0x01, p.payload_is_utf8);
    b.u32(0x02, p.message_expiry_interval);
    b.string(0x03, p.content_type.as_ref().map(|s| s.as_str()));
    b.string(0x08, p.response_topic.as_ref().map(|s| &**s));
    b.bin(0x09, p.correlation_data.as_ref().map(|s| s.as_ref()));
    b.users(&p.user_properties);
    b.done()
}

pub fn connack_props(p: &v5::ConnackProperties) -> Option<Props> {
    let mut b = PB(Vec::new());
    b.u32(0x11, p.session_expiry_interval);
    b.u16(0x21, p.receive_max);
    if let Some(q) = p.max_qos {
        b.0.push(Prop { id: 0x24, val: PVal::Byte(qos_num(q)) });
    }
    b.byte(0x25, p.retain_available);
    b.u32(0x27, p.max_packet_size);
    b.string(0x12, p.assigned_client_id.as_ref().map(|s| s.as_str()));
    b.u16(0x22, p.topic_alias_max);
    b.string(0x1F, p.reason_string.as_ref().map(|s| s.as_str()));
    b.byte(0x28, p.wildcard_subscription_available);
    b.byte(0x29, p.subscription_id_available);
    b.byte(0x2A, p.shared_subscription_available);
    b.u16(0x13, p.server_keep_alive);
    b.string(0x1A, p.response_info.as_ref().map(|s| s.as_str()));
    b.string(0x1C, p.server_reference.as_ref().map(|s| s.as_str()));
    b.string(0x15, p.auth_method.as_ref().map(|s| s.as_str()));
    b.bin(0x16, p.auth_data.as_ref().map(|s| s.as_ref()));
    b.users(&p.user_properties);
    b.done()
}

pub fn publish_props(p: &v5::PublishProperties) -> Option<Props> {
    let mut b = PB(Vec::new());
    b.byte(0x01, p.payload_is_utf8);
    b.u32(0x02, p.message_expiry_interval);
    b.u16(0x23, p.topic_alias);
    b.string(0x08, p.response_topic.as_ref().map(|s| &**s));
    b.bin(0x09, p.correlation_data.as_ref().map(|s| s.as_ref()));
    b.varint(0x0B, p.subscription_id);
    b.string(0x03, p.content_type.as_ref().map(|s| s.as_str()));
    b.users(&p.user_properties);
    b.done()
}

fn reason_props(reason_string: &Option<std::sync::Arc<String>>, users: &[v5::UserProperty]) -> Option<Props> {
    let mut b = PB(Vec::new());
    b.string(0x1F, reason_string.as_ref().map(|s| s.as_str()));
    b.users(users);
    b.done()
}

pub fn disconnect_props(p: &v5::DisconnectProperties) -> Option<Props> {
    let mut b = PB(Vec::new());
    b.u32(0x11, p.session_expiry_interval);
    b.string(0x1F, p.reason_string.as_ref().map(|s| s.as_str()));
    b.string(0x1C, p.server_reference.as_ref().map(|s| s.as_str()));
    b.users(&p.user_properties);
    b.done()
}

pub fn auth_props(p: &v5::AuthProperties) -> Option<Props> {
    let mut b = PB(Vec::new());
    b.string(0x15, p.auth_method.as_ref().map(|s| s.as_str()));
    b.bin(0x16, p.auth_data.as_ref().map(|s| s.as_ref()));
    b.string(0x1F, p.reason_string.as_ref().map(|s| s.as_str()));
    b.users(&p.user_properties);
    b.done()
}

pub fn subscribe_props(p: &v5::SubscribeProperties) -> Option<Props> {
    let mut b = PB(Vec::new());
    b.varint(0x0B, p.subscription_id);
    b.users(&p.user_properties);
    b.done()
}

pub fn project_v5(p: &v5::Packet) -> WPacket {
    use v5::Packet as P;
    let (first, body) = match p {
        P::Connect(c) => {
            let (name, level) = proto_pair(c.protocol);
            let will = c.last_will.as_ref().map(|w| (qos_num(w.qos), w.retain));
            (
                T_CONNECT << 4,
                Body::Connect {
                    name: name.to_vec(),
                    level,
                    flags: connect_flags(c.clean_start, will, c.username.is_some(), c.password.is_some()),
                    keep_alive: c.keep_alive,
                    props: connect_props(&c.properties),
                    client_id: c.client_id.as_bytes().to_vec(),
                    will: c.last_will.as_ref().map(|w| Will {
                        props: will_props(&w.properties),
                        topic: w.topic_name.as_bytes().to_vec(),
                        payload: w.payload.to_vec(),
                    }),
                    username: c.username.as_ref().map(|u| u.as_bytes().to_vec()),
                    password: c.password.as_ref().map(|u| u.to_vec()),
                },
            )
        }
        P::Connack(c) => (
            T_CONNACK << 4,
            Body::Connack {
                flags: c.session_present as u8,
                code: connect_reason(c.reason_code),
                props: connack_props(&c.properties),
            },
        ),
        P::Publish(pb) => {
            let (first, pid) = publish_first(pb.dup, pb.retain, pb.qos_pid);
            (
                first,
                Body::Publish {
                    topic: pb.topic_name.as_bytes().to_vec(),
                    pid,
                    props: publish_props(&pb.properties),
                    payload: pb.payload.to_vec(),
                },
            )
        }
        P::Puback(a) => (
            T_PUBACK << 4,
            Body::Ack {
                pid: a.pid.value(),
                reason: Some(puback_reason(a.reason_code)),
                props: reason_props(&a.properties.reason_string, &a.properties.user_properties),
            },
        ),
        P::Pubrec(a) => (
            T_PUBREC << 4,
            Body::Ack {
                pid: a.pid.value(),
                reason: Some(pubrec_reason(a.reason_code)),
                props: reason_props(&a.properties.reason_string, &a.properties.user_properties),
            },
        ),
        P::Pubrel(a) => (
            (T_PUBREL << 4) | 2,
            Body::Ack {
                pid: a.pid.value(),
                reason: Some(pubrel_reason(a.reason_code)),
                props: reason_props(&a.properties.reason_string, &a.properties.user_properties),
            },
        ),
        P::Pubcomp(a) => (
            T_PUBCOMP << 4,
            Body::Ack {
                pid: a.pid.value(),
                reason: Some(pubcomp_reason(a.reason_code)),
                props: reason_props(&a.properties.reason_string, &a.properties.user_properties),
            },
        ),
        P::Subscribe(s) => (
            (T_SUBSCRIBE << 4) | 2,
            Body::Subscribe {
                pid: s.pid.value(),
                props: subscribe_props(&s.properties),
                topics: s.topics.iter().map(|(f, o)| (f.as_bytes().to_vec(), sub_options(o))).collect(),
            },
        ),
        P::Suback(s) => (
            T_SUBACK << 4,
            Body::Suback {
                pid: s.pid.value(),
                props: reason_props(&s.properties.reason_string, &s.properties.user_properties),
                codes: s.topics.iter().map(|c| suback_reason(*c)).collect(),
            },
        ),
        P::Unsubscribe(s) => {
            let mut b = PB(Vec::new());
            b.users(&s.properties.user_properties);
            (
                (T_UNSUBSCRIBE << 4) | 2,
                Body::Unsubscribe {
                    pid: s.pid.value(),
                    props: b.done(),
                    topics: s.topics.iter().map(|f| f.as_bytes().to_vec()).collect(),
                },
            )
        }
        P::Unsuback(s) => (
            T_UNSUBACK << 4,
            Body::Suback {
                pid: s.pid.value(),
                props: reason_props(&s.properties.reason_string, &s.properties.user_properties),
                codes: s.topics.iter().map(|c| unsuback_reason(*c)).collect(),
            },
        ),
        P::Pingreq => (T_PINGREQ << 4, Body::Empty),
        P::Pingresp => (T_PINGRESP << 4, Body::Empty),
        P::Disconnect(d) => (
            T_DISCONNECT << 4,
            Body::Reason { reason: Some(disconnect_reason(d.reason_code)), props: disconnect_props(&d.properties) },
        ),
        P::Auth(a) => (
            T_AUTH << 4,
            Body::Reason { reason: Some(auth_reason(a.reason_code)), props: auth_props(&a.properties) },
        ),
    };
    WPacket::new(Fam::V5, first, body)
}
