//! Valid-domain generators for library packet values, driven by a `Tape`.
//! Values are built only through the public constructors, so only in-domain values exist.
//! The C01 domain restrictions are constructed, not filtered (DESIGN.md §3.1).

use crate::model::{self, Fam};
use crate::project;
use crate::tape::Tape;
use bytes::Bytes;
use mqtt_proto::{v3, v5, Pid, Protocol, QoS, QosPid, TopicFilter, TopicName};
use std::convert::TryFrom;
use std::sync::Arc;

#[derive(Clone, Copy, Debug)]
pub struct GenCfg {
    /// largest length class: 3 => <=129, 4 => up to 16 386, 5 => up to 65 535
    pub max_class: usize,
    /// probability (x/16) of the pad-to-boundary post step
    pub pad16: u32,
    /// allow the 2 097 151 / 2 097 152 remaining-length targets
    pub huge: bool,
}

impl GenCfg {
    pub const SMALL: GenCfg = GenCfg { max_class: 3, pad16: 0, huge: false };
    pub const MEDIUM: GenCfg = GenCfg { max_class: 4, pad16: 2, huge: false };
    pub const FULL: GenCfg = GenCfg { max_class: 5, pad16: 3, huge: false };
    pub const HUGE: GenCfg = GenCfg { max_class: 5, pad16: 4, huge: true };
}

/// size mix for checks whose cost grows with the packet size: mostly small packets, some with
/// 16 KiB fields (3-byte headers), in the thorough tier also 64 KiB fields
pub fn cfg_mix(t: &mut Tape, thorough: bool) -> GenCfg {
    match t.pick(8) {
        7 => {
            if thorough {
                GenCfg::FULL
            } else {
                GenCfg::MEDIUM
            }
        }
        6 if thorough => GenCfg::MEDIUM,
        5 if thorough => GenCfg::MEDIUM,
        _ => GenCfg::SMALL,
    }
}

#[derive(Debug)]
pub struct GenError(pub String);

pub fn gen_len(t: &mut Tape, cfg: &GenCfg) -> usize {
    let w: [u32; 6] = [5, 5, 16, 3, 1, 1];
    let mut c = t.weighted(&w[..]);
    if c > cfg.max_class {
        c = 2;
    }
    match c {
        0 => 0,
        1 => 1,
        2 => t.range(2, 20),
        3 => t.range(126, 129),
        4 => t.range(16_381, 16_386),
        _ => 65_534 + t.pick(2),
    }
}

// ordinary characters, MQTT-significant ones, every UTF-8 width, and characters that text-handling
// code likes to treat specially: NUL, control characters and whitespace, BOM / zero-width / line
// separators, a combining mark, the ends of the BMP and of Unicode, the surrogate neighbours
const ALPHA_ANY: &[char] = &[
    'a', 'b', 'Z', '0', ' ', '/', '$', '+', '#', '\u{e9}', '\u{20ac}', '\u{1F600}', '\0', '\u{7f}', '\u{FFFD}', '\u{FFFF}', '\u{FEFF}', '\t', '\n', '\r',
    '\u{85}', '\u{2028}', '\u{200B}', '\u{301}', '\u{10FFFF}', '\u{D7FF}', '\u{E000}', '\u{FFFE}', '\u{80}', '\u{7FF}', '\u{800}', '\u{10000}', '"', '\\',
];
const ALPHA_TOPIC: &[char] = &[
    'a', 'b', 'Z', '0', ' ', '/', '$', '\u{e9}', '\u{20ac}', '\u{1F600}', '\u{7f}', '\u{FFFD}', '\u{FEFF}', '\t', '\n', '\u{85}', '\u{2028}', '\u{200B}', '\u{301}',
    '\u{10FFFF}', '\u{D7FF}', '\u{E000}', '\u{FFFF}', '\u{80}', '\u{800}', '\u{10000}',
];

/// A string of exactly `len` bytes: up to 10 tape-chosen characters, padded with ASCII.
fn string_of(t: &mut Tape, len: usize, alpha: &[char], prefix: &str) -> String {
    let mut s = String::with_capacity(len);
    if prefix.len() <= len {
        s.push_str(prefix);
    }
    let mut n = 0;
    while s.len() < len && n < 10 {
        let c = alpha[t.pick(alpha.len())];
        if s.len() + c.len_utf8() <= len {
            s.push(c);
        }
        n += 1;
    }
    // filler: plain ASCII, or a multi-byte character repeated so that long strings contain
    // multi-byte sequences at every offset class (chunked validators, boundary arithmetic)
    let filler: char = if len - s.len() >= 8 { ['x', 'x', '\u{e9}', '\u{20ac}', '\u{1F600}'][t.pick(5)] } else { 'x' };
    if filler != 'x' && t.flag() && s.len() < len {
        s.push('y'); // shifts the multi-byte characters onto odd offsets
    }
    while s.len() + filler.len_utf8() <= len {
        s.push(filler);
    }
    while s.len() < len {
        s.push('x');
    }
    s
}

/// Texts with the conventional syntax of the fields they usually sit in (MIME content types with parameters, URIs,
/// client identifiers, reason phrases, key=value pairs): code that looks *into* a text field only reacts to these.
const REALISTIC: &[&str] = &[
    "text/plain; charset=iso-8859-1",
    "text/plain;charset=us-ascii",
    "application/json; charset=utf-16",
    "text/plain; charset=utf-8",
    "application/octet-stream",
    "application/x-protobuf; proto=telemetry.v1",
    "mqtt://broker.example.com:1883",
    "tls://10.0.0.1:8883/path?x=1&y=2",
    "sensor-0001",
    "mqttjs_8f3a9c2e",
    "Not authorized",
    "Quota exceeded: retry after 30s",
    "content-type",
    "x-trace-id",
    "00-4bf92f3577b34da6a3ce929d0e0e4736-00f067aa0ba902b7-01",
    "Basic dXNlcjpwYXNz",
    "SCRAM-SHA-256",
    "GS2-KRB5",
    "user@example.com",
    "null",
    "true",
    "0",
];

pub fn gen_string(t: &mut Tape, cfg: &GenCfg) -> String {
    let len = gen_len(t, cfg);
    if t.chance(1, 12) {
        return REALISTIC[t.pick(REALISTIC.len())].to_string();
    }
    string_of(t, len, ALPHA_ANY, "")
}

pub fn gen_arc_string(t: &mut Tape, cfg: &GenCfg) -> Arc<String> {
    Arc::new(gen_string(t, cfg))
}

/// the Content Type next to a payload; when the payload is flagged as UTF-8 it names a character set one time in three
/// (what the type *says* about the payload must not change what the flag demands)
fn gen_content_type(t: &mut Tape, cfg: &GenCfg, flagged: bool) -> Option<Arc<String>> {
    if flagged && t.chance(1, 3) {
        const CT: [&str; 6] = ["text/plain; charset=iso-8859-1", "text/plain;charset=us-ascii", "application/json; charset=utf-16", "text/plain; charset=utf-8", "text/html; charset=\"windows-1252\"", "application/octet-stream"];
        return Some(Arc::new(CT[t.pick(CT.len())].to_string()));
    }
    opt(t, |t| gen_arc_string(t, cfg))
}

pub fn gen_bytes(t: &mut Tape, cfg: &GenCfg) -> Bytes {
    let len = gen_len(t, cfg);
    // one binary value in ten describes itself: a big-endian u16 / u32 length of what follows, or a length-prefixed text
    // (values that look like the framing they are put into)
    if len >= 3 && len <= 65_535 && t.chance(1, 10) {
        let mut v: Vec<u8> = Vec::with_capacity(len);
        match t.pick(3) {
            0 => v.extend_from_slice(&((len - 2) as u16).to_be_bytes()),
            1 if len >= 5 => v.extend_from_slice(&((len - 4) as u32).to_be_bytes()),
            _ => {
                v.extend_from_slice(&((len - 2) as u16).to_be_bytes());
                while v.len() < len {
                    v.push(b'a' + (v.len() % 26) as u8);
                }
            }
        }
        while v.len() < len {
            v.push(t.u8());
        }
        v.truncate(len);
        return Bytes::from(v);
    }
    let mut v = Vec::with_capacity(len);
    let mut n = 0;
    while v.len() < len && n < 12 {
        v.push(t.u8());
        n += 1;
    }
    // deterministic non-UTF-8 filler
    while v.len() < len {
        v.push((0x80 + (v.len() % 0x7F)) as u8);
    }
    Bytes::from(v)
}

pub fn gen_topic_name(t: &mut Tape, cfg: &GenCfg) -> Result<TopicName, GenError> {
    let len = gen_len(t, cfg);
    let prefix = ["", "", "", "$share/", "$SYS/", "/"][t.pick(6)];
    let s = string_of(t, len, ALPHA_TOPIC, prefix);
    if !crate::specpred::name_valid(&s) {
        return Err(GenError(format!("MQV-INTERNAL: the topic name generator produced {:?}, which the MQTT rule does not allow", s)));
    }
    TopicName::try_from(s.clone()).map_err(|e| GenError(format!("valid topic name {:?} refused by the constructor: {:?}", s, e)))
}

const LEVELS: &[&str] = &["a", "", "bc", "+", "\u{e9}\u{1F600}", "$x", "Z 0", "x", "\u{FEFF}b", " ", "\u{301}\u{10FFFF}", "a\tb", "$share", "$SYS", "\u{FFFF}\u{FDD0}", "\u{7f}\u{85}"];

pub fn gen_filter_string(t: &mut Tape, cfg: &GenCfg) -> String {
    let mut s = String::new();
    let shared = t.chance(1, 5);
    if shared {
        s.push_str("$share/");
        // share names include the prefix word itself, names that contain it, and characters that sort before '/'
        s.push_str(["g", "grp", "\u{e9}", "$g", "\u{1F600}x", "$share", "$share$share", "g-1", "$SYS", "a b", "x$share"][t.pick(11)]);
        s.push('/');
    }
    let n = 1 + t.weighted(&[6, 5, 3, 2, 1]);
    let mut levels: Vec<String> = Vec::new();
    for _ in 0..n {
        levels.push(LEVELS[t.pick(LEVELS.len())].to_string());
    }
    if t.chance(1, 4) {
        *levels.last_mut().unwrap() = "#".to_string();
    }
    if !shared && levels[0] == "$share" {
        // "$share/..." without a share name and a filter behind it would be a malformed shared filter
        levels[0] = "$shared".to_string();
    }
    // long filters: stretch one ordinary level
    let target = gen_len(t, cfg);
    let body = levels.join("/");
    if body.is_empty() {
        s.push_str(if shared { "a" } else { "/" });
    } else {
        s.push_str(&body);
    }
    if target > s.len() + 2 && target > 129 {
        // append an ordinary level so the total reaches the target length
        let extra = target - s.len() - 1;
        if s.ends_with('#') {
            let pad: String = std::iter::repeat('y').take(extra).collect();
            let at = s.len() - 1;
            s.insert_str(at, &format!("{}/", pad));
            // this adds extra+1 bytes
        } else {
            s.push('/');
            s.extend(std::iter::repeat('y').take(extra));
        }
    }
    s
}

/// One time in five a list of filters gets an entry whose filter repeats an earlier one (a clone, or the same text from
/// a fresh allocation): MQTT allows a filter to occur several times in one SUBSCRIBE / UNSUBSCRIBE, with any options.
fn repeat_filter<T>(t: &mut Tape, topics: &mut Vec<T>, filter_of: impl Fn(&T) -> &TopicFilter, mk: impl FnOnce(&mut Tape, TopicFilter) -> T) {
    if !topics.is_empty() && t.chance(1, 5) {
        let src = filter_of(&topics[t.pick(topics.len())]);
        let f = if t.flag() { src.clone() } else { TopicFilter::try_from(src.to_string()).unwrap_or_else(|_| src.clone()) };
        let at = t.pick(topics.len() + 1);
        let e = mk(t, f);
        topics.insert(at, e);
    }
}

pub fn gen_filter(t: &mut Tape, cfg: &GenCfg) -> Result<TopicFilter, GenError> {
    let s = gen_filter_string(t, cfg);
    if !crate::specpred::filter_valid(&s) {
        // a slip of this generator, not of the library
        return Err(GenError(format!("MQV-INTERNAL: the filter generator produced {:?}, which MQTT 4.7 / 4.8 does not allow", s)));
    }
    TopicFilter::try_from(s.clone())
        .map_err(|e| GenError(format!("valid topic filter {:?} refused by the constructor: {:?}", s, e)))
}

pub fn gen_pid(t: &mut Tape) -> Pid {
    let v = match t.pick(6) {
        0 => 1,
        1 => 65_535,
        2 => 256,
        3 => 255,
        _ => t.u16().max(1),
    };
    Pid::try_from(v).unwrap_or_default()
}

pub fn gen_qos(t: &mut Tape) -> QoS {
    [QoS::Level0, QoS::Level1, QoS::Level2][t.pick(3)]
}

pub fn gen_qos_pid(t: &mut Tape) -> QosPid {
    match t.pick(3) {
        0 => QosPid::Level0,
        1 => QosPid::Level1(gen_pid(t)),
        _ => QosPid::Level2(gen_pid(t)),
    }
}

thread_local! {
    /// 0 = every optional part is an independent choice; 1 = all present; 2 = all absent (set per generated packet)
    static OPT_MODE: std::cell::Cell<u8> = const { std::cell::Cell::new(0) };
}

/// One packet in twelve has *every* optional field and property present, one in twelve none at all: with independent
/// choices a CONNACK with all its 17 kinds of property turns up once in 100,000 packets.
fn choose_opt_mode(t: &mut Tape) {
    // (an exhausted tape picks 0: independent choices, all of which then come out "absent" - the shortest packet)
    OPT_MODE.with(|m| m.set(match t.pick(12) {
        1 => 1,
        2 => 2,
        _ => 0,
    }));
}

fn opt<T>(t: &mut Tape, f: impl FnOnce(&mut Tape) -> T) -> Option<T> {
    let mode = OPT_MODE.with(|m| m.get());
    let take = t.flag();
    if (take && mode != 2) || mode == 1 {
        Some(f(t))
    } else {
        None
    }
}

fn try_opt<T>(t: &mut Tape, f: impl FnOnce(&mut Tape) -> Result<T, GenError>) -> Result<Option<T>, GenError> {
    let mode = OPT_MODE.with(|m| m.get());
    let take = t.flag();
    if (take && mode != 2) || mode == 1 {
        Ok(Some(f(t)?))
    } else {
        Ok(None)
    }
}

// ---------------------------------------------------------------------------------------
// v3

pub const V3_TYPES: usize = 14;

pub fn gen_v3_connect(t: &mut Tape, cfg: &GenCfg, proto: Protocol) -> Result<v3::Connect, GenError> {
    Ok(v3::Connect {
        protocol: proto,
        clean_session: t.flag(),
        keep_alive: t.u16b(),
        client_id: gen_arc_string(t, cfg),
        last_will: try_opt(t, |t| {
            Ok(v3::LastWill { qos: gen_qos(t), retain: t.flag(), topic_name: gen_topic_name(t, cfg)?, message: gen_bytes(t, cfg) })
        })?,
        username: opt(t, |t| gen_arc_string(t, cfg)),
        password: opt(t, |t| gen_bytes(t, cfg)),
    })
}

pub fn gen_v3_of_type(t: &mut Tape, cfg: &GenCfg, typ: usize) -> Result<v3::Packet, GenError> {
    choose_opt_mode(t);
    let r = gen_v3_of_type_inner(t, cfg, typ);
    OPT_MODE.with(|m| m.set(0));
    r
}

fn gen_v3_of_type_inner(t: &mut Tape, cfg: &GenCfg, typ: usize) -> Result<v3::Packet, GenError> {
    use v3::Packet as P;
    Ok(match typ {
        0 => {
            let proto = if t.flag() { Protocol::V310 } else { Protocol::V311 };
            P::Connect(gen_v3_connect(t, cfg, proto)?)
        }
        1 => {
            use v3::ConnectReturnCode::*;
            let codes =
                [Accepted, UnacceptableProtocolVersion, IdentifierRejected, ServerUnavailable, BadUserNameOrPassword, NotAuthorized];
            P::Connack(v3::Connack { session_present: t.flag(), code: codes[t.pick(codes.len())] })
        }
        2 => P::Publish(v3::Publish {
            dup: t.flag(),
            retain: t.flag(),
            qos_pid: gen_qos_pid(t),
            topic_name: gen_topic_name(t, cfg)?,
            payload: gen_bytes(t, cfg),
        }),
        3 => P::Puback(gen_pid(t)),
        4 => P::Pubrec(gen_pid(t)),
        5 => P::Pubrel(gen_pid(t)),
        6 => P::Pubcomp(gen_pid(t)),
        7 => {
            let n = 1 + t.weighted(&[8, 4, 2, 1, 1, 1, 1, 1]);
            let mut topics = Vec::new();
            for _ in 0..n {
                topics.push((gen_filter(t, cfg)?, gen_qos(t)));
            }
            repeat_filter(t, &mut topics, |e| &e.0, |t, f| (f, gen_qos(t)));
            P::Subscribe(v3::Subscribe { pid: gen_pid(t), topics })
        }
        8 => {
            use v3::SubscribeReturnCode::*;
            let codes = [MaxLevel0, MaxLevel1, MaxLevel2, Failure];
            let n = t.weighted(&[2, 6, 4, 2, 1, 1, 1, 1, 1]);
            let topics = (0..n).map(|_| codes[t.pick(4)]).collect();
            P::Suback(v3::Suback { pid: gen_pid(t), topics })
        }
        9 => {
            let n = 1 + t.weighted(&[8, 4, 2, 1, 1, 1, 1, 1]);
            let mut topics = Vec::new();
            for _ in 0..n {
                topics.push(gen_filter(t, cfg)?);
            }
            repeat_filter(t, &mut topics, |e| e, |_, f| f);
            P::Unsubscribe(v3::Unsubscribe { pid: gen_pid(t), topics })
        }
        10 => P::Unsuback(gen_pid(t)),
        11 => P::Pingreq,
        12 => P::Pingresp,
        _ => P::Disconnect,
    })
}

pub fn gen_v3(t: &mut Tape, cfg: &GenCfg) -> Result<v3::Packet, GenError> {
    // weights: variable-length packets more often than the fixed ones
    let typ = t.weighted(&[6, 2, 8, 1, 1, 1, 1, 5, 3, 4, 1, 1, 1, 1]);
    let mut p = gen_v3_of_type(t, cfg, typ)?;
    if cfg.pad16 > 0 && t.chance(cfg.pad16, 16) {
        pad_v3(&mut p, t, cfg);
    }
    Ok(p)
}

fn rl_targets(t: &mut Tape, cfg: &GenCfg) -> usize {
    let base = [127usize, 128, 16_383, 16_384];
    if cfg.huge && t.chance(1, 3) {
        [2_097_151usize, 2_097_152][t.pick(2)]
    } else {
        base[t.pick(4)]
    }
}

/// remaining length of the packet according to the harness' own serialiser
fn model_rl(w: &model::WPacket) -> Option<usize> {
    let b = model::serialize(w)?;
    let (hl, _) = crate::refdec::frame_bounds(&b).ok()?;
    Some(b.len() - hl)
}

fn pad_v3(p: &mut v3::Packet, t: &mut Tape, cfg: &GenCfg) {
    let target = rl_targets(t, cfg);
    if let v3::Packet::Publish(pb) = p {
        if let Some(rl) = model_rl(&project::project_v3(&v3::Packet::Publish(pb.clone()))) {
            if rl <= target {
                let mut v = pb.payload.to_vec();
                v.extend(std::iter::repeat(0xA5u8).take(target - rl));
                pb.payload = Bytes::from(v);
            }
        }
    }
}

// ---------------------------------------------------------------------------------------
// v5

pub const V5_TYPES: usize = 15;

pub fn gen_user_props(t: &mut Tape, cfg: &GenCfg) -> Vec<v5::UserProperty> {
    let mode = OPT_MODE.with(|m| m.get());
    let mut n = t.weighted(&[10, 5, 3, 2, 1, 1, 1]);
    if mode == 1 {
        // (a full packet sometimes carries more entries than any small-collection fast path covers)
        n = if t.chance(1, 4) { 33 + t.pick(16) } else { n.max(1) };
    } else if mode == 2 {
        n = 0;
    }
    let mut v: Vec<v5::UserProperty> = Vec::new();
    for _ in 0..n {
        if !v.is_empty() && t.chance(1, 4) {
            // repeat an earlier entry (same name, possibly same value)
            let e = v[t.pick(v.len())].clone();
            v.push(e);
        } else if !v.is_empty() && t.chance(1, 4) {
            // strings that recur across entries and across the two roles: the new name or value is an earlier entry's
            // name or value (a fresh allocation with the same text, or the same allocation), at least 8 bytes long
            // every other time
            let prev = v[if t.flag() { v.len() - 1 } else { t.pick(v.len()) }].clone();
            let long = Arc::new(format!("trace-id-{}", t.pick(100)));
            let pick = |t: &mut Tape, e: &v5::UserProperty| -> Arc<String> {
                let src = if t.flag() { &e.value } else { &e.name };
                if t.flag() {
                    src.clone()
                } else {
                    Arc::new(src.as_str().to_string())
                }
            };
            let (name, value) = match t.pick(4) {
                0 => (pick(t, &prev), gen_arc_string(t, cfg)),
                1 => (gen_arc_string(t, cfg), pick(t, &prev)),
                2 => (prev.value.clone(), prev.name.clone()),
                _ => {
                    // the previous entry gets a long value first, which then comes back as the next name
                    if let Some(last) = v.last_mut() {
                        last.value = long.clone();
                    }
                    (Arc::new(long.as_str().to_string()), gen_arc_string(t, cfg))
                }
            };
            v.push(v5::UserProperty { name, value });
        } else {
            v.push(v5::UserProperty { name: gen_arc_string(t, cfg), value: gen_arc_string(t, cfg) });
        }
    }
    v
}

fn gen_varbyteint(t: &mut Tape) -> v5::VarByteInt {
    let v: u32 = match t.pick(10) {
        0 => 0,
        1 => 1,
        2 => 127,
        3 => 128,
        4 => 16_383,
        5 => 16_384,
        6 => 2_097_151,
        7 => 2_097_152,
        8 => 268_435_455,
        _ => t.u32() % 268_435_456,
    };
    v5::VarByteInt::try_from(v).unwrap_or_default()
}

/// payload, UTF-8 when required by the payload-format indicator
fn gen_payload(t: &mut Tape, cfg: &GenCfg, utf8: bool) -> Bytes {
    if utf8 {
        // a payload that is flagged as UTF-8 is any well-formed UTF-8: one time in three it leads with a character that
        // text-handling code likes to treat specially (NUL, BOM, a noncharacter, controls, the last code point)
        let mut s = gen_string(t, cfg);
        if t.chance(1, 3) {
            let c = ['\0', '\u{FEFF}', '\u{FFFF}', '\u{FDD0}', '\u{1}', '\u{7f}', '\u{85}', '\u{10FFFF}', '\u{2028}'][t.pick(9)];
            if s.len() + c.len_utf8() <= 65_535 {
                s.insert(0, c);
            }
        }
        Bytes::from(s.into_bytes())
    } else {
        gen_bytes(t, cfg)
    }
}

pub fn gen_v5_connect(t: &mut Tape, cfg: &GenCfg) -> Result<v5::Connect, GenError> {
    let properties = v5::ConnectProperties {
        session_expiry_interval: opt(t, |t| t.u32b()),
        receive_max: opt(t, |t| t.u16b()),
        max_packet_size: opt(t, |t| t.u32b()),
        topic_alias_max: opt(t, |t| t.u16b()),
        request_response_info: opt(t, |t| t.flag()),
        request_problem_info: opt(t, |t| t.flag()),
        user_properties: gen_user_props(t, cfg),
        auth_method: opt(t, |t| gen_arc_string(t, cfg)),
        auth_data: opt(t, |t| gen_bytes(t, cfg)),
    };
    let last_will = try_opt(t, |t| {
        let payload_is_utf8 = opt(t, |t| t.flag());
        let wp = v5::WillProperties {
            delay_interval: opt(t, |t| t.u32b()),
            payload_is_utf8,
            message_expiry_interval: opt(t, |t| t.u32b()),
            content_type: gen_content_type(t, cfg, payload_is_utf8 == Some(true)),
            response_topic: try_opt(t, |t| gen_topic_name(t, cfg))?,
            correlation_data: opt(t, |t| gen_bytes(t, cfg)),
            user_properties: gen_user_props(t, cfg),
        };
        Ok(v5::LastWill {
            qos: gen_qos(t),
            retain: t.flag(),
            topic_name: gen_topic_name(t, cfg)?,
            payload: gen_payload(t, cfg, payload_is_utf8 == Some(true)),
            properties: wp,
        })
    })?;
    Ok(v5::Connect {
        protocol: Protocol::V500,
        clean_start: t.flag(),
        keep_alive: t.u16b(),
        properties,
        client_id: gen_arc_string(t, cfg),
        last_will,
        username: opt(t, |t| gen_arc_string(t, cfg)),
        password: opt(t, |t| gen_bytes(t, cfg)),
    })
}

pub const CONNECT_REASONS: &[v5::ConnectReasonCode] = {
    use v5::ConnectReasonCode::*;
    &[
        Success,
        UnspecifiedError,
        MalformedPacket,
        ProtocolError,
        ImplementationSpecificError,
        UnsupportedProtocolVersion,
        ClientIdentifierNotValid,
        BadUserNameOrPassword,
        NotAuthorized,
        ServerUnavailable,
        ServerBusy,
        Banned,
        BadAuthMethod,
        TopicNameInvalid,
        PacketTooLarge,
        QuotaExceeded,
        PayloadFormatInvalid,
        RetainNotSupported,
        QoSNotSupported,
        UseAnotherServer,
        ServerMoved,
        ConnectionRateExceeded,
    ]
};

pub const DISCONNECT_REASONS: &[v5::DisconnectReasonCode] = {
    use v5::DisconnectReasonCode::*;
    &[
        NormalDisconnect,
        DisconnectWithWillMessage,
        UnspecifiedError,
        MalformedPacket,
        ProtocolError,
        ImplementationSpecificError,
        NotAuthorized,
        ServerBusy,
        ServerShuttingDown,
        KeepAliveTimeout,
        SessionTakenOver,
        TopicFilterInvalid,
        TopicNameInvalid,
        ReceiveMaximumExceeded,
        TopicAliasInvalid,
        PacketTooLarge,
        MessageRateTooHigh,
        QuotaExceeded,
        AdministrativeAction,
        PayloadFormatInvalid,
        RetainNotSupported,
        QoSNotSupported,
        UserAnotherServer,
        ServerMoved,
        SharedSubscriptionNotSupported,
        ConnectionRateExceeded,
        MaximumConnectTime,
        SubscriptionIdentifiersNotSupported,
        WildcardSubscriptionsNotSupported,
    ]
};

pub const PUBACK_REASONS: &[v5::PubackReasonCode] = {
    use v5::PubackReasonCode::*;
    &[
        Success,
        NoMatchingSubscribers,
        UnspecifiedError,
        ImplementationSpecificError,
        NotAuthorized,
        TopicNameInvalid,
        PacketIdentifierInUse,
        QuotaExceeded,
        PayloadFormatInvalid,
    ]
};

pub const PUBREC_REASONS: &[v5::PubrecReasonCode] = {
    use v5::PubrecReasonCode::*;
    &[
        Success,
        NoMatchingSubscribers,
        UnspecifiedError,
        ImplementationSpecificError,
        NotAuthorized,
        TopicNameInvalid,
        PacketIdentifierInUse,
        QuotaExceeded,
        PayloadFormatInvalid,
    ]
};

pub const SUBACK_REASONS: &[v5::SubscribeReasonCode] = {
    use v5::SubscribeReasonCode::*;
    &[
        GrantedQoS0,
        GrantedQoS1,
        GrantedQoS2,
        UnspecifiedError,
        ImplementationSpecificError,
        NotAuthorized,
        TopicFilterInvalid,
        PacketIdentifierInUse,
        QuotaExceeded,
        SharedSubscriptionNotSupported,
        SubscriptionIdentifiersNotSupported,
        WildcardSubscriptionsNotSupported,
    ]
};

pub const UNSUBACK_REASONS: &[v5::UnsubscribeReasonCode] = {
    use v5::UnsubscribeReasonCode::*;
    &[
        Success,
        NoSubscriptionExisted,
        UnspecifiedError,
        ImplementationSpecificError,
        NotAuthorized,
        TopicFilterInvalid,
        PacketIdentifierInUse,
    ]
};

pub const AUTH_REASONS: &[v5::AuthReasonCode] = {
    use v5::AuthReasonCode::*;
    &[Success, ContinueAuthentication, ReAuthentication]
};

fn gen_sub_options(t: &mut Tape) -> v5::SubscriptionOptions {
    use v5::RetainHandling::*;
    v5::SubscriptionOptions {
        max_qos: gen_qos(t),
        no_local: t.flag(),
        retain_as_published: t.flag(),
        retain_handling: [SendAtSubscribe, SendAtSubscribeIfNotExist, DoNotSend][t.pick(3)],
    }
}

pub fn gen_v5_of_type(t: &mut Tape, cfg: &GenCfg, typ: usize) -> Result<v5::Packet, GenError> {
    choose_opt_mode(t);
    let r = gen_v5_of_type_inner(t, cfg, typ);
    OPT_MODE.with(|m| m.set(0));
    r
}

fn gen_v5_of_type_inner(t: &mut Tape, cfg: &GenCfg, typ: usize) -> Result<v5::Packet, GenError> {
    use v5::Packet as P;
    Ok(match typ {
        0 => P::Connect(gen_v5_connect(t, cfg)?),
        1 => {
            let properties = v5::ConnackProperties {
                session_expiry_interval: opt(t, |t| t.u32b()),
                receive_max: opt(t, |t| t.u16b()),
                max_qos: opt(t, |t| if t.flag() { QoS::Level1 } else { QoS::Level0 }),
                retain_available: opt(t, |t| t.flag()),
                max_packet_size: opt(t, |t| t.u32b()),
                assigned_client_id: opt(t, |t| gen_arc_string(t, cfg)),
                topic_alias_max: opt(t, |t| t.u16b()),
                reason_string: opt(t, |t| gen_arc_string(t, cfg)),
                user_properties: gen_user_props(t, cfg),
                wildcard_subscription_available: opt(t, |t| t.flag()),
                subscription_id_available: opt(t, |t| t.flag()),
                shared_subscription_available: opt(t, |t| t.flag()),
                server_keep_alive: opt(t, |t| t.u16b()),
                response_info: opt(t, |t| gen_arc_string(t, cfg)),
                server_reference: opt(t, |t| gen_arc_string(t, cfg)),
                auth_method: opt(t, |t| gen_arc_string(t, cfg)),
                auth_data: opt(t, |t| gen_bytes(t, cfg)),
            };
            P::Connack(v5::Connack {
                session_present: t.flag(),
                reason_code: CONNECT_REASONS[t.pick(CONNECT_REASONS.len())],
                properties,
            })
        }
        2 => {
            let payload_is_utf8 = opt(t, |t| t.flag());
            let properties = v5::PublishProperties {
                payload_is_utf8,
                message_expiry_interval: opt(t, |t| t.u32b()),
                topic_alias: opt(t, |t| t.u16b()),
                response_topic: try_opt(t, |t| gen_topic_name(t, cfg))?,
                correlation_data: opt(t, |t| gen_bytes(t, cfg)),
                user_properties: gen_user_props(t, cfg),
                subscription_id: opt(t, gen_varbyteint),
                content_type: gen_content_type(t, cfg, payload_is_utf8 == Some(true)),
            };
            P::Publish(v5::Publish {
                dup: t.flag(),
                retain: t.flag(),
                qos_pid: gen_qos_pid(t),
                topic_name: gen_topic_name(t, cfg)?,
                payload: gen_payload(t, cfg, payload_is_utf8 == Some(true)),
                properties,
            })
        }
        3 => P::Puback(v5::Puback {
            pid: gen_pid(t),
            reason_code: PUBACK_REASONS[t.pick(PUBACK_REASONS.len())],
            properties: v5::PubackProperties {
                reason_string: opt(t, |t| gen_arc_string(t, cfg)),
                user_properties: gen_user_props(t, cfg),
            },
        }),
        4 => P::Pubrec(v5::Pubrec {
            pid: gen_pid(t),
            reason_code: PUBREC_REASONS[t.pick(PUBREC_REASONS.len())],
            properties: v5::PubrecProperties {
                reason_string: opt(t, |t| gen_arc_string(t, cfg)),
                user_properties: gen_user_props(t, cfg),
            },
        }),
        5 => P::Pubrel(v5::Pubrel {
            pid: gen_pid(t),
            reason_code: [v5::PubrelReasonCode::Success, v5::PubrelReasonCode::PacketIdentifierNotFound][t.pick(2)],
            properties: v5::PubrelProperties {
                reason_string: opt(t, |t| gen_arc_string(t, cfg)),
                user_properties: gen_user_props(t, cfg),
            },
        }),
        6 => P::Pubcomp(v5::Pubcomp {
            pid: gen_pid(t),
            reason_code: [v5::PubcompReasonCode::Success, v5::PubcompReasonCode::PacketIdentifierNotFound][t.pick(2)],
            properties: v5::PubcompProperties {
                reason_string: opt(t, |t| gen_arc_string(t, cfg)),
                user_properties: gen_user_props(t, cfg),
            },
        }),
        7 => {
            let n = 1 + t.weighted(&[8, 4, 2, 1, 1, 1, 1, 1]);
            let mut topics = Vec::new();
            for _ in 0..n {
                topics.push((gen_filter(t, cfg)?, gen_sub_options(t)));
            }
            repeat_filter(t, &mut topics, |e| &e.0, |t, f| (f, gen_sub_options(t)));
            P::Subscribe(v5::Subscribe {
                pid: gen_pid(t),
                properties: v5::SubscribeProperties {
                    subscription_id: opt(t, gen_varbyteint),
                    user_properties: gen_user_props(t, cfg),
                },
                topics,
            })
        }
        8 => {
            let n = t.weighted(&[2, 6, 4, 2, 1, 1, 1, 1, 1]);
            P::Suback(v5::Suback {
                pid: gen_pid(t),
                properties: v5::SubackProperties {
                    reason_string: opt(t, |t| gen_arc_string(t, cfg)),
                    user_properties: gen_user_props(t, cfg),
                },
                topics: (0..n).map(|_| SUBACK_REASONS[t.pick(SUBACK_REASONS.len())]).collect(),
            })
        }
        9 => {
            let n = 1 + t.weighted(&[8, 4, 2, 1, 1, 1, 1, 1]);
            let mut topics = Vec::new();
            for _ in 0..n {
                topics.push(gen_filter(t, cfg)?);
            }
            repeat_filter(t, &mut topics, |e| e, |_, f| f);
            P::Unsubscribe(v5::Unsubscribe {
                pid: gen_pid(t),
                properties: v5::UnsubscribeProperties { user_properties: gen_user_props(t, cfg) },
                topics,
            })
        }
        10 => {
            let n = t.weighted(&[2, 6, 4, 2, 1, 1, 1, 1, 1]);
            P::Unsuback(v5::Unsuback {
                pid: gen_pid(t),
                properties: v5::UnsubackProperties {
                    reason_string: opt(t, |t| gen_arc_string(t, cfg)),
                    user_properties: gen_user_props(t, cfg),
                },
                topics: (0..n).map(|_| UNSUBACK_REASONS[t.pick(UNSUBACK_REASONS.len())]).collect(),
            })
        }
        11 => P::Pingreq,
        12 => P::Pingresp,
        13 => P::Disconnect(v5::Disconnect {
            reason_code: DISCONNECT_REASONS[t.pick(DISCONNECT_REASONS.len())],
            properties: v5::DisconnectProperties {
                session_expiry_interval: opt(t, |t| t.u32b()),
                reason_string: opt(t, |t| gen_arc_string(t, cfg)),
                user_properties: gen_user_props(t, cfg),
                server_reference: opt(t, |t| gen_arc_string(t, cfg)),
            },
        }),
        _ => P::Auth(v5::Auth {
            reason_code: AUTH_REASONS[t.pick(AUTH_REASONS.len())],
            properties: v5::AuthProperties {
                auth_method: opt(t, |t| gen_arc_string(t, cfg)),
                auth_data: opt(t, |t| gen_bytes(t, cfg)),
                reason_string: opt(t, |t| gen_arc_string(t, cfg)),
                user_properties: gen_user_props(t, cfg),
            },
        }),
    })
}

pub fn user_props_mut(p: &mut v5::Packet) -> Option<&mut Vec<v5::UserProperty>> {
    use v5::Packet as P;
    Some(match p {
        P::Connect(x) => &mut x.properties.user_properties,
        P::Connack(x) => &mut x.properties.user_properties,
        P::Publish(x) => &mut x.properties.user_properties,
        P::Puback(x) => &mut x.properties.user_properties,
        P::Pubrec(x) => &mut x.properties.user_properties,
        P::Pubrel(x) => &mut x.properties.user_properties,
        P::Pubcomp(x) => &mut x.properties.user_properties,
        P::Subscribe(x) => &mut x.properties.user_properties,
        P::Suback(x) => &mut x.properties.user_properties,
        P::Unsubscribe(x) => &mut x.properties.user_properties,
        P::Unsuback(x) => &mut x.properties.user_properties,
        P::Disconnect(x) => &mut x.properties.user_properties,
        P::Auth(x) => &mut x.properties.user_properties,
        P::Pingreq | P::Pingresp => return None,
    })
}

fn main_props_len(w: &model::WPacket) -> Option<usize> {
    use model::Body::*;
    match &w.body {
        Connect { props, .. }
        | Connack { props, .. }
        | Publish { props, .. }
        | Ack { props, .. }
        | Subscribe { props, .. }
        | Suback { props, .. }
        | Unsubscribe { props, .. }
        | Reason { props, .. } => props.as_ref().map(|p| p.body_len()),
        Empty => None,
    }
}

fn pad_v5(p: &mut v5::Packet, t: &mut Tape, cfg: &GenCfg) {
    if t.flag() {
        // property length onto a var-int boundary, by one more user property
        let target = [127usize, 128, 16_383, 16_384][t.pick(4)];
        let w = project::project_v5(p);
        if let (Some(cur), Some(ups)) = (main_props_len(&w), user_props_mut(p)) {
            if cur + 5 <= target && target - cur - 5 <= 65_535 {
                let n = target - cur - 5;
                ups.push(v5::UserProperty { name: Arc::new(String::new()), value: Arc::new("p".repeat(n)) });
            }
        }
    } else {
        let target = rl_targets(t, cfg);
        if let v5::Packet::Publish(pb) = p {
            if let Some(rl) = model_rl(&project::project_v5(&v5::Packet::Publish(pb.clone()))) {
                if rl <= target {
                    let mut v = pb.payload.to_vec();
                    // ASCII keeps a payload that is flagged as UTF-8 valid
                    v.extend(std::iter::repeat(b'~').take(target - rl));
                    pb.payload = Bytes::from(v);
                }
            }
        }
    }
}

pub fn gen_v5(t: &mut Tape, cfg: &GenCfg) -> Result<v5::Packet, GenError> {
    let typ = t.weighted(&[6, 5, 8, 3, 2, 2, 2, 5, 3, 4, 3, 1, 1, 3, 3]);
    let mut p = gen_v5_of_type(t, cfg, typ)?;
    if cfg.pad16 > 0 && t.chance(cfg.pad16, 16) {
        pad_v5(&mut p, t, cfg);
    }
    Ok(p)
}

pub fn fam_of(f: Fam) -> &'static str {
    f.name()
}
