//! Byte-string inputs for the decoder-facing checks (C03, C06, C11, C12) and the fuzz targets:
//! valid encodings, re-spelled (long-form, shuffled, non-minimal) frames, lenient framing
//! (over-/under-declared remaining length), catalogue malformations, byte mutations, random bytes.

use crate::fam::Family;
use crate::gen::GenCfg;
use crate::model::{self, serialize};
use crate::mutate;
use crate::tape::Tape;

pub const ORIGINS: &[&str] = &["valid", "valid+suffix", "respelled", "lenient-framing", "catalogue", "byte-mutated", "random", "two-frames-spliced"];

fn valid_bytes<F: Family>(t: &mut Tape, cfg: &GenCfg) -> Option<(F::Packet, Vec<u8>)> {
    let p = F::gen(t, cfg).ok()?;
    let b = F::encode(&p).ok()?.as_ref().to_vec();
    Some((p, b))
}

/// returns (bytes, origin tag)
pub fn gen_input<F: Family>(t: &mut Tape, cfg: &GenCfg) -> (Vec<u8>, &'static str) {
    let kind = t.weighted(&[2, 1, 3, 2, 4, 4, 1, 1]);
    if kind == 6 {
        let n = t.weighted(&[1, 2, 4, 8, 8, 6, 4, 2]) * 2 + t.pick(2);
        let mut v: Vec<u8> = (0..n).map(|_| t.u8()).collect();
        if !v.is_empty() && t.flag() {
            // a plausible control byte so that body decoders are reached
            v[0] = [0x10u8, 0x20, 0x30, 0x32, 0x40, 0x50, 0x62, 0x70, 0x82, 0x90, 0xA2, 0xB0, 0xC0, 0xD0, 0xE0, 0xF0][t.pick(16)];
            if v.len() > 1 && t.flag() {
                v[1] = (v.len() - 2) as u8 & 0x7F;
            }
        }
        return (v, "random");
    }
    let (p, enc) = match valid_bytes::<F>(t, cfg) {
        Some(x) => x,
        None => return (vec![0xC0, 0x00], "valid"),
    };
    match kind {
        0 => (enc, "valid"),
        1 => {
            let mut v = enc;
            let k = 1 + t.pick(6);
            for _ in 0..k {
                v.push(t.u8());
            }
            (v, "valid+suffix")
        }
        2 => {
            let mut w = F::project(&p);
            mutate::respell(&mut w, t, true);
            let mut out = serialize(&w).unwrap_or(enc);
            if t.chance(1, 4) {
                let other = valid_bytes::<F>(t, &GenCfg::SMALL).map(|x| x.1).unwrap_or_default();
                out.extend_from_slice(&other);
            }
            (out, "respelled")
        }
        3 => {
            let mut w = F::project(&p);
            mutate::respell(&mut w, t, false);
            w.rl_delta = [-3i64, -2, -1, 1, 2, 3, 5][t.pick(7)];
            let mut b = serialize(&w).unwrap_or(enc);
            if w.rl_delta > 0 && t.flag() {
                // supply the over-declared bytes so that the frame is complete
                for _ in 0..w.rl_delta {
                    b.push(t.u8());
                }
            }
            (b, "lenient-framing")
        }
        4 => {
            let mut w = F::project(&p);
            mutate::respell(&mut w, t, false);
            let sites = mutate::sites(&w);
            let mut out = serialize(&w).unwrap_or_else(|| enc.clone());
            if sites.is_empty() {
                return (out, "catalogue");
            }
            // one to three catalogue malformations on the same packet, optionally combined with
            // wrong framing (trailing bytes / over- or under-declared remaining length)
            let n = 1 + t.weighted(&[5, 3, 1]);
            let chosen: Vec<mutate::Site> = (0..n).map(|_| sites[t.pick(sites.len())].clone()).collect();
            if t.chance(1, 4) {
                match t.pick(3) {
                    0 => w.trailing = (0..1 + t.pick(3)).map(|_| t.u8()).collect(),
                    1 => w.rl_delta = 1 + t.pick(3) as i64,
                    _ => w.rl_delta = -(1 + t.pick(3) as i64),
                }
            }
            if let Some((b, _names)) = mutate::apply_chain(&w, &chosen, t) {
                out = b;
            }
            if w.rl_delta > 0 && t.flag() {
                for _ in 0..w.rl_delta {
                    out.push(t.u8());
                }
            }
            if t.chance(1, 4) {
                let _ = mutate::byte_mutate(&mut out, &enc, t);
            }
            if t.chance(1, 3) {
                // the stream goes on behind the malformed frame (another packet, or a few arbitrary bytes): a decoder that
                // does not stop at the frame end reads on into it
                if t.flag() {
                    let other = valid_bytes::<F>(t, &GenCfg::SMALL).map(|x| x.1).unwrap_or_default();
                    out.extend_from_slice(&other);
                } else {
                    for _ in 0..1 + t.pick(5) {
                        out.push(t.u8());
                    }
                }
            }
            (out, "catalogue")
        }
        5 => {
            let mut b = enc.clone();
            let other = valid_bytes::<F>(t, &GenCfg::SMALL).map(|x| x.1).unwrap_or_default();
            let n = 1 + t.weighted(&[6, 3, 1]);
            for _ in 0..n {
                mutate::byte_mutate(&mut b, &other, t);
            }
            if t.chance(1, 3) && !b.is_empty() {
                // re-synthesise the header so that the frame stays complete
                let first = b[0];
                let body: Vec<u8> = match crate::refdec::frame_bounds(&b) {
                    Ok((hl, _)) if hl <= b.len() => b[hl..].to_vec(),
                    _ => b[1..].to_vec(),
                };
                b = mutate::reframe(first, &body);
            }
            (b, "byte-mutated")
        }
        _ => {
            let other = valid_bytes::<F>(t, &GenCfg::SMALL).map(|x| x.1).unwrap_or_default();
            let mut v = enc;
            v.extend_from_slice(&other);
            (v, "two-frames-spliced")
        }
    }
}

/// header byte followed by a complete frame? (used to decide non-triviality)
pub fn reaches_body(fam: model::Fam, b: &[u8]) -> bool {
    match crate::refdec::frame_bounds(b) {
        Ok(_) => {
            let t = b[0] >> 4;
            t != 0 && !(t == 15 && fam == model::Fam::V3)
        }
        Err(_) => false,
    }
}
