//! Exhaustive enumeration of short complete frames (for the C04 / C06 / C11 / C12 oracles):
//! every body of 0, 1 and 2 bytes, and bodies of 3..=5 bytes over a reduced byte alphabet,
//! behind a set of control bytes. A block is identified by [first byte, remaining length, start, count].

use crate::run::Input;

/// byte values that matter to the grammar: small integers, flags, boundary values, property ids,
/// reason codes, an ASCII letter and UTF-8 lead/continuation bytes
pub const ALPHA: &[u8] = &[0x00, 0x01, 0x02, 0x03, 0x04, 0x05, 0x10, 0x11, 0x1F, 0x24, 0x26, 0x61, 0x7F, 0x80, 0x84, 0xC3, 0xFF];

/// control bytes: every type with its required flags, plus one wrong flag nibble, plus PUBLISH variants
pub fn control_bytes(all: bool) -> Vec<u8> {
    if all {
        return (0..=255u8).collect();
    }
    let mut v = Vec::new();
    for t in 0..16u8 {
        let req = crate::model::required_flags(t).unwrap_or(0);
        v.push((t << 4) | req);
        v.push((t << 4) | (req ^ 1));
    }
    v.extend([0x30u8, 0x32, 0x34, 0x36, 0x38, 0x3B, 0x3D]);
    v.sort_unstable();
    v.dedup();
    v
}

pub fn body_count(rl: usize) -> u64 {
    if rl <= 2 {
        256u64.pow(rl as u32)
    } else {
        (ALPHA.len() as u64).pow(rl as u32)
    }
}

pub fn frame(first: u8, rl: usize, idx: u64) -> Vec<u8> {
    let mut f = Vec::with_capacity(2 + rl);
    f.push(first);
    f.push(rl as u8);
    let mut i = idx;
    for _ in 0..rl {
        if rl <= 2 {
            f.push((i % 256) as u8);
            i /= 256;
        } else {
            f.push(ALPHA[(i % ALPHA.len() as u64) as usize]);
            i /= ALPHA.len() as u64;
        }
    }
    f
}

pub fn blocks(all_first: bool, max_rl: usize) -> Vec<Input> {
    let mut v = Vec::new();
    for first in control_bytes(all_first) {
        for rl in 0..=max_rl {
            let n = body_count(rl);
            let mut s = 0;
            while s < n {
                let c = 16_384u64.min(n - s);
                v.push(Input::Nums(vec![first as u64, rl as u64, s, c]));
                s += c;
            }
        }
    }
    v
}
