//! C16 (topic filter validation), C17 (shared parts and comparisons), C18 (topic name validation):
//! bounded-exhaustive enumeration of strings over the alphabets the validators distinguish,
//! behind every relevant prefix shape, plus long strings around the 65,535-byte limit.
//! Oracle: the split-based predicates of `specpred`.

use crate::fam::{self, Family, V3, V5};
use crate::model::{self, hex_short, Body, Fam, PVal, Prop, Props, WPacket, Will};
use crate::run::{CaseResult, Ctx, Env, Input, RunResult, Sub, Violation};
use crate::specpred;
use crate::{ensure, viol};
use mqtt_proto::{v5, Error, TopicFilter, TopicName};
use std::collections::hash_map::DefaultHasher;
use std::convert::TryFrom;
use std::hash::{Hash, Hasher};

pub const FILTER_ALPHA: &[char] = &['/', '+', '#', '$', 'a', '\0', '\u{e9}', '\u{1F600}'];
pub const FILTER_PREFIXES: &[&str] =
    &["", "$share/", "$share", "$shar", "$share/g/", "$share//", "$share/g", "$share/\u{e9}/", "$SYS/", "$Share/", "$share/g+/", "$share/\u{1F600}g/"];
pub const NAME_ALPHA: &[char] = &['/', '+', '#', '$', 'a', 'S', '\0', '\u{e9}', '\u{1F600}'];
pub const NAME_PREFIXES: &[&str] = &["", "$share/", "$SYS/", "$share", "$SYS", "$sys/", "$Share/", "$share/g/", "$share//"];

pub fn nth_string(alpha: &[char], len: usize, mut idx: u64, prefix: &str) -> String {
    let mut s = String::with_capacity(prefix.len() + len * 4);
    s.push_str(prefix);
    for _ in 0..len {
        s.push(alpha[(idx % alpha.len() as u64) as usize]);
        idx /= alpha.len() as u64;
    }
    s
}

fn hash_of<T: Hash>(t: &T) -> u64 {
    let mut h = DefaultHasher::new();
    t.hash(&mut h);
    h.finish()
}

fn sub_frame(fam: Fam, typ: u8, filter: &[u8]) -> Vec<u8> {
    sub_frame_multi(fam, typ, &[filter])
}

/// the filter in a frame in which the packet's other optional parts are present too (v5: subscription identifier and
/// user properties, every subscription-option bit that may be set; v3: QoS 2)
fn sub_frame_rich(fam: Fam, typ: u8, filter: &[u8]) -> Vec<u8> {
    let props = if fam == Fam::V5 {
        let mut items = vec![Prop { id: 0x26, val: PVal::Pair(b"k".to_vec(), b"v".to_vec()) }, Prop { id: 0x26, val: PVal::Pair(b"k".to_vec(), b"".to_vec()) }];
        if typ == model::T_SUBSCRIBE {
            items.insert(1, Prop { id: 0x0B, val: PVal::VarInt(268_435_455, 0) });
        }
        Some(Props { items, declared: None, width: 0 })
    } else {
        None
    };
    // No Local is left clear: it is not allowed on a shared subscription and the filter under test may be one
    let opt = if fam == Fam::V5 { 0b0010_1010 } else { 2 };
    let body = if typ == model::T_SUBSCRIBE { Body::Subscribe { pid: 65_535, props, topics: vec![(filter.to_vec(), opt)] } } else { Body::Unsubscribe { pid: 65_535, props, topics: vec![filter.to_vec()] } };
    model::serialize(&WPacket::new(fam, (typ << 4) | 2, body)).unwrap_or_default()
}

fn sub_frame_multi(fam: Fam, typ: u8, filters: &[&[u8]]) -> Vec<u8> {
    sub_frame_multi_opt(fam, typ, filters, 1)
}

/// `neighbour_opt`: the option byte of every entry whose filter is the plain neighbour "ok/+" (v5 only; v3 entries carry QoS 1)
fn sub_frame_multi_opt(fam: Fam, typ: u8, filters: &[&[u8]], neighbour_opt: u8) -> Vec<u8> {
    let props = if fam == Fam::V5 { Some(Props::default()) } else { None };
    let body = if typ == model::T_SUBSCRIBE {
        Body::Subscribe { pid: 1, props, topics: filters.iter().map(|f| (f.to_vec(), if fam == Fam::V5 && *f == b"ok/+" { neighbour_opt } else { 1 })).collect() }
    } else {
        Body::Unsubscribe { pid: 1, props, topics: filters.iter().map(|f| f.to_vec()).collect() }
    };
    model::serialize(&WPacket::new(fam, (typ << 4) | 2, body)).unwrap_or_default()
}

/// the public body-level decoders (`Subscribe::decode_async` etc.) on the body of a frame
fn body_level_filter_decision(fam: Fam, typ: u8, frame: &[u8], text: &str) -> Result<bool, String> {
    use futures_lite::future::block_on;
    let (hl, rl) = crate::refdec::frame_bounds(frame).map_err(|e| format!("MQV-INTERNAL {:?}", e))?;
    let mut r: &[u8] = &frame[hl..];
    let res: Result<(), String> = match (fam, typ) {
        (Fam::V3, model::T_SUBSCRIBE) => block_on(mqtt_proto::v3::Subscribe::decode_async(&mut r, rl)).map(|_| ()).map_err(|e| format!("{:?}", e)),
        (Fam::V3, _) => block_on(mqtt_proto::v3::Unsubscribe::decode_async(&mut r, rl)).map(|_| ()).map_err(|e| format!("{:?}", e)),
        (Fam::V5, t) => {
            let h = mqtt_proto::v5::Header::decode(frame).map_err(|e| format!("v5 header: {:?}", e))?;
            if t == model::T_SUBSCRIBE {
                block_on(mqtt_proto::v5::Subscribe::decode_async(&mut r, h)).map(|_| ()).map_err(|e| format!("{:?}", e))
            } else {
                block_on(mqtt_proto::v5::Unsubscribe::decode_async(&mut r, h)).map(|_| ()).map_err(|e| format!("{:?}", e))
            }
        }
    };
    match res {
        Ok(()) => Ok(true),
        Err(e) if e.contains("InvalidTopicFilter") && e.contains(&format!("{:?}", text)) => Ok(false),
        Err(e) => Err(format!("body-level decoder of {} {} returned {} for filter {:?}", fam.name(), model::type_name(typ), e, text)),
    }
}

/// accept / reject decision of the three front-ends for a frame carrying the string;
/// Ok(true) accepted, Ok(false) rejected with `want_err`.
fn packet_decision<F: Family>(frame: &[u8], want_err: &F::Error, what: &str, all_fronts: bool) -> Result<bool, String> {
    let b = F::decode(frame);
    let accepted = match &b {
        Ok(Some(_)) => true,
        Err(e) if e == want_err => false,
        other => return Err(format!("{} {}: blocking decoder returned {:?} (expected a packet or {:?})", F::FAM.name(), what, other.as_ref().map(|o| o.as_ref().map(|_| "packet")), want_err)),
    };
    if all_fronts {
        let p = fam::dec_poll::<F>(frame);
        match (&p.result, accepted) {
            (Ok(_), true) => {}
            (Err(e), false) if e == want_err => {}
            (r, _) => return Err(format!("{} {}: poll decoder returned {:?} while the blocking decoder {}", F::FAM.name(), what, r.as_ref().map(|_| "packet"), if accepted { "accepted" } else { "rejected" })),
        }
        let (a, _) = fam::dec_async::<F>(frame);
        match (&a, accepted) {
            (Ok(_), true) => {}
            (Err(e), false) if e == want_err => {}
            (r, _) => return Err(format!("{} {}: async decoder returned {:?} while the blocking decoder {}", F::FAM.name(), what, r.as_ref().map(|_| "packet"), if accepted { "accepted" } else { "rejected" })),
        }
    }
    Ok(accepted)
}

// ---------------------------------------------------------------------------------------
// C16

pub fn check_filter(s: &str, packets: bool, all_fronts: bool) -> Result<bool, String> {
    let want = specpred::filter_valid(s);
    let (inv, _) = TopicFilter::is_invalid(s);
    // the predicate takes a borrowed &str: the same text borrowed from the middle of a larger buffer, at every offset
    // modulo the word size, gets the same verdict (and the same separator index)
    if s.len() >= 8 || all_fronts {
        let full = TopicFilter::is_invalid(s);
        let mut buf = String::with_capacity(s.len() + 16);
        for off in 1..=8usize {
            buf.clear();
            for _ in 0..off {
                buf.push('x');
            }
            buf.push_str(s);
            buf.push('y');
            let got = TopicFilter::is_invalid(&buf[off..off + s.len()]);
            if got != full {
                return Err(format!("TopicFilter::is_invalid on {:?} borrowed at offset {} of a larger buffer gives {:?}; on a string of its own {:?}", s.chars().take(60).collect::<String>(), off, got, full));
            }
        }
    }
    if inv == want {
        return Err(format!("TopicFilter::is_invalid({:?}) = {} but MQTT 4.7/4.8 says the filter is {}", s, inv, if want { "valid" } else { "invalid" }));
    }
    match TopicFilter::try_from(s.to_string()) {
        Ok(f) => {
            if !want {
                return Err(format!("TopicFilter::try_from({:?}) accepted an invalid filter", s));
            }
            if &*f != s {
                return Err(format!("TopicFilter::try_from({:?}) holds {:?}", s, &*f));
            }
        }
        Err(Error::InvalidTopicFilter(t)) => {
            if want {
                return Err(format!("TopicFilter::try_from({:?}) refused a valid filter", s));
            }
            if t != s {
                return Err(format!("InvalidTopicFilter carries {:?} for input {:?}", t, s));
            }
        }
        Err(e) => return Err(format!("TopicFilter::try_from({:?}) failed with {:?}", s, e)),
    }
    if packets && s.len() <= 65_535 {
        let e3 = Error::InvalidTopicFilter(s.to_string());
        let e5 = v5::ErrorV5::Common(e3.clone());
        for typ in [model::T_SUBSCRIBE, model::T_UNSUBSCRIBE] {
            let what = format!("{} carrying filter {:?}", model::type_name(typ), s);
            let a3 = packet_decision::<V3>(&sub_frame(Fam::V3, typ, s.as_bytes()), &e3, &what, all_fronts)?;
            let a5 = packet_decision::<V5>(&sub_frame(Fam::V5, typ, s.as_bytes()), &e5, &what, all_fronts)?;
            if a3 != want || a5 != want {
                return Err(format!("{}: v3 {} / v5 {} but the specification says {}", what, a3, a5, if want { "valid" } else { "invalid" }));
            }
            if s.len() <= 60_000 {
                let what = format!("{} carrying filter {:?} next to every other optional part of the packet", model::type_name(typ), s);
                let a3 = packet_decision::<V3>(&sub_frame_rich(Fam::V3, typ, s.as_bytes()), &e3, &what, all_fronts)?;
                let a5 = packet_decision::<V5>(&sub_frame_rich(Fam::V5, typ, s.as_bytes()), &e5, &what, all_fronts)?;
                if a3 != want || a5 != want {
                    return Err(format!("{}: v3 {} / v5 {} but the specification says {}", what, a3, a5, if want { "valid" } else { "invalid" }));
                }
            }
            // a filter that is not a shared subscription (it does not start with "$share/") may be subscribed to with any
            // option bits, No Local included - also when it merely looks like one ("$share", "$sharex/y", "$Share/g/t")
            if typ == model::T_SUBSCRIBE && !s.starts_with("$share/") && s.len() <= 60_000 {
                for opt in [0b0000_0100u8, 0b0010_1110] {
                    let body = Body::Subscribe { pid: 9, props: Some(Props::default()), topics: vec![(s.as_bytes().to_vec(), opt)] };
                    let frame = model::serialize(&WPacket::new(Fam::V5, (typ << 4) | 2, body)).unwrap_or_default();
                    let what = format!("v5 SUBSCRIBE carrying the non-shared filter {:?} with the option byte {:#04x} (No Local set)", s, opt);
                    let acc = packet_decision::<V5>(&frame, &e5, &what, all_fronts)?;
                    if acc != want {
                        return Err(format!("{}: {} but the specification says {}", what, if acc { "accepted" } else { "rejected" }, if want { "valid" } else { "invalid" }));
                    }
                }
            }
            if all_fronts && s.len() <= 60_000 {
                // the filter in first, middle and last position of a longer list, and twice
                let ok: &[u8] = b"ok/+";
                let lists: [Vec<&[u8]>; 4] = [vec![s.as_bytes(), ok], vec![ok, s.as_bytes()], vec![ok, s.as_bytes(), ok], vec![s.as_bytes(), s.as_bytes()]];
                for l in lists.iter() {
                    let what = format!("{} carrying filter {:?} in a list of {}", model::type_name(typ), s, l.len());
                    let a3 = packet_decision::<V3>(&sub_frame_multi(Fam::V3, typ, l), &e3, &what, true)?;
                    let a5 = packet_decision::<V5>(&sub_frame_multi(Fam::V5, typ, l), &e5, &what, true)?;
                    if a3 != want || a5 != want {
                        return Err(format!("{}: v3 {} / v5 {} but the specification says {}", what, a3, a5, if want { "valid" } else { "invalid" }));
                    }
                }
                // the same filter twice (and three times) in one SUBSCRIBE with *different* options: allowed, the later entry
                // replaces the earlier one; the decision about the filter does not change
                if typ == model::T_SUBSCRIBE {
                    for opts in [&[0u8, 2][..], &[1, 0, 2][..], &[2, 2, 1][..]] {
                        for fam in [Fam::V3, Fam::V5] {
                            let props = if fam == Fam::V5 { Some(Props::default()) } else { None };
                            let body = Body::Subscribe { pid: 7, props, topics: opts.iter().map(|o| (s.as_bytes().to_vec(), *o)).collect() };
                            let frame = model::serialize(&WPacket::new(fam, (typ << 4) | 2, body)).unwrap_or_default();
                            let what = format!("{} SUBSCRIBE carrying filter {:?} {} times with the option bytes {:?}", fam.name(), s, opts.len(), opts);
                            let acc = if fam == Fam::V3 { packet_decision::<V3>(&frame, &e3, &what, true)? } else { packet_decision::<V5>(&frame, &e5, &what, true)? };
                            if acc != want {
                                return Err(format!("{}: {} but the specification says {}", what, if acc { "accepted" } else { "rejected" }, if want { "valid" } else { "invalid" }));
                            }
                        }
                    }
                }
                // whether a filter is accepted does not depend on what a neighbouring entry asks for: the neighbour
                // sets No Local, Retain As Published and Retain Handling 2 (the filter under test may be a shared one)
                if typ == model::T_SUBSCRIBE {
                    for l in lists.iter().take(3) {
                        let what = format!("v5 SUBSCRIBE carrying filter {:?} next to an entry with No Local / Retain As Published / Retain Handling 2", s);
                        let a5 = packet_decision::<V5>(&sub_frame_multi_opt(Fam::V5, typ, l, 0b0010_1101), &e5, &what, true)?;
                        if a5 != want {
                            return Err(format!("{}: {} but the specification says {}", what, if a5 { "accepted" } else { "rejected" }, if want { "valid" } else { "invalid" }));
                        }
                    }
                }
                // the public body-level decoders give the same decision
                for fam in [Fam::V3, Fam::V5] {
                    let d = body_level_filter_decision(fam, typ, &sub_frame(fam, typ, s.as_bytes()), s)?;
                    if d != want {
                        return Err(format!("body-level decoder of {} {} {} filter {:?} but the specification says {}", fam.name(), model::type_name(typ), if d { "accepts" } else { "rejects" }, s, if want { "valid" } else { "invalid" }));
                    }
                }
            }
        }
    }
    Ok(want)
}

/// nums = [prefix index, len, start, count]
fn c16_block(input: &Input, ctx: &mut Ctx) -> CaseResult {
    let n = input.nums();
    let (pi, len, start, count) = (n[0] as usize, n[1] as usize, n[2], n[3]);
    let prefix = FILTER_PREFIXES[pi];
    let mut valid = 0u64;
    let mut valid_shared = 0u64;
    for i in start..start + count {
        let s = nth_string(FILTER_ALPHA, len, i, prefix);
        match check_filter(&s, true, i % 8 == 0) {
            Ok(v) => {
                if v {
                    valid += 1;
                    if s.starts_with("$share/") {
                        valid_shared += 1;
                    }
                }
            }
            Err(m) => {
                ctx.refine = Some(("c16.single", Input::Text(s.into_bytes())));
                return Err(Violation::new(m));
            }
        }
    }
    ctx.more_evals(count.saturating_sub(1));
    ctx.count_distinct(count);
    ctx.label_n("valid", valid);
    ctx.label_n("valid-shared", valid_shared);
    ctx.label_n("invalid", count - valid);
    ctx.label_n(&format!("prefix:{:?}", prefix), count);
    if start == 0 && len >= 3 {
        ctx.sample(|| {
            let s = nth_string(FILTER_ALPHA, len, start + count / 2, prefix);
            format!("{:?} -> spec says {}", s, if specpred::filter_valid(&s) { "valid" } else { "invalid" })
        });
    }
    Ok(())
}

fn c16_single(input: &Input, ctx: &mut Ctx) -> CaseResult {
    let s = match std::str::from_utf8(input.bytes()) {
        Ok(s) => s,
        Err(_) => viol!("MQV-INTERNAL: c16.single needs UTF-8 text"),
    };
    let v = check_filter(s, true, true).map_err(Violation::new)?;
    ctx.count_distinct(1);
    ctx.label(if v { "valid" } else { "invalid" });
    ctx.label(match s.len() {
        0..=65_533 => "len<65534",
        65_534 => "len=65534",
        65_535 => "len=65535",
        _ => "len>65535",
    });
    ctx.sample(|| format!("{} bytes {:?}... -> {}", s.len(), s.chars().take(24).collect::<String>(), if v { "valid" } else { "invalid" }));
    Ok(())
}

/// structured strings at and around the length limit
pub fn long_filters() -> Vec<Input> {
    let mut v = Vec::new();
    for len in [65_533usize, 65_534, 65_535, 65_536, 65_537, 70_000] {
        for (head, tail) in [("", ""), ("", "/#"), ("", "/+"), ("+/", ""), ("$share/g/", ""), ("$share/g/", "/#"), ("", "#"), ("", "+"), ("a/", "\0"), ("$share/", ""), ("\u{e9}/", "/\u{1F600}")] {
            if head.len() + tail.len() > len {
                continue;
            }
            let mut s = String::with_capacity(len);
            s.push_str(head);
            while s.len() + tail.len() < len {
                s.push('y');
            }
            s.push_str(tail);
            v.push(Input::Text(s.into_bytes()));
        }
    }
    // many wildcard levels (counts around the widths a counter might have): valid ("+/" repeated, a final "#") and not
    for n in [255usize, 256, 257, 512, 1_024, 4_096] {
        v.push(Input::Text(format!("{}#", "+/".repeat(n)).into_bytes()));
        v.push(Input::Text(format!("{}+", "+/".repeat(n)).into_bytes()));
        v.push(Input::Text("#/".repeat(n).into_bytes()));
        v.push(Input::Text(format!("$share/g/{}a", "+/".repeat(n)).into_bytes()));
        v.push(Input::Text("+".repeat(n).into_bytes()));
    }
    // share names that are blank, contain blanks, control characters or U+0000 (the last one invalid)
    for name in [" ", "  ", "\t", "\n", "\u{a0}", "\u{3000}", " g", "g ", "a\0b", "\0", "g\u{7f}"] {
        for tail in ["a", "#", "+/x", " ", "/"] {
            v.push(Input::Text(format!("$share/{}/{}", name, tail).into_bytes()));
        }
    }
    for blank in [" ", "\t", "\u{a0}", " / ", "+/ ", " /#", "a/ /b"] {
        v.push(Input::Text(blank.as_bytes().to_vec()));
    }
    v
}

// ---------------------------------------------------------------------------------------
// C17

pub fn check_shared_parts(s: &str) -> Result<bool, String> {
    let f = match TopicFilter::try_from(s.to_string()) {
        Ok(f) => f,
        Err(e) => return Err(format!("valid filter {:?} refused: {:?}", s, e)),
    };
    if f.to_string() != s || &*f != s {
        return Err(format!("filter {:?} converts back to {:?} / derefs to {:?}", s, f.to_string(), &*f));
    }
    // a value that took over this text through Clone::clone / clone_from (over a destination that held another filter,
    // shared or not, and element-wise through a Vec) is this filter in every respect
    {
        let others = ["$share/other/x/#", "plain/+/x", "$share/\u{e9}/y", "/"];
        for (k, o) in others.iter().enumerate() {
            let mut dst = TopicFilter::try_from(o.to_string()).map_err(|e| format!("valid filter {:?} refused: {:?}", o, e))?;
            dst.clone_from(&f);
            let mut v: Vec<TopicFilter> = vec![TopicFilter::try_from(o.to_string()).map_err(|e| format!("{:?}", e))?; 2];
            v.clone_from(&vec![f.clone(), f.clone()]);
            for (x, how) in [(&dst, "clone_from over another filter"), (&v[1], "Vec::clone_from"), (&f.clone(), "clone")] {
                if **x != *s || x.to_string() != s || *x != f || x.is_shared() != f.is_shared() || x.shared_info() != f.shared_info() || x.shared_group_name() != f.shared_group_name() || x.shared_filter() != f.shared_filter() || hash_of(x) != hash_of(&f) || x.cmp(&f) != std::cmp::Ordering::Equal {
                    return Err(format!("filter {:?} taken over by {} (destination held {:?}): text {:?}, share {:?}; the original reports {:?}", s, how, o, &**x, x.shared_info(), f.shared_info()));
                }
            }
            if k == 1 && s.len() > 40 {
                break;
            }
        }
    }
    // the accessors asked in another order on a fresh value and on its clone give the same answers
    {
        let g = TopicFilter::try_from(s.to_string()).map_err(|e| format!("valid filter {:?} refused: {:?}", s, e))?;
        let gc = g.clone();
        let a1 = (gc.is_sys(), g.shared_filter().map(str::to_string), g.shared_group_name().map(str::to_string), gc.is_shared(), g.shared_info().map(|(a, b)| (a.to_string(), b.to_string())));
        let a2 = (f.is_sys(), f.shared_filter().map(str::to_string), f.shared_group_name().map(str::to_string), f.is_shared(), f.shared_info().map(|(a, b)| (a.to_string(), b.to_string())));
        let a3 = (g.is_sys(), gc.shared_filter().map(str::to_string), gc.shared_group_name().map(str::to_string), g.is_shared(), gc.shared_info().map(|(a, b)| (a.to_string(), b.to_string())));
        if a1 != a2 || a2 != a3 {
            return Err(format!("filter {:?}: (is_sys, shared_filter, shared_group_name, is_shared, shared_info) asked in that order on a fresh value and its clone give {:?} / {:?}; on another value {:?}", s, a1, a3, a2));
        }
    }
    let is_sys = s.starts_with("$SYS/");
    if f.is_sys() != is_sys {
        return Err(format!("filter {:?}: is_sys() = {}", s, f.is_sys()));
    }
    if s.starts_with("$share/") {
        let (name, filt) = specpred::shared_split(s).ok_or_else(|| format!("MQV-INTERNAL no split for {:?}", s))?;
        if !f.is_shared() {
            return Err(format!("shared filter {:?}: is_shared() is false", s));
        }
        if f.shared_group_name() != Some(name) || f.shared_filter() != Some(filt) || f.shared_info() != Some((name, filt)) {
            return Err(format!(
                "shared filter {:?}: accessors give name {:?}, filter {:?}, info {:?}; the unique split is ({:?}, {:?})",
                s,
                f.shared_group_name(),
                f.shared_filter(),
                f.shared_info(),
                name,
                filt
            ));
        }
        if format!("$share/{}/{}", name, filt) != s || name.is_empty() || name.contains('/') {
            return Err(format!("MQV-INTERNAL bad split of {:?}", s));
        }
        // a sibling subscription: the same filter under another share name of the same length - a different filter in
        // every respect, through every operator
        {
            let mut sib_name: String = name.chars().take(name.chars().count() - 1).collect();
            let last = name.chars().last().unwrap_or('g');
            let repl = match last.len_utf8() {
                1 => if last == 'z' { 'y' } else { 'z' },
                2 => if last == '\u{e9}' { '\u{e8}' } else { '\u{e9}' },
                3 => if last == '\u{4f60}' { '\u{597d}' } else { '\u{4f60}' },
                _ => if last == '\u{1F600}' { '\u{1F601}' } else { '\u{1F600}' },
            };
            sib_name.push(repl);
            let sib = format!("$share/{}/{}", sib_name, filt);
            if specpred::filter_valid(&sib) && sib.len() == s.len() {
                let g = TopicFilter::try_from(sib.clone()).map_err(|e| format!("valid filter {:?} refused: {:?}", sib, e))?;
                operators_follow_cmp(&f, s, &g, &sib, "two share names of the same length in front of the same filter")?;
                operators_follow_cmp(&g, &sib, &f, s, "two share names of the same length in front of the same filter")?;
                if f == g || !(f != g) || g.eq(&f) || !g.ne(&f) || f.cmp(&g) == std::cmp::Ordering::Equal {
                    return Err(format!("{:?} and {:?} differ, but ==, !=, eq, ne or cmp say otherwise ({}, {}, {}, {}, {:?})", s, sib, f == g, f != g, g.eq(&f), g.ne(&f), f.cmp(&g)));
                }
            }
        }
        // decoded as one entry of a list whose neighbours are shared filters with a share name that is a proper prefix /
        // an extension of this one, the same name, and a plain filter: every decoded entry reports its own split
        // (whatever a decoder may reuse from the entry before)
        if s.len() <= 2_000 {
            let mut shorter: String = name.chars().take(name.chars().count().saturating_sub(1)).collect();
            if shorter.is_empty() {
                shorter = "q".to_string();
            }
            let texts: Vec<String> = vec![format!("$share/{}/{}", shorter, filt), s.to_string(), format!("$share/{}x/{}", name, filt), s.to_string(), "plain/+".to_string(), s.to_string(), format!("$share/{}/other", name), format!("$share/{}", &s["$share/".len()..])];
            for typ in [model::T_SUBSCRIBE, model::T_UNSUBSCRIBE] {
                for fam in [Fam::V5, Fam::V3] {
                    let refs: Vec<&[u8]> = texts.iter().map(|x| x.as_bytes()).collect();
                    let frame = sub_frame_multi(fam, typ, &refs);
                    let got: Option<Vec<TopicFilter>> = if fam == Fam::V5 {
                        match mqtt_proto::v5::Packet::decode(&frame) {
                            Ok(Some(mqtt_proto::v5::Packet::Subscribe(x))) => Some(x.topics.into_iter().map(|e| e.0).collect()),
                            Ok(Some(mqtt_proto::v5::Packet::Unsubscribe(x))) => Some(x.topics),
                            _ => None,
                        }
                    } else {
                        match mqtt_proto::v3::Packet::decode(&frame) {
                            Ok(Some(mqtt_proto::v3::Packet::Subscribe(x))) => Some(x.topics.into_iter().map(|e| e.0).collect()),
                            Ok(Some(mqtt_proto::v3::Packet::Unsubscribe(x))) => Some(x.topics),
                            _ => None,
                        }
                    };
                    let got = got.ok_or_else(|| format!("{} {} carrying the valid filters {:?} was not decoded", fam.name(), model::type_name(typ), texts))?;
                    if got.len() != texts.len() {
                        return Err(format!("{} {} carrying {} filters decoded to {} entries", fam.name(), model::type_name(typ), texts.len(), got.len()));
                    }
                    for (g, want_text) in got.iter().zip(&texts) {
                        let want = if want_text.starts_with("$share/") { specpred::shared_split(want_text) } else { None };
                        if &**g != want_text.as_str() || g.shared_info() != want || g.is_shared() != want.is_some() || g.shared_group_name() != want.map(|x| x.0) || g.shared_filter() != want.map(|x| x.1) {
                            return Err(format!(
                                "filter {:?} decoded as one entry of a {} {} that lists {:?}: accessors give {:?} (is_shared {}); the text splits as {:?}",
                                want_text, fam.name(), model::type_name(typ), texts, g.shared_info(), g.is_shared(), want
                            ));
                        }
                    }
                }
            }
        }
        Ok(true)
    } else {
        if f.is_shared() || f.shared_group_name().is_some() || f.shared_filter().is_some() || f.shared_info().is_some() {
            return Err(format!("non-shared filter {:?} reports a share: {:?}", s, f.shared_info()));
        }
        Ok(false)
    }
}

fn decoded_filter(s: &str) -> Option<TopicFilter> {
    match mqtt_proto::v3::Packet::decode(&sub_frame(Fam::V3, model::T_SUBSCRIBE, s.as_bytes())) {
        Ok(Some(mqtt_proto::v3::Packet::Subscribe(sb))) => sb.topics.into_iter().next().map(|x| x.0),
        _ => None,
    }
}

/// the comparison operators, `==` / `!=`, `max` / `min` and `eq` / `ne` as methods all follow from `cmp` — for two values
/// built apart, for a value and its clone (one shared allocation) and for a value and itself
#[allow(clippy::eq_op, clippy::nonminimal_bool, clippy::neg_cmp_op_on_partial_ord)]
fn operators_follow_cmp(x: &TopicFilter, xs: &str, y: &TopicFilter, ys: &str, how: &str) -> Result<(), String> {
    use std::cmp::Ordering::*;
    let o = x.cmp(y);
    let got = (x < y, x <= y, x > y, x >= y, x == y, x != y, x.lt(y), x.le(y), x.gt(y), x.ge(y), x.eq(y), x.ne(y));
    let want = (o == Less, o != Greater, o == Greater, o != Less, o == Equal, o != Equal, o == Less, o != Greater, o == Greater, o != Less, o == Equal, o != Equal);
    if got != want {
        return Err(format!("{:?} against {:?} ({}): cmp says {:?} but (<, <=, >, >=, ==, !=, lt, le, gt, ge, eq, ne) = {:?}", xs, ys, how, o, got));
    }
    let (mx, mn) = (std::cmp::max(x, y), std::cmp::min(x, y));
    if (o == Greater && (&**mx != xs || &**mn != ys)) || (o == Less && (&**mx != ys || &**mn != xs)) || (o == Equal && (&**mx != xs || &**mn != xs)) {
        return Err(format!("max / min of {:?} and {:?} ({}) are {:?} / {:?} although cmp says {:?}", xs, ys, how, &**mx, &**mn, o));
    }
    Ok(())
}

pub fn check_relations(a: &str, b: &str, c: &str) -> Result<(), String> {
    let fa = TopicFilter::try_from(a.to_string()).map_err(|e| format!("{:?}", e))?;
    let fb = TopicFilter::try_from(b.to_string()).map_err(|e| format!("{:?}", e))?;
    let fc = TopicFilter::try_from(c.to_string()).map_err(|e| format!("{:?}", e))?;
    // same text from a separate allocation and from a decoded SUBSCRIBE
    let fa2 = TopicFilter::try_from(String::from(a)).map_err(|e| format!("{:?}", e))?;
    let fa3 = decoded_filter(a).ok_or_else(|| format!("SUBSCRIBE carrying valid filter {:?} was not decoded", a))?;
    for (x, how) in [(&fa2, "a separate allocation"), (&fa3, "decoding a SUBSCRIBE")] {
        if *x != fa || fa != *x {
            return Err(format!("filter {:?} built by {} is not equal to the one built by the constructor", a, how));
        }
        if hash_of(x) != hash_of(&fa) {
            return Err(format!("filter {:?} built by {} hashes differently", a, how));
        }
        if x.cmp(&fa) != std::cmp::Ordering::Equal || x.partial_cmp(&fa) != Some(std::cmp::Ordering::Equal) {
            return Err(format!("filter {:?} built by {} does not compare Equal", a, how));
        }
        if x.shared_info() != fa.shared_info() {
            return Err(format!("filter {:?} built by {} reports share {:?} instead of {:?}", a, how, x.shared_info(), fa.shared_info()));
        }
    }
    let fa_clone = fa.clone();
    operators_follow_cmp(&fa, a, &fa_clone, a, "a value and its clone")?;
    operators_follow_cmp(&fa_clone, a, &fa, a, "a clone and its original")?;
    operators_follow_cmp(&fa, a, &fa, a, "a value and itself")?;
    operators_follow_cmp(&fa, a, &fa2, a, "the same text from two allocations")?;
    operators_follow_cmp(&fa3, a, &fa, a, "a decoded value and a constructed one")?;
    let pairs = [(&fa, a, &fb, b), (&fb, b, &fc, c), (&fa, a, &fc, c)];
    for (x, xs, y, ys) in pairs {
        operators_follow_cmp(x, xs, y, ys, "two values built apart")?;
        operators_follow_cmp(y, ys, x, xs, "two values built apart")?;
        let eq = x == y;
        if eq != (xs == ys) {
            return Err(format!("{:?} == {:?} is {} but the texts are {}", xs, ys, eq, if xs == ys { "equal" } else { "different" }));
        }
        let o = x.cmp(y);
        if (o == std::cmp::Ordering::Equal) != (xs == ys) {
            return Err(format!("cmp({:?}, {:?}) = {:?} but the texts are {}", xs, ys, o, if xs == ys { "equal" } else { "different" }));
        }
        if y.cmp(x) != o.reverse() {
            return Err(format!("cmp is not antisymmetric on {:?}, {:?}", xs, ys));
        }
        if x.partial_cmp(y) != Some(o) {
            return Err(format!("partial_cmp({:?}, {:?}) = {:?} but cmp = {:?}", xs, ys, x.partial_cmp(y), o));
        }
        if xs == ys && hash_of(x) != hash_of(y) {
            return Err(format!("equal filters {:?} hash differently", xs));
        }
    }
    // transitivity on the triple
    use std::cmp::Ordering::*;
    let (ab, bc, ac) = (fa.cmp(&fb), fb.cmp(&fc), fa.cmp(&fc));
    if (ab != Greater && bc != Greater && ac == Greater) || (ab != Less && bc != Less && ac == Less) {
        return Err(format!("cmp is not transitive on {:?}, {:?}, {:?}: {:?} {:?} {:?}", a, b, c, ab, bc, ac));
    }
    Ok(())
}

/// nums = [prefix index, len, start, count]: all valid filters of the block
fn c17_block(input: &Input, ctx: &mut Ctx) -> CaseResult {
    let n = input.nums();
    let (pi, len, start, count) = (n[0] as usize, n[1] as usize, n[2], n[3]);
    let prefix = FILTER_PREFIXES[pi];
    let mut window: Vec<String> = Vec::new();
    let (mut valid, mut shared, mut triples) = (0u64, 0u64, 0u64);
    for i in start..start + count {
        let s = nth_string(FILTER_ALPHA, len, i, prefix);
        if !specpred::filter_valid(&s) {
            continue;
        }
        valid += 1;
        match check_shared_parts(&s) {
            Ok(sh) => shared += sh as u64,
            Err(m) => {
                ctx.refine = Some(("c17.single", Input::Text(s.into_bytes())));
                return Err(Violation::new(m));
            }
        }
        window.push(s);
        if window.len() >= 3 {
            let k = window.len();
            // neighbours and a far partner, both orders
            let (a, b, c) = (&window[k - 1], &window[k - 2], &window[(k * 7) % (k - 1)]);
            if let Err(m) = check_relations(a, b, c).and_then(|_| check_relations(c, a, a)) {
                ctx.refine = Some(("c17.triple", Input::Text(format!("{}\u{1}{}\u{1}{}", a, b, c).into_bytes())));
                return Err(Violation::new(m));
            }
            triples += 2;
        }
    }
    ctx.more_evals(count.saturating_sub(1));
    ctx.count_distinct(valid);
    ctx.label_n("valid-filters", valid);
    ctx.label_n("shared-filters", shared);
    ctx.label_n("triples-compared", triples);
    if shared > 0 {
        ctx.sample(|| {
            let s = window.iter().find(|s| s.starts_with("$share/")).cloned().unwrap_or_default();
            format!("{:?} -> split {:?}", s, specpred::shared_split(&s))
        });
    }
    Ok(())
}

fn c17_single(input: &Input, ctx: &mut Ctx) -> CaseResult {
    let s = std::str::from_utf8(input.bytes()).map_err(|_| Violation::new("MQV-INTERNAL: text"))?;
    ensure!(specpred::filter_valid(s), "MQV-INTERNAL: c17.single needs a valid filter");
    let sh = check_shared_parts(s).map_err(Violation::new)?;
    check_relations(s, s, s).map_err(Violation::new)?;
    ctx.count_distinct(1);
    ctx.label(if sh { "shared-filters" } else { "plain-filters" });
    ctx.sample(|| format!("{} bytes {:?}.. -> split {:?}", s.len(), s.chars().take(24).collect::<String>(), specpred::shared_split(s).map(|(a, b)| (a.len(), b.len()))));
    Ok(())
}

fn c17_triple(input: &Input, ctx: &mut Ctx) -> CaseResult {
    let s = std::str::from_utf8(input.bytes()).map_err(|_| Violation::new("MQV-INTERNAL: text"))?;
    let parts: Vec<&str> = s.split('\u{1}').collect();
    ensure!(parts.len() == 3, "MQV-INTERNAL: c17.triple needs three strings");
    check_relations(parts[0], parts[1], parts[2]).map_err(Violation::new)?;
    check_relations(parts[2], parts[0], parts[0]).map_err(Violation::new)?;
    ctx.count_distinct(1);
    Ok(())
}

// ---------------------------------------------------------------------------------------
// C18

fn name_frames(s: &[u8]) -> Vec<(&'static str, Fam, Vec<u8>, bool)> {
    // (path, family, frame, is response topic)
    let mut v = Vec::new();
    for fam in [Fam::V3, Fam::V5] {
        let props = if fam == Fam::V5 { Some(Props::default()) } else { None };
        let pb = WPacket::new(fam, 0x30, Body::Publish { topic: s.to_vec(), pid: None, props: props.clone(), payload: b"p".to_vec() });
        v.push(("PUBLISH topic", fam, model::serialize(&pb).unwrap_or_default(), false));
        let (name, level) = if fam == Fam::V5 { (b"MQTT".to_vec(), 5) } else { (b"MQTT".to_vec(), 4) };
        let cn = WPacket::new(
            fam,
            0x10,
            Body::Connect {
                name,
                level,
                flags: 0b0000_0110,
                keep_alive: 1,
                props: props.clone(),
                client_id: b"c".to_vec(),
                will: Some(Will { props: props.clone(), topic: s.to_vec(), payload: vec![] }),
                username: None,
                password: None,
            },
        );
        v.push(("will topic", fam, model::serialize(&cn).unwrap_or_default(), false));
        if fam == Fam::V3 {
            // the same under the MQTT 3.1 protocol level
            let cn = WPacket::new(
                fam,
                0x10,
                Body::Connect {
                    name: b"MQIsdp".to_vec(),
                    level: 3,
                    flags: 0b0010_1110,
                    keep_alive: 1,
                    props: None,
                    client_id: b"c".to_vec(),
                    will: Some(Will { props: None, topic: s.to_vec(), payload: b"w".to_vec() }),
                    username: None,
                    password: None,
                },
            );
            v.push(("will topic (MQTT 3.1 CONNECT)", fam, model::serialize(&cn).unwrap_or_default(), false));
        }
    }
    // the same fields in frames in which every other optional field / property of the packet is present as well
    let full_pub = Props {
        items: vec![
            Prop { id: 0x01, val: PVal::Byte(0) },
            Prop { id: 0x02, val: PVal::U32(60) },
            Prop { id: 0x23, val: PVal::U16(7) },
            Prop { id: 0x09, val: PVal::Bin(vec![1, 2, 3]) },
            Prop { id: 0x0B, val: PVal::VarInt(300, 0) },
            Prop { id: 0x03, val: PVal::Str(b"text/plain".to_vec()) },
            Prop { id: 0x26, val: PVal::Pair(b"k".to_vec(), b"v".to_vec()) },
        ],
        declared: None,
        width: 0,
    };
    let mut with_resp = full_pub.clone();
    with_resp.items.insert(3, Prop { id: 0x08, val: PVal::Str(b"reply/to".to_vec()) });
    let pb = WPacket::new(Fam::V5, 0x3D, Body::Publish { topic: s.to_vec(), pid: Some(9), props: Some(with_resp), payload: b"payload".to_vec() });
    v.push(("PUBLISH topic (all properties present, QoS 2, DUP, RETAIN)", Fam::V5, model::serialize(&pb).unwrap_or_default(), false));
    let pb = WPacket::new(Fam::V3, 0x3D, Body::Publish { topic: s.to_vec(), pid: Some(9), props: None, payload: b"payload".to_vec() });
    v.push(("PUBLISH topic (QoS 2, DUP, RETAIN)", Fam::V3, model::serialize(&pb).unwrap_or_default(), false));
    let mut resp_full = full_pub.clone();
    resp_full.items.insert(2, Prop { id: 0x08, val: PVal::Str(s.to_vec()) });
    let pb = WPacket::new(Fam::V5, 0x32, Body::Publish { topic: b"t".to_vec(), pid: Some(9), props: Some(resp_full), payload: b"x".to_vec() });
    v.push(("PUBLISH response topic (all properties present)", Fam::V5, model::serialize(&pb).unwrap_or_default(), true));
    let full_will = |topic: &[u8], resp: Option<&[u8]>| -> Vec<u8> {
        let mut items = vec![
            Prop { id: 0x18, val: PVal::U32(5) },
            Prop { id: 0x01, val: PVal::Byte(1) },
            Prop { id: 0x02, val: PVal::U32(60) },
            Prop { id: 0x03, val: PVal::Str(b"t".to_vec()) },
            Prop { id: 0x09, val: PVal::Bin(vec![9]) },
            Prop { id: 0x26, val: PVal::Pair(b"k".to_vec(), b"v".to_vec()) },
        ];
        if let Some(r) = resp {
            items.insert(3, Prop { id: 0x08, val: PVal::Str(r.to_vec()) });
        }
        let cn = WPacket::new(
            Fam::V5,
            0x10,
            Body::Connect {
                name: b"MQTT".to_vec(),
                level: 5,
                flags: 0b1111_0110,
                keep_alive: 1,
                props: Some(Props { items: vec![Prop { id: 0x11, val: PVal::U32(1) }, Prop { id: 0x26, val: PVal::Pair(b"a".to_vec(), b"b".to_vec()) }], declared: None, width: 0 }),
                client_id: b"client".to_vec(),
                will: Some(Will { props: Some(Props { items, declared: None, width: 0 }), topic: topic.to_vec(), payload: b"bye".to_vec() }),
                username: Some(b"user".to_vec()),
                password: Some(b"pw".to_vec()),
            },
        );
        model::serialize(&cn).unwrap_or_default()
    };
    v.push(("will topic (all will properties, user name and password present)", Fam::V5, full_will(s, Some(b"r")), false));
    v.push(("will response topic (all will properties present)", Fam::V5, full_will(b"w", Some(s)), true));
    let rp = Props { items: vec![Prop { id: 0x08, val: PVal::Str(s.to_vec()) }], declared: None, width: 0 };
    let pb = WPacket::new(Fam::V5, 0x30, Body::Publish { topic: b"t".to_vec(), pid: None, props: Some(rp.clone()), payload: vec![] });
    v.push(("PUBLISH response topic", Fam::V5, model::serialize(&pb).unwrap_or_default(), true));
    let cn = WPacket::new(
        Fam::V5,
        0x10,
        Body::Connect {
            name: b"MQTT".to_vec(),
            level: 5,
            flags: 0b0000_0110,
            keep_alive: 1,
            props: Some(Props::default()),
            client_id: b"c".to_vec(),
            will: Some(Will { props: Some(rp), topic: b"t".to_vec(), payload: vec![] }),
            username: None,
            password: None,
        },
    );
    v.push(("will response topic", Fam::V5, model::serialize(&cn).unwrap_or_default(), true));
    v
}

/// the public body-level decoders that carry a topic name: v3/v5 `Connect::decode_async`,
/// `Connect::decode_with_protocol`, v5 `LastWill::decode_async`, v3/v5 `Publish::decode_async`,
/// v5 `PublishProperties` / `WillProperties::decode_async`
fn body_level_name_decisions(s: &str) -> Result<Vec<(&'static str, bool)>, String> {
    use futures_lite::future::block_on;
    use mqtt_proto::{v3, Protocol, QoS};
    let mut out = Vec::new();
    let classify = |path: &'static str, r: Result<(), String>| -> Result<(&'static str, bool), String> {
        match r {
            Ok(()) => Ok((path, true)),
            Err(e) if e.contains("InvalidTopicName") || e.contains("InvalidResponseTopic") => Ok((path, false)),
            Err(e) => Err(format!("{} returned {} for topic name {:?}", path, e, s.chars().take(40).collect::<String>())),
        }
    };
    for (path, fam, frame, resp) in name_frames(s.as_bytes()) {
        let (hl, _) = crate::refdec::frame_bounds(&frame).map_err(|e| format!("MQV-INTERNAL {:?}", e))?;
        let body = &frame[hl..];
        match (path, fam) {
            ("PUBLISH topic", Fam::V3) | ("PUBLISH topic (QoS 2, DUP, RETAIN)", Fam::V3) => {
                let h = v3::Header::decode(&frame).map_err(|e| format!("{:?}", e))?;
                let mut r: &[u8] = body;
                out.push(classify("v3::Publish::decode_async", block_on(v3::Publish::decode_async(&mut r, h)).map(|_| ()).map_err(|e| format!("{:?}", e)))?);
            }
            ("PUBLISH topic (all properties present, QoS 2, DUP, RETAIN)", Fam::V5) | ("PUBLISH response topic (all properties present)", Fam::V5) => {
                let h = v5::Header::decode(&frame).map_err(|e| format!("{:?}", e))?;
                let mut r: &[u8] = body;
                out.push(classify("v5::Publish::decode_async (all properties present)", block_on(v5::Publish::decode_async(&mut r, h)).map(|_| ()).map_err(|e| format!("{:?}", e)))?);
                if resp {
                    // the property set alone: topic "t" (2+1 bytes) and the packet identifier precede it
                    let mut r: &[u8] = &body[5..];
                    out.push(classify("v5::PublishProperties::decode_async (all properties present)", block_on(v5::PublishProperties::decode_async(&mut r, v5::PacketType::Publish)).map(|_| ()).map_err(|e| format!("{:?}", e)))?);
                }
            }
            ("will topic (MQTT 3.1 CONNECT)", Fam::V3) => {
                let mut r: &[u8] = body;
                out.push(classify("v3::Connect::decode_async (MQTT 3.1)", block_on(v3::Connect::decode_async(&mut r)).map(|_| ()).map_err(|e| format!("{:?}", e)))?);
                let mut r: &[u8] = &body[9..]; // after protocol name (2+6) and level
                out.push(classify("v3::Connect::decode_with_protocol (MQTT 3.1)", block_on(v3::Connect::decode_with_protocol(&mut r, Protocol::V310)).map(|_| ()).map_err(|e| format!("{:?}", e)))?);
            }
            ("will topic (all will properties, user name and password present)", Fam::V5) | ("will response topic (all will properties present)", Fam::V5) => {
                let h = v5::Header::decode(&frame).map_err(|e| format!("{:?}", e))?;
                let mut r: &[u8] = body;
                out.push(classify("v5::Connect::decode_async (everything present)", block_on(v5::Connect::decode_async(&mut r, h)).map(|_| ()).map_err(|e| format!("{:?}", e)))?);
                let mut r: &[u8] = &body[7..];
                out.push(classify("v5::Connect::decode_with_protocol (everything present)", block_on(v5::Connect::decode_with_protocol(&mut r, h, Protocol::V500)).map(|_| ()).map_err(|e| format!("{:?}", e)))?);
            }
            ("PUBLISH topic", Fam::V5) | ("PUBLISH response topic", _) => {
                let h = v5::Header::decode(&frame).map_err(|e| format!("{:?}", e))?;
                let mut r: &[u8] = body;
                out.push(classify("v5::Publish::decode_async", block_on(v5::Publish::decode_async(&mut r, h)).map(|_| ()).map_err(|e| format!("{:?}", e)))?);
                if resp {
                    // the property set alone: topic "t" (2+1 bytes) precedes it
                    let mut r: &[u8] = &body[3..];
                    out.push(classify("v5::PublishProperties::decode_async", block_on(v5::PublishProperties::decode_async(&mut r, v5::PacketType::Publish)).map(|_| ()).map_err(|e| format!("{:?}", e)))?);
                }
            }
            ("will topic", Fam::V3) => {
                let mut r: &[u8] = body;
                out.push(classify("v3::Connect::decode_async", block_on(v3::Connect::decode_async(&mut r)).map(|_| ()).map_err(|e| format!("{:?}", e)))?);
                let mut r: &[u8] = &body[7..]; // after protocol name (2+4) and level
                out.push(classify("v3::Connect::decode_with_protocol", block_on(v3::Connect::decode_with_protocol(&mut r, Protocol::V311)).map(|_| ()).map_err(|e| format!("{:?}", e)))?);
            }
            ("will topic", Fam::V5) | ("will response topic", Fam::V5) => {
                // will topic / will response topic in a v5 CONNECT
                let h = v5::Header::decode(&frame).map_err(|e| format!("{:?}", e))?;
                let mut r: &[u8] = body;
                out.push(classify("v5::Connect::decode_async", block_on(v5::Connect::decode_async(&mut r, h)).map(|_| ()).map_err(|e| format!("{:?}", e)))?);
                let mut r: &[u8] = &body[7..];
                out.push(classify("v5::Connect::decode_with_protocol", block_on(v5::Connect::decode_with_protocol(&mut r, h, Protocol::V500)).map(|_| ()).map_err(|e| format!("{:?}", e)))?);
                // the will alone: after protocol(7) flags(1) keep-alive(2) property length(1) client id (2+1)
                let mut r: &[u8] = &body[14..];
                out.push(classify("v5::LastWill::decode_async", block_on(v5::LastWill::decode_async(&mut r, QoS::Level0, false)).map(|_| ()).map_err(|e| format!("{:?}", e)))?);
                if resp {
                    let mut r: &[u8] = &body[14..];
                    out.push(classify("v5::WillProperties::decode_async", block_on(v5::WillProperties::decode_async(&mut r)).map(|_| ()).map_err(|e| format!("{:?}", e)))?);
                }
            }
            (other, _) => return Err(format!("MQV-INTERNAL: no body-level decoder is wired for the carrier {:?}", other)),
        }
    }
    Ok(out)
}

pub fn check_name(s: &str, packets: bool, all_fronts: bool) -> Result<bool, String> {
    // a topic *filter* with the same text is alive while the name is judged (a subscription table next to the publish
    // path): what is known about one kind of value says nothing about the other
    let _live_filter = TopicFilter::try_from(s.to_string()).ok();
    let want = specpred::name_valid(s);
    if s.len() >= 8 || all_fronts {
        let full = TopicName::is_invalid(s);
        let mut buf = String::with_capacity(s.len() + 16);
        for off in 1..=8usize {
            buf.clear();
            for _ in 0..off {
                buf.push('x');
            }
            buf.push_str(s);
            buf.push('y');
            let got = TopicName::is_invalid(&buf[off..off + s.len()]);
            if got != full {
                return Err(format!("TopicName::is_invalid on {:?} borrowed at offset {} of a larger buffer gives {}; on a string of its own {}", s.chars().take(60).collect::<String>(), off, got, full));
            }
        }
    }
    if TopicName::is_invalid(s) == want {
        return Err(format!("TopicName::is_invalid({:?}..) = {} but the MQTT rule says the name ({} bytes) is {}", s.chars().take(40).collect::<String>(), want, s.len(), if want { "valid" } else { "invalid" }));
    }
    match TopicName::try_from(s.to_string()) {
        Ok(n) => {
            if !want {
                return Err(format!("TopicName::try_from({:?}) accepted an invalid name", s));
            }
            if &*n != s || n.to_string() != s {
                return Err(format!("TopicName {:?} reads back as {:?}", s, &*n));
            }
            if n.is_shared() != s.starts_with("$share/") || n.is_sys() != s.starts_with("$SYS/") {
                return Err(format!("TopicName {:?}: is_shared() = {}, is_sys() = {}", s, n.is_shared(), n.is_sys()));
            }
            // the answers do not depend on which accessor is asked first, how often, or on which clone (a lazily filled
            // cache shared between clones must end up the same whatever the call order)
            if s.starts_with('$') || s.len() <= 3 {
                let (sh, sy) = (s.starts_with("$share/"), s.starts_with("$SYS/"));
                let m = TopicName::try_from(s.to_string()).map_err(|e| format!("{:?}", e))?;
                let first = (m.is_sys(), m.is_shared(), m.is_sys(), m.is_shared());
                let c = m.clone();
                let on_clone = (c.is_shared(), c.is_sys());
                let k = TopicName::try_from(s.to_string()).map_err(|e| format!("{:?}", e))?;
                let kc = k.clone();
                let clone_first = (kc.is_sys(), k.is_shared(), k.is_sys(), kc.is_shared());
                if first != (sy, sh, sy, sh) || on_clone != (sh, sy) || clone_first != (sy, sh, sy, sh) {
                    return Err(format!(
                        "TopicName {:?}: asked is_sys, is_shared, is_sys, is_shared on a fresh value -> {:?}; then is_shared, is_sys on its clone -> {:?}; is_sys on a clone first, then is_shared on the original, is_sys on the original, is_shared on the clone -> {:?}; the text says shared {} / sys {}",
                        s, first, on_clone, clone_first, sh, sy
                    ));
                }
            }
        }
        Err(Error::InvalidTopicName(t)) => {
            if want {
                return Err(format!("TopicName::try_from refused a valid name of {} bytes", s.len()));
            }
            if t != s {
                return Err(format!("InvalidTopicName carries {:?} for input {:?}", t, s));
            }
        }
        Err(e) => return Err(format!("TopicName::try_from({:?}) failed with {:?}", s, e)),
    }
    if packets && s.len() <= 65_535 {
        for (path, fam, frame, resp) in name_frames(s.as_bytes()) {
            let what = format!("{} {:?}", path, s.chars().take(40).collect::<String>());
            let acc = if fam == Fam::V3 {
                packet_decision::<V3>(&frame, &Error::InvalidTopicName(s.to_string()), &what, all_fronts)?
            } else if resp {
                packet_decision::<V5>(&frame, &v5::ErrorV5::InvalidResponseTopic, &what, all_fronts)?
            } else {
                packet_decision::<V5>(&frame, &v5::ErrorV5::Common(Error::InvalidTopicName(s.to_string())), &what, all_fronts)?
            };
            if acc != want {
                return Err(format!("{} {}: {} but the MQTT rule says {}", fam.name(), what, if acc { "accepted" } else { "rejected" }, if want { "valid" } else { "invalid" }));
            }
        }
        if all_fronts {
            for (path, acc) in body_level_name_decisions(s)? {
                if acc != want {
                    return Err(format!("{} {} topic name {:?} but the MQTT rule says {}", path, if acc { "accepts" } else { "rejects" }, s.chars().take(40).collect::<String>(), if want { "valid" } else { "invalid" }));
                }
            }
        }
    }
    Ok(want)
}

fn c18_block(input: &Input, ctx: &mut Ctx) -> CaseResult {
    let n = input.nums();
    let (pi, len, start, count) = (n[0] as usize, n[1] as usize, n[2], n[3]);
    let prefix = NAME_PREFIXES[pi];
    let mut valid = 0u64;
    for i in start..start + count {
        let s = nth_string(NAME_ALPHA, len, i, prefix);
        match check_name(&s, true, i % 8 == 0) {
            Ok(v) => valid += v as u64,
            Err(m) => {
                ctx.refine = Some(("c18.single", Input::Text(s.into_bytes())));
                return Err(Violation::new(m));
            }
        }
    }
    ctx.more_evals(count.saturating_sub(1));
    ctx.count_distinct(count);
    ctx.label_n("valid", valid);
    ctx.label_n("invalid", count - valid);
    ctx.label_n(&format!("prefix:{:?}", prefix), count);
    if start == 0 && len >= 3 {
        ctx.sample(|| {
            let s = nth_string(NAME_ALPHA, len, start + count / 3, prefix);
            format!("{:?} -> rule says {}", s, if specpred::name_valid(&s) { "valid" } else { "invalid" })
        });
    }
    Ok(())
}

fn c18_single(input: &Input, ctx: &mut Ctx) -> CaseResult {
    let s = std::str::from_utf8(input.bytes()).map_err(|_| Violation::new("MQV-INTERNAL: text"))?;
    let v = check_name(s, true, true).map_err(Violation::new)?;
    ctx.count_distinct(1);
    ctx.label(if v { "valid" } else { "invalid" });
    ctx.label(match s.len() {
        0..=65_533 => "len<65534",
        65_534 => "len=65534",
        65_535 => "len=65535",
        _ => "len>65535",
    });
    ctx.sample(|| format!("{} bytes {:?}.. -> {}", s.len(), s.chars().take(24).collect::<String>(), if v { "valid" } else { "invalid" }));
    Ok(())
}


/// Deep hierarchies: the specification limits a topic to 65,535 bytes, not to a number of levels. Levels of every
/// depth 1..=300, and a few up to the deepest that fits, in several shapes (valid and invalid ones).
pub fn deep_strings(filters: bool) -> Vec<Input> {
    let mut v = Vec::new();
    let depths: Vec<usize> = (1..=300).chain([511, 512, 513, 1_000, 4_096, 10_000, 21_844, 32_767, 32_768, 65_534]).collect();
    for d in depths {
        let mut shapes: Vec<String> = vec![
            format!("{}a", "a/".repeat(d)),
            "/".repeat(d),
            format!("{}\u{e9}", "x/".repeat(d)),
        ];
        if filters {
            shapes.push(format!("{}#", "a/".repeat(d)));
            shapes.push(format!("{}+", "+/".repeat(d)));
            shapes.push(format!("$share/g/{}a", "a/".repeat(d)));
            shapes.push(format!("$share/g/{}#", "+/".repeat(d)));
            shapes.push(format!("{}#/a", "a/".repeat(d))); // invalid: '#' not last
        } else {
            shapes.push(format!("$SYS/{}a", "a/".repeat(d)));
            shapes.push(format!("{}+", "a/".repeat(d))); // invalid: wildcard in a name
        }
        for s in shapes {
            if s.len() <= 65_600 {
                v.push(Input::Text(s.into_bytes()));
            }
        }
    }
    v
}

pub fn long_names() -> Vec<Input> {
    let mut v = Vec::new();
    for len in [65_533usize, 65_534, 65_535, 65_536, 65_537, 70_000] {
        for (head, tail) in [("", ""), ("$share/", ""), ("$SYS/", ""), ("", "+"), ("", "#"), ("", "\0"), ("/", "/"), ("\u{e9}", "\u{1F600}")] {
            let mut s = String::with_capacity(len);
            s.push_str(head);
            while s.len() + tail.len() < len {
                s.push('n');
            }
            s.push_str(tail);
            v.push(Input::Text(s.into_bytes()));
        }
    }
    // many forbidden characters (counts around the widths a counter might have), alone, mixed and between separators
    for n in [255usize, 256, 257, 511, 512, 513, 1_024, 65_535] {
        for unit in ["+", "#", "+#", "+/", "#/", "a+", "/#a"] {
            let s: String = unit.repeat(n.div_ceil(unit.matches(['+', '#']).count().max(1)));
            if s.len() <= 70_000 {
                v.push(Input::Text(s.into_bytes()));
            }
        }
    }
    v.push(Input::Text(Vec::new()));
    v
}

// ---------------------------------------------------------------------------------------
// random long strings (tape driven): lengths up to and beyond 65,535 bytes, special characters
// sprinkled at random positions, optional '$share' / '$SYS' prefixes

fn random_long(t: &mut crate::tape::Tape, alpha: &[char], prefixes: &[&str]) -> String {
    let len = match t.pick(8) {
        0 => 65_535,
        1 => 65_536,
        2 => 65_534,
        3 => 65_530 + t.pick(12),
        4 => 60_000 + t.pick(10_000),
        5 => 300 + t.pick(3_000),
        _ => 20 + t.pick(200),
    };
    let mut s = String::with_capacity(len + 8);
    s.push_str(prefixes[t.pick(prefixes.len())]);
    // a few segments of filler separated by tape-chosen characters
    let k = 1 + t.pick(10);
    let mut cuts: Vec<usize> = (0..k).map(|_| t.pick(len.max(1))).collect();
    cuts.sort_unstable();
    let mut ci = 0;
    while s.len() < len {
        if ci < cuts.len() && s.len() >= cuts[ci] {
            let c = alpha[t.pick(alpha.len())];
            if s.len() + c.len_utf8() <= len {
                s.push(c);
            }
            ci += 1;
        } else {
            let next = if ci < cuts.len() { cuts[ci].min(len) } else { len };
            let n = next.saturating_sub(s.len()).max(1).min(len - s.len());
            for _ in 0..n {
                s.push('z');
            }
        }
    }
    s
}

fn c16_random(input: &Input, ctx: &mut Ctx) -> CaseResult {
    let mut t = crate::tape::Tape::new(input.tape());
    let s = random_long(&mut t, FILTER_ALPHA, &["", "", "$share/g/", "$share/", "$share/\u{e9}/", "/", "+/", "$SYS/"]);
    let v = match check_filter(&s, true, t.chance(1, 4)) {
        Ok(v) => v,
        Err(m) => {
            ctx.refine = Some(("c16.single", Input::Text(s.into_bytes())));
            return Err(Violation::new(m));
        }
    };
    ctx.label(if v { "valid" } else { "invalid" });
    ctx.label(match s.len() {
        0..=65_533 => "len<65534",
        65_534 => "len=65534",
        65_535 => "len=65535",
        _ => "len>65535",
    });
    if ctx.nontrivial(model::fnv(s.as_bytes())) {
        ctx.sample(|| format!("{} bytes {:?}.. -> {}", s.len(), s.chars().take(20).collect::<String>(), if v { "valid" } else { "invalid" }));
    }
    Ok(())
}

fn c18_random(input: &Input, ctx: &mut Ctx) -> CaseResult {
    let mut t = crate::tape::Tape::new(input.tape());
    let s = random_long(&mut t, NAME_ALPHA, &["", "", "", "$share/", "$SYS/", "/"]);
    let v = match check_name(&s, true, t.chance(1, 4)) {
        Ok(v) => v,
        Err(m) => {
            ctx.refine = Some(("c18.single", Input::Text(s.into_bytes())));
            return Err(Violation::new(m));
        }
    };
    ctx.label(if v { "valid" } else { "invalid" });
    ctx.label(match s.len() {
        0..=65_533 => "len<65534",
        65_534 => "len=65534",
        65_535 => "len=65535",
        _ => "len>65535",
    });
    if ctx.nontrivial(model::fnv(s.as_bytes())) {
        ctx.sample(|| format!("{} bytes {:?}.. -> {}", s.len(), s.chars().take(20).collect::<String>(), if v { "valid" } else { "invalid" }));
    }
    Ok(())
}

/// random valid filters from the packet generator's filter grammar (multi-byte share names,
/// filters beginning with '/', long levels), compared in triples
fn c17_random(input: &Input, ctx: &mut Ctx) -> CaseResult {
    let mut t = crate::tape::Tape::new(input.tape());
    let cfg = if t.chance(1, 6) { crate::gen::GenCfg::FULL } else { crate::gen::GenCfg::SMALL };
    let mut v: Vec<String> = Vec::new();
    for _ in 0..3 {
        let s = crate::gen::gen_filter_string(&mut t, &cfg);
        if !specpred::filter_valid(&s) {
            return Err(Violation::new(format!("MQV-INTERNAL: generator produced an invalid filter {:?}", s)));
        }
        v.push(s);
    }
    if t.chance(1, 4) {
        v[2] = v[0].clone(); // equal texts from separate allocations
    }
    for s in &v {
        match check_shared_parts(s) {
            Ok(true) => ctx.label("shared-filters"),
            Ok(false) => ctx.label("plain-filters"),
            Err(m) => {
                ctx.refine = Some(("c17.single", Input::Text(s.clone().into_bytes())));
                return Err(Violation::new(m));
            }
        }
        if s.starts_with("$share/") && specpred::shared_split(s).map(|x| !x.0.is_ascii()).unwrap_or(false) {
            ctx.label("multi-byte-share-name");
        }
        if specpred::shared_split(s).map(|x| x.1.starts_with('/')).unwrap_or(false) {
            ctx.label("shared-filter-begins-with-slash");
        }
    }
    if let Err(m) = check_relations(&v[0], &v[1], &v[2]).and_then(|_| check_relations(&v[2], &v[0], &v[1])) {
        ctx.refine = Some(("c17.triple", Input::Text(format!("{}\u{1}{}\u{1}{}", v[0], v[1], v[2]).into_bytes())));
        return Err(Violation::new(m));
    }
    if ctx.nontrivial(model::fnv(v.join("|").as_bytes())) {
        ctx.sample(|| format!("{:?}", v.iter().map(|s| s.chars().take(40).collect::<String>()).collect::<Vec<_>>()));
    }
    Ok(())
}

// ---------------------------------------------------------------------------------------
// runs: special characters at every position of medium-length runs of ordinary characters
// (validators that scan several bytes at a time have their boundaries here)

const RUN_PREFIXES: &[&str] = &["", "a/", "$share/g/", "/"];
const RUN_LENS: &[usize] = &[0, 1, 7, 8, 9, 15, 16, 17, 31, 32, 33, 48, 63, 64, 65];

/// index -> string. Family 0: filler^a c filler^b with a, b in 0..=70; family 1: filler^a c1 filler^b c2 filler^d
/// with a, b, d from RUN_LENS.
fn run_string(specials: &[char], idx: u64) -> Option<String> {
    let np = RUN_PREFIXES.len() as u64;
    let nf = 2u64;
    let ns = specials.len() as u64;
    let fam0 = 71 * 71 * ns * nf * np;
    let fill = |f: u64| if f == 0 { 'x' } else { '\u{e9}' };
    let mut s = String::new();
    if idx < fam0 {
        let mut i = idx;
        let a = (i % 71) as usize;
        i /= 71;
        let b = (i % 71) as usize;
        i /= 71;
        let c = specials[(i % ns) as usize];
        i /= ns;
        let f = fill(i % nf);
        i /= nf;
        s.push_str(RUN_PREFIXES[(i % np) as usize]);
        for _ in 0..a {
            s.push(f);
        }
        s.push(c);
        for _ in 0..b {
            s.push(f);
        }
        return Some(s);
    }
    let mut i = idx - fam0;
    let nl = RUN_LENS.len() as u64;
    let fam1 = nl * nl * nl * ns * ns * nf * np;
    if i >= fam1 {
        return None;
    }
    let a = RUN_LENS[(i % nl) as usize];
    i /= nl;
    let b = RUN_LENS[(i % nl) as usize];
    i /= nl;
    let d = RUN_LENS[(i % nl) as usize];
    i /= nl;
    let c1 = specials[(i % ns) as usize];
    i /= ns;
    let c2 = specials[(i % ns) as usize];
    i /= ns;
    let f = fill(i % nf);
    i /= nf;
    s.push_str(RUN_PREFIXES[(i % np) as usize]);
    for _ in 0..a {
        s.push(f);
    }
    s.push(c1);
    for _ in 0..b {
        s.push(f);
    }
    s.push(c2);
    for _ in 0..d {
        s.push(f);
    }
    Some(s)
}

fn run_count(specials: &[char]) -> u64 {
    let (np, nf, ns, nl) = (RUN_PREFIXES.len() as u64, 2u64, specials.len() as u64, RUN_LENS.len() as u64);
    71 * 71 * ns * nf * np + nl * nl * nl * ns * ns * nf * np
}

const FILTER_SPECIALS: &[char] = &['+', '#', '/', '\0', '$'];
const NAME_SPECIALS: &[char] = &['+', '#', '\0', '/', '$'];

/// nums = [start, count]
fn c16_runs(input: &Input, ctx: &mut Ctx) -> CaseResult {
    let n = input.nums();
    let mut valid = 0u64;
    let mut done = 0u64;
    for i in n[0]..n[0] + n[1] {
        let s = match run_string(FILTER_SPECIALS, i) {
            Some(s) => s,
            None => break,
        };
        match check_filter(&s, i % 4 == 0, i % 64 == 0) {
            Ok(v) => valid += v as u64,
            Err(m) => {
                ctx.refine = Some(("c16.single", Input::Text(s.into_bytes())));
                return Err(Violation::new(m));
            }
        }
        done += 1;
    }
    ctx.more_evals(done.saturating_sub(1));
    ctx.count_distinct(done);
    ctx.label_n("valid", valid);
    ctx.label_n("invalid", done - valid);
    if n[0] == 0 {
        ctx.sample(|| format!("e.g. {:?}", run_string(FILTER_SPECIALS, 71 * 16 + 3)));
    }
    Ok(())
}

fn c18_runs(input: &Input, ctx: &mut Ctx) -> CaseResult {
    let n = input.nums();
    let mut valid = 0u64;
    let mut done = 0u64;
    for i in n[0]..n[0] + n[1] {
        let s = match run_string(NAME_SPECIALS, i) {
            Some(s) => s,
            None => break,
        };
        match check_name(&s, i % 4 == 0, i % 64 == 0) {
            Ok(v) => valid += v as u64,
            Err(m) => {
                ctx.refine = Some(("c18.single", Input::Text(s.into_bytes())));
                return Err(Violation::new(m));
            }
        }
        done += 1;
    }
    ctx.more_evals(done.saturating_sub(1));
    ctx.count_distinct(done);
    ctx.label_n("valid", valid);
    ctx.label_n("invalid", done - valid);
    if n[0] == 0 {
        ctx.sample(|| format!("e.g. {:?}", run_string(NAME_SPECIALS, 71 * 40 + 32)));
    }
    Ok(())
}


// ---------------------------------------------------------------------------------------
// every Unicode scalar value, in a handful of positions (C16, C17, C18)

/// code points for which the packet paths are exercised as well as the constructor: everything below
/// U+3000, the noncharacters (U+FDD0..U+FDEF, the last two of every plane), plane starts, the surrogate
/// neighbours and a stride through the rest
fn cp_wants_packets(c: u32) -> bool {
    c < 0x3000 || (0xFDD0..=0xFDEF).contains(&c) || (c & 0xFFFF) >= 0xFFFE || (c & 0xFFFF) == 0 || (0xD7F0..=0xE00F).contains(&c) || (0xFE00..=0xFFFF).contains(&c) || c % 61 == 0
}

fn filter_templates(c: char) -> [String; 7] {
    [
        format!("{}", c),
        format!("a{}", c),
        format!("{}/+", c),
        format!("a/{}{}/#", c, c),
        format!("$share/{}/t", c),
        format!("$share/g/{}", c),
        format!("$share/g{}/{}/+", c, c),
    ]
}

fn name_templates(c: char) -> [String; 5] {
    [format!("{}", c), format!("a/{}", c), format!("$SYS/{}", c), format!("{}{}/b", c, c), format!("$share/{}", c)]
}

/// nums = [first code point, count]
fn c16_codepoints(input: &Input, ctx: &mut Ctx) -> CaseResult {
    let n = input.nums();
    let mut chars = 0u64;
    let (mut valid, mut invalid) = (0u64, 0u64);
    for cp in n[0]..n[0] + n[1] {
        let c = match char::from_u32(cp as u32) {
            Some(c) => c,
            None => continue, // surrogates are not scalar values; their encodings are covered as ill-formed UTF-8
        };
        chars += 1;
        let packets = cp_wants_packets(cp as u32);
        for (ti, s) in filter_templates(c).iter().enumerate() {
            match check_filter(s, packets || ti == 0, false) {
                Ok(true) => valid += 1,
                Ok(false) => invalid += 1,
                Err(m) => {
                    ctx.refine = Some(("c16.single", Input::Text(s.clone().into_bytes())));
                    return Err(Violation::new(format!("code point U+{:04X}: {}", cp, m)));
                }
            }
        }
    }
    ctx.more_evals((chars * 7).saturating_sub(1));
    ctx.count_distinct(chars * 7);
    ctx.label_n("code-points", chars);
    ctx.label_n("valid", valid);
    ctx.label_n("invalid", invalid);
    if n[0] == 0x2000 {
        ctx.sample(|| "U+2000.. : each scalar value alone, after 'a', as a level, doubled before '#', as share name, as shared filter".to_string());
    }
    Ok(())
}

fn c17_codepoints(input: &Input, ctx: &mut Ctx) -> CaseResult {
    let n = input.nums();
    let mut chars = 0u64;
    let mut shared = 0u64;
    for cp in n[0]..n[0] + n[1] {
        let c = match char::from_u32(cp as u32) {
            Some(c) => c,
            None => continue,
        };
        chars += 1;
        let ts = filter_templates(c);
        for s in ts.iter() {
            if !specpred::filter_valid(s) {
                continue;
            }
            match check_shared_parts(s) {
                Ok(sh) => shared += sh as u64,
                Err(m) => {
                    ctx.refine = Some(("c17.single", Input::Text(s.clone().into_bytes())));
                    return Err(Violation::new(format!("code point U+{:04X}: {}", cp, m)));
                }
            }
        }
        // comparisons between the filters built around this code point and around its neighbour
        if let Some(d) = char::from_u32(cp as u32 + 1) {
            let a = &ts[4];
            let b = format!("$share/{}/t", d);
            if specpred::filter_valid(a) && specpred::filter_valid(&b) {
                if let Err(m) = check_relations(a, &b, &ts[5]) {
                    return Err(Violation::new(format!("code point U+{:04X}: {}", cp, m)));
                }
            }
        }
    }
    ctx.more_evals((chars * 7).saturating_sub(1));
    ctx.count_distinct(chars * 7);
    ctx.label_n("code-points", chars);
    ctx.label_n("shared-filters", shared);
    Ok(())
}

fn c18_codepoints(input: &Input, ctx: &mut Ctx) -> CaseResult {
    let n = input.nums();
    let mut chars = 0u64;
    let (mut valid, mut invalid) = (0u64, 0u64);
    for cp in n[0]..n[0] + n[1] {
        let c = match char::from_u32(cp as u32) {
            Some(c) => c,
            None => continue,
        };
        chars += 1;
        let packets = cp_wants_packets(cp as u32);
        for (ti, s) in name_templates(c).iter().enumerate() {
            match check_name(s, packets || ti == 0, false) {
                Ok(true) => valid += 1,
                Ok(false) => invalid += 1,
                Err(m) => {
                    ctx.refine = Some(("c18.single", Input::Text(s.clone().into_bytes())));
                    return Err(Violation::new(format!("code point U+{:04X}: {}", cp, m)));
                }
            }
        }
    }
    ctx.more_evals((chars * 5).saturating_sub(1));
    ctx.count_distinct(chars * 5);
    ctx.label_n("code-points", chars);
    ctx.label_n("valid", valid);
    ctx.label_n("invalid", invalid);
    Ok(())
}

pub const C16_CODEPOINTS: Sub = Sub { name: "c16.codepoints", f: c16_codepoints };
pub const C17_CODEPOINTS: Sub = Sub { name: "c17.codepoints", f: c17_codepoints };
pub const C18_CODEPOINTS: Sub = Sub { name: "c18.codepoints", f: c18_codepoints };

const CP_BLOCK: u64 = 2_048;
const CP_BLOCKS: u64 = 0x11_0000 / CP_BLOCK;

// ---------------------------------------------------------------------------------------
// prefix shapes composed with each other ("$share/g/$share/x", "$SYS/$share/...", ...) followed by short tails

/// nums = [first prefix, second prefix, tail length, start, count]
fn c16_nested(input: &Input, ctx: &mut Ctx) -> CaseResult {
    let n = input.nums();
    let (p1, p2, len, start, count) = (n[0] as usize, n[1] as usize, n[2] as usize, n[3], n[4]);
    let prefix = format!("{}{}", FILTER_PREFIXES[p1], FILTER_PREFIXES[p2]);
    let (mut valid, mut shared) = (0u64, 0u64);
    for i in start..start + count {
        let s = nth_string(FILTER_ALPHA, len, i, &prefix);
        match check_filter(&s, i % 4 == 0, false) {
            Ok(v) => {
                if v {
                    valid += 1;
                    shared += s.starts_with("$share/") as u64;
                }
            }
            Err(m) => {
                ctx.refine = Some(("c16.single", Input::Text(s.into_bytes())));
                return Err(Violation::new(m));
            }
        }
    }
    ctx.more_evals(count.saturating_sub(1));
    ctx.count_distinct(count);
    ctx.label_n("valid", valid);
    ctx.label_n("valid-shared", shared);
    ctx.label_n("invalid", count - valid);
    if start == 0 && len == 2 && p1 == 4 {
        ctx.sample(|| format!("prefix {:?} + all tails of length {}", prefix, len));
    }
    Ok(())
}

/// the valid filters of the same space: accessors against the unique split (C17)
fn c17_nested(input: &Input, ctx: &mut Ctx) -> CaseResult {
    let n = input.nums();
    let (p1, p2, len, start, count) = (n[0] as usize, n[1] as usize, n[2] as usize, n[3], n[4]);
    let prefix = format!("{}{}", FILTER_PREFIXES[p1], FILTER_PREFIXES[p2]);
    let (mut valid, mut shared) = (0u64, 0u64);
    for i in start..start + count {
        let s = nth_string(FILTER_ALPHA, len, i, &prefix);
        if !specpred::filter_valid(&s) {
            continue;
        }
        valid += 1;
        match check_shared_parts(&s) {
            Ok(sh) => shared += sh as u64,
            Err(m) => {
                ctx.refine = Some(("c17.single", Input::Text(s.into_bytes())));
                return Err(Violation::new(m));
            }
        }
    }
    ctx.more_evals(valid.saturating_sub(1));
    ctx.count_distinct(valid);
    ctx.label_n("valid", valid);
    ctx.label_n("shared-filters", shared);
    Ok(())
}

/// nums = [first prefix, second prefix, tail length, start, count]
fn c18_nested(input: &Input, ctx: &mut Ctx) -> CaseResult {
    let n = input.nums();
    let (p1, p2, len, start, count) = (n[0] as usize, n[1] as usize, n[2] as usize, n[3], n[4]);
    let prefix = format!("{}{}", NAME_PREFIXES[p1], NAME_PREFIXES[p2]);
    let mut valid = 0u64;
    for i in start..start + count {
        let s = nth_string(NAME_ALPHA, len, i, &prefix);
        match check_name(&s, i % 4 == 0, false) {
            Ok(v) => valid += v as u64,
            Err(m) => {
                ctx.refine = Some(("c18.single", Input::Text(s.into_bytes())));
                return Err(Violation::new(m));
            }
        }
    }
    ctx.more_evals(count.saturating_sub(1));
    ctx.count_distinct(count);
    ctx.label_n("valid", valid);
    ctx.label_n("invalid", count - valid);
    Ok(())
}

pub const C16_NESTED: Sub = Sub { name: "c16.nested-prefixes", f: c16_nested };
pub const C18_NESTED: Sub = Sub { name: "c18.nested-prefixes", f: c18_nested };
pub const C17_NESTED: Sub = Sub { name: "c17.nested-prefixes", f: c17_nested };

fn nested_blocks(alpha: usize, nprefix: usize, max_len: usize) -> Vec<Input> {
    let mut v = Vec::new();
    for p1 in 1..nprefix {
        for p2 in 1..nprefix {
            for len in 0..=max_len {
                let total = (alpha as u64).pow(len as u32);
                let mut s = 0;
                while s < total {
                    let c = BLOCK.min(total - s);
                    v.push(Input::Nums(vec![p1 as u64, p2 as u64, len as u64, s, c]));
                    s += c;
                }
            }
        }
    }
    v
}


// ---------------------------------------------------------------------------------------
// C17 over a history: comparisons must not depend on how many other filters are alive or were built before

fn population_text(i: u64) -> String {
    match i % 4 {
        0 => format!("$share/g{}/p/{}/+", i % 7, i),
        1 => format!("p/{}/#", i),
        2 => format!("p/+/{}", i),
        _ => format!("\u{e9}/{}", i),
    }
}

/// nums = [population size]: that many distinct filters are built and kept alive; then filters from the beginning,
/// the middle and the end of the population are built again from their text (constructor and SUBSCRIBE decoder) and
/// compared with the ones that are held.
fn c17_population(input: &Input, ctx: &mut Ctx) -> CaseResult {
    let n = input.nums()[0];
    let mut held: Vec<TopicFilter> = Vec::with_capacity(n as usize);
    for i in 0..n {
        let t = population_text(i);
        held.push(TopicFilter::try_from(t.clone()).map_err(|e| Violation::new(format!("valid filter {:?} refused: {:?}", t, e)))?);
    }
    let mut probes: Vec<u64> = (0..64).chain((0..n).step_by((n as usize / 1500).max(1))).chain(n.saturating_sub(64)..n).collect();
    probes.sort_unstable();
    probes.dedup();
    for &i in &probes {
        let t = population_text(i);
        let h = &held[i as usize];
        ensure!(**h == *t && h.to_string() == t, "filter {} of a population of {} reads back as {:?} instead of {:?}", i, n, &**h, t);
        let again = TopicFilter::try_from(t.clone()).map_err(|e| Violation::new(format!("{:?}", e)))?;
        let dec = decoded_filter(&t).ok_or_else(|| Violation::new(format!("SUBSCRIBE carrying valid filter {:?} was not decoded", t)))?;
        for (x, how) in [(&again, "the constructor"), (&dec, "decoding a SUBSCRIBE")] {
            ensure!(x == h && h == x, "with {} filters alive, {:?} built again by {} is not equal to the one built earlier from the same text", n, t, how);
            ensure!(x.cmp(h) == std::cmp::Ordering::Equal && h.partial_cmp(x) == Some(std::cmp::Ordering::Equal), "with {} filters alive, {:?} built again by {} does not compare Equal to the earlier one", n, t, how);
            ensure!(hash_of(x) == hash_of(h), "with {} filters alive, {:?} built again by {} hashes differently from the earlier one", n, t, how);
            ensure!(x.shared_info() == h.shared_info(), "with {} filters alive, {:?} built again by {} reports share {:?} instead of {:?}", n, t, how, x.shared_info(), h.shared_info());
        }
        if i + 1 < n {
            let other = &held[i as usize + 1];
            ensure!(again != *other && again.cmp(other) != std::cmp::Ordering::Equal, "filters with different texts {:?} / {:?} compare equal", t, &**other);
        }
        if t.starts_with("$share/") {
            check_shared_parts(&t).map_err(Violation::new)?;
        }
    }
    // the population is dropped and its first texts are built once more
    drop(held);
    for i in 0..64.min(n) {
        let t = population_text(i);
        let a = TopicFilter::try_from(t.clone()).map_err(|e| Violation::new(format!("{:?}", e)))?;
        let b = TopicFilter::try_from(t.clone()).map_err(|e| Violation::new(format!("{:?}", e)))?;
        ensure!(a == b && hash_of(&a) == hash_of(&b) && *a == *t, "after a population of {} filters was dropped, two filters built from {:?} differ", n, t);
    }
    ctx.more_evals(probes.len() as u64);
    ctx.count_distinct(probes.len() as u64);
    ctx.label(if n > (1 << 20) { "population>2^20" } else if n > (1 << 16) { "population>2^16" } else { "population-small" });
    ctx.sample(|| format!("{} distinct filters alive; {} of them rebuilt from text and compared", n, probes.len()));
    Ok(())
}

pub const C17_POPULATION: Sub = Sub { name: "c17.population", f: c17_population };


// ---------------------------------------------------------------------------------------
// look-alikes of the reserved prefixes: only the literal, case-sensitive "$share/" introduces a shared subscription and
// only "$SYS/" a system topic

const LOOK_PREFIXES: [&str; 2] = ["$share/", "$SYS/"];
const LOOK_TAILS: [&str; 3] = ["g/t", "x", "g/$SYS/t"];

/// the prefix with its `pos`-th character replaced by `c`, followed by a tail
fn lookalike(prefix: &str, pos: usize, c: char, tail: &str) -> String {
    let mut s = String::with_capacity(16);
    for (i, p) in prefix.chars().enumerate() {
        s.push(if i == pos { c } else { p });
    }
    s.push_str(tail);
    s
}

/// every case variant of the letters of both prefixes, in front of tails that tell a shared filter from a plain one
pub fn case_variant_strings() -> Vec<Input> {
    let mut v = Vec::new();
    for prefix in LOOK_PREFIXES {
        let letters: Vec<usize> = prefix.char_indices().filter(|(_, c)| c.is_ascii_alphabetic()).map(|(i, _)| i).collect();
        for mask in 0..(1u32 << letters.len()) {
            let mut b = prefix.as_bytes().to_vec();
            for (k, &i) in letters.iter().enumerate() {
                b[i] = if mask >> k & 1 == 1 { b[i].to_ascii_uppercase() } else { b[i].to_ascii_lowercase() };
            }
            let head = String::from_utf8(b).unwrap_or_default();
            for tail in ["a", "g/t", "", "/t", "g/", "+/t", "g/#", "g/+", "g/$SYS/x", "#"] {
                v.push(Input::Text(format!("{}{}", head, tail).into_bytes()));
            }
        }
    }
    v
}

/// reserved-looking words other brokers use in front of topics: none of them means anything to this codec, so a name or
/// filter that starts with one is an ordinary one (not shared, not a system topic)
pub fn vendor_prefix_strings() -> Vec<Input> {
    let mut v = Vec::new();
    for p in ["$queue/", "$queue", "$local/", "$exclusive/", "$delayed/10/", "$oshare/g/", "$aws/things/", "$events/", "$retained/", "$share$/g/", "$sys/", "$Sys/", "$shared/g/", "$share-g/", "$SYS-x/", "queue/", "$/"] {
        for tail in ["jobs", "g/t", "", "t/#", "+/t", "$SYS/x", "$share/g/t"] {
            v.push(Input::Text(format!("{}{}", p, tail).into_bytes()));
        }
    }
    v
}

/// nums = [first code point, count, which (16 / 17 / 18)]
fn lookalike_block(input: &Input, ctx: &mut Ctx) -> CaseResult {
    let n = input.nums();
    let which = n[2];
    let (mut chars, mut strings) = (0u64, 0u64);
    for cp in n[0]..n[0] + n[1] {
        let c = match char::from_u32(cp as u32) {
            Some(c) => c,
            None => continue,
        };
        chars += 1;
        for prefix in LOOK_PREFIXES {
            for (pos, orig) in prefix.chars().enumerate() {
                // the packet paths too where the code point is congruent to the character modulo 256, a case variant
                // of it, or simply small
                let near = (cp as u32) % 256 == orig as u32 || c.to_lowercase().any(|x| x == orig.to_ascii_lowercase()) || c.to_uppercase().any(|x| x == orig.to_ascii_uppercase()) || cp < 0x180;
                for tail in LOOK_TAILS {
                    let s = lookalike(prefix, pos, c, tail);
                    strings += 1;
                    let r = match which {
                        16 => check_filter(&s, near, false).map(|_| ()),
                        17 => {
                            if specpred::filter_valid(&s) {
                                check_shared_parts(&s).map(|_| ())
                            } else {
                                Ok(())
                            }
                        }
                        _ => check_name(&s, near, false).map(|_| ()),
                    };
                    if let Err(m) = r {
                        ctx.refine = Some((if which == 16 { "c16.single" } else if which == 17 { "c17.single" } else { "c18.single" }, Input::Text(s.into_bytes())));
                        return Err(Violation::new(format!("look-alike of {:?} with U+{:04X} at position {}: {}", prefix, cp, pos, m)));
                    }
                }
            }
        }
    }
    ctx.more_evals(strings.saturating_sub(1));
    ctx.count_distinct(strings);
    ctx.label_n("code-points", chars);
    ctx.label_n("look-alike-strings", strings);
    Ok(())
}

pub const C16_LOOKALIKE: Sub = Sub { name: "c16.prefix-lookalikes", f: lookalike_block };
pub const C17_LOOKALIKE: Sub = Sub { name: "c17.prefix-lookalikes", f: lookalike_block };
pub const C18_LOOKALIKE: Sub = Sub { name: "c18.prefix-lookalikes", f: lookalike_block };

pub const C16_RUNS: Sub = Sub { name: "c16.runs", f: c16_runs };
pub const C18_RUNS: Sub = Sub { name: "c18.runs", f: c18_runs };
pub const C16_RANDOM: Sub = Sub { name: "c16.random-long", f: c16_random };
pub const C17_RANDOM: Sub = Sub { name: "c17.random", f: c17_random };
pub const C18_RANDOM: Sub = Sub { name: "c18.random-long", f: c18_random };

pub const C16_BLOCK: Sub = Sub { name: "c16.block", f: c16_block };
pub const C16_SINGLE: Sub = Sub { name: "c16.single", f: c16_single };
pub const C17_BLOCK: Sub = Sub { name: "c17.block", f: c17_block };
pub const C17_SINGLE: Sub = Sub { name: "c17.single", f: c17_single };
pub const C17_TRIPLE: Sub = Sub { name: "c17.triple", f: c17_triple };
pub const C18_BLOCK: Sub = Sub { name: "c18.block", f: c18_block };
pub const C18_SINGLE: Sub = Sub { name: "c18.single", f: c18_single };

pub fn subs() -> Vec<Sub> {
    vec![C16_LOOKALIKE, C17_LOOKALIKE, C18_LOOKALIKE, C17_POPULATION, C16_CODEPOINTS, C17_CODEPOINTS, C18_CODEPOINTS, C16_NESTED, C17_NESTED, C18_NESTED, C16_RUNS, C18_RUNS, C16_BLOCK, C16_SINGLE, C16_RANDOM, C17_BLOCK, C17_SINGLE, C17_TRIPLE, C17_RANDOM, C18_BLOCK, C18_SINGLE, C18_RANDOM]
}

const BLOCK: u64 = 4_096;

/// blocks (prefix, len, start, count) for all strings of length <= max_len (<= max_len_prefixed behind a prefix)
fn blocks(alpha: usize, nprefix: usize, max_len: usize, max_len_prefixed: usize) -> Vec<Input> {
    let mut v = Vec::new();
    for pi in 0..nprefix {
        let ml = if pi == 0 { max_len } else { max_len_prefixed };
        for len in 0..=ml {
            let total = (alpha as u64).pow(len as u32);
            let mut s = 0;
            while s < total {
                let c = BLOCK.min(total - s);
                v.push(Input::Nums(vec![pi as u64, len as u64, s, c]));
                s += c;
            }
        }
    }
    v
}

pub fn run_c16(env: &mut Env) -> RunResult {
    let (ml, mlp) = env.tier.sel((6, 6), (9, 7));
    let b = blocks(FILTER_ALPHA.len(), FILTER_PREFIXES.len(), ml, mlp);
    let n = b.len() as u64;
    env.run_enum(C16_BLOCK, n, true, move |i| b[i as usize].clone())?;
    env.run_inputs(C16_SINGLE, &long_filters())?;
    env.run_inputs(C16_SINGLE, &deep_strings(true))?;
    // the defect repaired by 2d36388 and the shapes named in the property, as a regression tier
    let reg: Vec<Input> = ["+x", "a/+x", "$share/g/+x", "$share/g/+$", "+/", "#", "a/#", "a/#/b", "$share//a", "$share/g/", "$share/g", "$share/a+/b", "$share/a#/b", "$share/g/#", "$share/\u{e9}/\u{1F600}", "/", "//", "a\0"]
        .iter()
        .map(|s| Input::Text(s.as_bytes().to_vec()))
        .collect();
    env.run_inputs(C16_SINGLE, &reg)?;
    env.run_enum(C16_LOOKALIKE, CP_BLOCKS, true, |i| Input::Nums(vec![i * CP_BLOCK, CP_BLOCK, 16]))?;
    env.require("c16.prefix-lookalikes", "look-alike-strings");
    env.run_inputs(C16_SINGLE, &case_variant_strings())?;
    env.run_inputs(C16_SINGLE, &vendor_prefix_strings())?;
    env.run_enum(C16_CODEPOINTS, CP_BLOCKS, true, |i| Input::Nums(vec![i * CP_BLOCK, CP_BLOCK]))?;
    env.require("c16.codepoints", "valid");
    env.require("c16.codepoints", "invalid");
    let nb = nested_blocks(FILTER_ALPHA.len(), FILTER_PREFIXES.len(), env.tier.sel(3, 4));
    let nn = nb.len() as u64;
    env.run_enum(C16_NESTED, nn, true, move |i| nb[i as usize].clone())?;
    env.require("c16.nested-prefixes", "valid-shared");
    env.require("c16.nested-prefixes", "invalid");
    let total = run_count(FILTER_SPECIALS);
    env.run_enum(C16_RUNS, total.div_ceil(2_048), true, |i| Input::Nums(vec![i * 2_048, 2_048]))?;
    env.require("c16.runs", "valid");
    env.require("c16.runs", "invalid");
    env.run_tapes(C16_RANDOM, env.tier.sel(150, 3_000), 40)?;
    env.note(format!("bounded-exhaustive: all strings over {:?} of length <= {} alone and of length <= {} behind each of the prefixes {:?}", FILTER_ALPHA, ml, mlp, &FILTER_PREFIXES[1..]));
    env.require("c16.random-long", "len=65535");
    env.require("c16.random-long", "len>65535");
    env.require("c16.random-long", "valid");
    env.require("c16.block", "valid-shared");
    env.require("c16.block", "invalid");
    env.require("c16.single", "len=65535");
    env.require("c16.single", "len>65535");
    Ok(())
}

pub fn run_c17(env: &mut Env) -> RunResult {
    let (ml, mlp) = env.tier.sel((6, 6), (8, 7));
    let b = blocks(FILTER_ALPHA.len(), FILTER_PREFIXES.len(), ml, mlp);
    let n = b.len() as u64;
    env.run_enum(C17_BLOCK, n, true, move |i| b[i as usize].clone())?;
    let long: Vec<Input> = long_filters().into_iter().chain(deep_strings(true).into_iter().step_by(7)).filter(|i| std::str::from_utf8(i.bytes()).map(specpred::filter_valid).unwrap_or(false)).collect();
    env.run_inputs(C17_SINGLE, &long)?;
    let reg: Vec<Input> = ["$share/g/a", "$share/g//", "$share/g//a", "$share/\u{e9}\u{1F600}/\u{e9}", "$share/$share/$share/x", "$share/g/#", "$share/g/+/+", "/a", "$SYS/a", "$sharex/a/b"]
        .iter()
        .map(|s| Input::Text(s.as_bytes().to_vec()))
        .collect();
    env.run_inputs(C17_SINGLE, &reg)?;
    env.run_enum(C17_LOOKALIKE, CP_BLOCKS, true, |i| Input::Nums(vec![i * CP_BLOCK, CP_BLOCK, 17]))?;
    let cv: Vec<Input> = case_variant_strings().into_iter().filter(|i| std::str::from_utf8(i.bytes()).map(specpred::filter_valid).unwrap_or(false)).collect();
    env.run_inputs(C17_SINGLE, &cv)?;
    let vp: Vec<Input> = vendor_prefix_strings().into_iter().filter(|i| std::str::from_utf8(i.bytes()).map(specpred::filter_valid).unwrap_or(false)).collect();
    env.run_inputs(C17_SINGLE, &vp)?;
    env.run_enum(C17_CODEPOINTS, CP_BLOCKS, true, |i| Input::Nums(vec![i * CP_BLOCK, CP_BLOCK]))?;
    env.require("c17.codepoints", "shared-filters");
    let nb = nested_blocks(FILTER_ALPHA.len(), FILTER_PREFIXES.len(), env.tier.sel(3, 4));
    let nn = nb.len() as u64;
    env.run_enum(C17_NESTED, nn, true, move |i| nb[i as usize].clone())?;
    env.require("c17.nested-prefixes", "shared-filters");
    env.run_tapes(C17_RANDOM, env.tier.sel(4_000, 600_000), 60)?;
    // populations just above the sizes a table might be capped at
    let pops: Vec<Input> = if env.thorough() { vec![300, 65_537 + 1_000, (1 << 20) + 70_000, (1 << 22) + 70_000] } else { vec![300, 65_537 + 1_000, (1 << 20) + 70_000] }.into_iter().map(|n: u64| Input::Nums(vec![n])).collect();
    env.run_inputs(C17_POPULATION, &pops)?;
    env.require("c17.population", "population>2^20");
    env.require("c17.random", "multi-byte-share-name");
    env.require("c17.random", "shared-filter-begins-with-slash");
    env.require("c17.block", "shared-filters");
    env.require("c17.block", "triples-compared");
    Ok(())
}

pub fn run_c18(env: &mut Env) -> RunResult {
    let (ml, mlp) = env.tier.sel((6, 5), (8, 7));
    let b = blocks(NAME_ALPHA.len(), NAME_PREFIXES.len(), ml, mlp);
    let n = b.len() as u64;
    env.run_enum(C18_BLOCK, n, true, move |i| b[i as usize].clone())?;
    env.run_inputs(C18_SINGLE, &long_names())?;
    env.run_inputs(C18_SINGLE, &deep_strings(false))?;
    env.run_enum(C18_LOOKALIKE, CP_BLOCKS, true, |i| Input::Nums(vec![i * CP_BLOCK, CP_BLOCK, 18]))?;
    env.run_inputs(C18_SINGLE, &case_variant_strings())?;
    env.run_inputs(C18_SINGLE, &vendor_prefix_strings())?;
    env.run_enum(C18_CODEPOINTS, CP_BLOCKS, true, |i| Input::Nums(vec![i * CP_BLOCK, CP_BLOCK]))?;
    env.require("c18.codepoints", "valid");
    env.require("c18.codepoints", "invalid");
    let nb = nested_blocks(NAME_ALPHA.len(), NAME_PREFIXES.len(), env.tier.sel(3, 4));
    let nn = nb.len() as u64;
    env.run_enum(C18_NESTED, nn, true, move |i| nb[i as usize].clone())?;
    let total = run_count(NAME_SPECIALS);
    env.run_enum(C18_RUNS, total.div_ceil(2_048), true, |i| Input::Nums(vec![i * 2_048, 2_048]))?;
    env.require("c18.runs", "valid");
    env.require("c18.runs", "invalid");
    env.run_tapes(C18_RANDOM, env.tier.sel(150, 3_000), 40)?;
    env.require("c18.random-long", "len=65535");
    env.require("c18.random-long", "len>65535");
    env.require("c18.random-long", "valid");
    env.note(format!("bounded-exhaustive: all strings over {:?} of length <= {} alone and of length <= {} behind each of the prefixes {:?}", NAME_ALPHA, ml, mlp, &NAME_PREFIXES[1..]));
    env.require("c18.block", "valid");
    env.require("c18.block", "invalid");
    env.require("c18.single", "len=65535");
    env.require("c18.single", "len>65535");
    Ok(())
}

#[allow(dead_code)]
fn _unused(_: &[u8]) -> String {
    hex_short(&[], 0)
}
