//! C10 — encoder output is conformant per the independent reference decoder.

use crate::checks::c01;
use crate::fam::{self, Family, V3, V5};
use crate::gen::GenCfg;
use crate::model::{self, fnv, hex_short, normalize, type_name, Body, Props};
use crate::refdec;
use crate::run::{CaseResult, Ctx, Env, Input, RunResult, Sub, Violation};
use crate::tape::Tape;
use crate::{ensure, viol};

fn label_props(ctx: &mut Ctx, cx: &str, p: &Option<Props>) {
    if let Some(p) = p {
        for it in &p.items {
            ctx.label(&format!("prop:{}:{:02x}", cx, it.id));
        }
    }
}

/// which wire numbers (codes, property ids, option bits) this packet exercises
fn label_numbers(ctx: &mut Ctx, w: &model::WPacket) {
    let t = type_name(w.typ());
    match &w.body {
        Body::Connect { level, props, will, .. } => {
            ctx.label(&format!("level:{}", level));
            label_props(ctx, t, props);
            if let Some(wl) = will {
                label_props(ctx, "WILL", &wl.props);
            }
        }
        Body::Connack { code, props, .. } => {
            ctx.label(&format!("code:{}:{:02x}", t, code));
            label_props(ctx, t, props);
        }
        Body::Publish { props, .. } => label_props(ctx, t, props),
        Body::Ack { reason, props, .. } => {
            if let Some(r) = reason {
                ctx.label(&format!("code:{}:{:02x}", t, r));
            }
            label_props(ctx, t, props);
        }
        Body::Subscribe { props, topics, .. } => {
            label_props(ctx, t, props);
            for (_, o) in topics {
                ctx.label(&format!("subopt:{:02x}", o));
            }
        }
        Body::Suback { props, codes, .. } => {
            label_props(ctx, t, props);
            for c in codes {
                ctx.label(&format!("code:{}:{:02x}", t, c));
            }
        }
        Body::Unsubscribe { props, .. } => label_props(ctx, t, props),
        Body::Reason { reason, props } => {
            if let Some(r) = reason {
                ctx.label(&format!("code:{}:{:02x}", t, r));
            }
            label_props(ctx, t, props);
        }
        Body::Empty => {}
    }
}

pub fn conform<F: Family>(p: &F::Packet, ctx: &mut Ctx) -> CaseResult {
    let enc = match F::encode(p) {
        Ok(b) => b,
        Err(e) => viol!("encode of a valid packet failed: {:?}; packet {}", e, fam::render(p)),
    };
    let bytes: &[u8] = enc.as_ref();
    let want = F::project(p);
    let d = match refdec::refdec(F::FAM, bytes) {
        Ok(d) => d,
        Err(r) => viol!(
            "the reference decoder rejects the encoder's output as {:?}; packet {} bytes {}",
            r,
            fam::render(p),
            hex_short(bytes, 96)
        ),
    };
    ensure!(d.total == bytes.len(), "reference decoder: frame is {} bytes, encoder emitted {}", d.total, bytes.len());
    ensure!(d.minimal, "encoder emitted a non-minimal variable byte integer; packet {} bytes {}", fam::render(p), hex_short(bytes, 64));
    let got = normalize(&d.pkt);
    let exp = normalize(&want);
    ensure!(
        got == exp,
        "the reference decoder recovers different field values from the encoder's output.\n  spec reading: {:?}\n  expected    : {:?}\n  bytes {}",
        got,
        exp,
        hex_short(bytes, 96)
    );
    label_numbers(ctx, &want);
    c01::classify::<F>(p, bytes, ctx);
    if bytes.len() > 4 {
        ctx.nontrivial(fnv(bytes));
        ctx.sample(|| format!("{} {} -> {} ; reference decoder: {}", F::FAM.name(), fam::render(p), hex_short(bytes, 40), fam::render(&got)));
    }
    Ok(())
}

fn case<F: Family>(input: &Input, ctx: &mut Ctx) -> CaseResult {
    let mut t = Tape::new(input.tape());
    let cfg = c01::cfg_for(ctx);
    let p = F::gen(&mut t, &cfg).map_err(|e| Violation::new(e.0))?;
    conform::<F>(&p, ctx)
}

fn case_typed<F: Family>(input: &Input, ctx: &mut Ctx) -> CaseResult {
    let mut t = Tape::new(input.tape());
    let typ = t.pick(F::NTYPES);
    let p = F::gen_of_type(&mut t, &GenCfg::SMALL, typ).map_err(|e| Violation::new(e.0))?;
    conform::<F>(&p, ctx)
}

fn case_sized<F: Family>(input: &Input, ctx: &mut Ctx) -> CaseResult {
    match crate::sized::from_input::<F>(input, ctx) {
        Some(p) => conform::<F>(&p, ctx),
        None => Ok(()),
    }
}

pub const SUB_S3: Sub = Sub { name: "c10.sized.v3", f: case_sized::<V3> };
pub const SUB_S5: Sub = Sub { name: "c10.sized.v5", f: case_sized::<V5> };
pub const SUB_V3: Sub = Sub { name: "c10.conform.v3", f: case::<V3> };
pub const SUB_V5: Sub = Sub { name: "c10.conform.v5", f: case::<V5> };
pub const SUB_T3: Sub = Sub { name: "c10.typed.v3", f: case_typed::<V3> };
pub const SUB_T5: Sub = Sub { name: "c10.typed.v5", f: case_typed::<V5> };

pub fn subs() -> Vec<Sub> {
    vec![SUB_V3, SUB_V5, SUB_T3, SUB_T5, SUB_S3, SUB_S5]
}

pub fn run(env: &mut Env) -> RunResult {
    let n = env.tier.sel(15_000, 300_000);
    env.run_tapes(SUB_V3, n, 96)?;
    env.run_tapes(SUB_V5, n * 2, 200)?;
    env.run_tapes(SUB_T3, n, 96)?;
    env.run_tapes(SUB_T5, n * 2, 200)?;
    let s3 = crate::sized::inputs(model::Fam::V3, env.thorough());
    let n3 = s3.len() as u64;
    env.run_enum(SUB_S3, n3, false, move |i| s3[i as usize].clone())?;
    let s5 = crate::sized::inputs(model::Fam::V5, env.thorough());
    let n5 = s5.len() as u64;
    env.run_enum(SUB_S5, n5, false, move |i| s5[i as usize].clone())?;
    env.require("c10.sized.v5", "sized:2MiB-boundary");
    // every enum variant that is written as a wire number must have been exercised
    for t in [model::T_CONNACK, model::T_PUBACK, model::T_PUBREC, model::T_PUBREL, model::T_PUBCOMP, model::T_SUBACK, model::T_UNSUBACK, model::T_DISCONNECT, model::T_AUTH] {
        for c in model::reason_codes(t) {
            env.require("c10.typed.v5", &format!("code:{}:{:02x}", type_name(t), c));
        }
    }
    for c in 0..=5u8 {
        env.require("c10.typed.v3", &format!("code:CONNACK:{:02x}", c));
    }
    for c in [0u8, 1, 2, 0x80] {
        env.require("c10.typed.v3", &format!("code:SUBACK:{:02x}", c));
    }
    for (id, _, _, mask) in model::PROP_TABLE {
        for cx in 1..=16u8 {
            if mask & (1 << cx) != 0 {
                env.require("c10.typed.v5", &format!("prop:{}:{:02x}", type_name(cx), id));
            }
        }
    }
    for q in 0..3u8 {
        for nl in 0..2u8 {
            for rap in 0..2u8 {
                for rh in 0..3u8 {
                    env.require("c10.typed.v5", &format!("subopt:{:02x}", q | (nl << 2) | (rap << 3) | (rh << 4)));
                }
            }
        }
    }
    env.require("c10.typed.v3", "level:3");
    env.require("c10.typed.v3", "level:4");
    env.require("c10.typed.v5", "level:5");
    Ok(())
}
