//! C05 — the poll decoder is schedule-independent and cancellation-safe.

use crate::checks::c01;
use crate::corpus;
use crate::fam::{self, Family, PollRun, V3, V5};
use crate::gen::GenCfg;
use crate::model::{fnv, hex_short, serialize, type_name};
use crate::mutate;
use crate::refdec;
use crate::run::{CaseResult, Ctx, Env, Input, RunResult, Sub, Violation};
use crate::sio::Step;
use crate::tape::Tape;
use crate::ensure;

/// compares a scheduled run with the one-shot run on the same bytes
fn compare<F: Family>(data: &[u8], one: &PollRun<F>, run: &PollRun<F>, what: &str) -> Result<(), String> {
    let show = |r: &PollRun<F>| match &r.result {
        Ok(ok) => format!("Ok(total {}, body {} bytes, {})", ok.total, ok.body.len(), fam::render(&ok.pkt).chars().take(100).collect::<String>()),
        Err(e) => format!("Err({:?})", e),
    };
    if let Some(got) = &run.transient_not_surfaced {
        return Err(format!("{}: the transport reported a transient failure in a poll and the decoder answered {} instead of handing that I/O error on; stream {}", what, got, hex_short(data, 64)));
    }
    if run.result != one.result {
        return Err(format!("{}: result {} differs from the uninterrupted run's {} on stream {}", what, show(run), show(one), hex_short(data, 64)));
    }
    if run.lost_wakeup {
        return Err(format!("{}: the decoder returned Pending in a poll in which the task's waker was not woken (the transport wakes the waker it is handed): the decode would never be polled again; stream {}", what, hex_short(data, 64)));
    }
    if run.spurious_pending {
        return Err(format!("{}: the decoder returned Pending in a poll in which the transport did not; stream {}", what, hex_short(data, 64)));
    }
    // frame geometry from the harness' own header parse
    let bounds = refdec::frame_bounds(data).ok();
    if let Ok(ok) = &run.result {
        if run.pos != ok.total {
            return Err(format!("{}: success after consuming {} bytes but total {} is reported; stream {}", what, run.pos, ok.total, hex_short(data, 64)));
        }
    } else if let Some((hl, rl)) = bounds {
        if run.pos > hl + rl {
            return Err(format!("{}: {} bytes consumed for a rejected frame of {} bytes; stream {}", what, run.pos, hl + rl, hex_short(data, 64)));
        }
    }
    for rec in &run.log {
        // (while the header is incomplete the frame end is unknown: nothing can be demanded)
        let limit = match bounds {
            Some((hl, rl)) => (hl + rl).saturating_sub(rec.pos).max(1),
            None => usize::MAX,
        };
        if rec.cap > limit {
            return Err(format!(
                "{}: at stream position {} the decoder asked the transport for {} bytes but only {} remain in the current frame; stream {}",
                what,
                rec.pos,
                rec.cap,
                limit,
                hex_short(data, 64)
            ));
        }
        if let Some((hl, rl)) = bounds {
            if rec.pos >= hl + rl && rl + hl > 0 && rec.pos > 0 && run.result.is_ok() {
                return Err(format!("{}: a read was issued at position {} beyond the end of the frame ({} bytes)", what, rec.pos, hl + rl));
            }
        }
    }
    Ok(())
}

/// Failures after which a caller ordinarily tries again with the state it holds: the read was interrupted, would
/// have blocked, or ran into a read timeout. Nothing was consumed; the bytes are delivered by the next read.
pub const TRANSIENT: [std::io::ErrorKind; 3] = [std::io::ErrorKind::Interrupted, std::io::ErrorKind::WouldBlock, std::io::ErrorKind::TimedOut];

/// schedule from a composition: bit i of `comp` set => the chunk ends after byte i+1
fn composition_steps(n: usize, comp: u64, mode: u64) -> Vec<Step> {
    let mut steps = Vec::new();
    let mut run = 0usize;
    for i in 0..n {
        run += 1;
        let cut = i + 1 == n || (comp >> i) & 1 == 1;
        if cut {
            if mode == 4 {
                steps.push(Step::Fail(TRANSIENT[(i + run) % TRANSIENT.len()]));
            } else if mode == 5 {
                if i + 1 > run {
                    steps.push(Step::End); // the previous piece is exhausted before this one is delivered
                }
            } else if mode >= 1 {
                steps.push(Step::Pending);
            }
            steps.push(Step::Chunk(run));
            run = 0;
        }
    }
    if mode == 4 {
        steps.push(Step::Fail(TRANSIENT[n % TRANSIENT.len()]));
    } else if mode == 5 {
    } else if mode >= 1 {
        steps.push(Step::Pending); // also before the read that meets EOF / after the last chunk
    }
    steps
}

/// the fixed list of short streams for the exhaustive part: the shortest packet of every type,
/// short malformed frames, truncated streams, streams with trailing bytes
pub fn short_streams<F: Family>() -> Vec<Vec<u8>> {
    let mut v: Vec<Vec<u8>> = Vec::new();
    for typ in 0..F::NTYPES {
        let mut t = Tape::new(&[]);
        if let Ok(p) = F::gen_of_type(&mut t, &GenCfg::SMALL, typ) {
            if let Ok(b) = F::encode(&p) {
                let b = b.as_ref().to_vec();
                // the long-form spelling, one catalogue malformation, a truncation, trailing bytes
                let w = F::project(&p);
                if let Some(l) = serialize(&w) {
                    if l != b {
                        v.push(l);
                    }
                }
                let sites = mutate::sites(&w);
                let fixed: [u16; 8] = [0x4000, 0x9000, 0x2000, 0xC000, 0x1000, 0x7000, 0xE000, 0x3000];
                for (k, s) in sites.iter().enumerate() {
                    if k % 5 == typ % 5 {
                        let mut tt = Tape::new(&fixed);
                        if let Some(m) = mutate::apply(&w, s, &mut tt) {
                            v.push(m.bytes);
                        }
                    }
                }
                if b.len() > 2 {
                    v.push(b[..b.len() - 1].to_vec());
                }
                let mut ext = b.clone();
                ext.extend_from_slice(&[0xC0, 0x00]);
                v.push(ext);
                v.push(b);
            }
        }
    }
    for h in ["c08000", "c0808000", "c080808000", "d0800000", "e08000", "f08000", "3080", "30808080", "3081808000", "c0050102030405", "ff00", "0000", "30ffffffff00"] {
        if let Some(b) = crate::model::unhex(h) {
            v.push(b);
        }
    }
    v.sort();
    v.dedup();
    v
}

/// nums = [stream index, first composition, count]
fn case_compositions<F: Family>(input: &Input, ctx: &mut Ctx) -> CaseResult {
    let n = input.nums();
    let (si, first, count) = (n[0] as usize, n[1], n[2]);
    let streams = short_streams::<F>();
    let data = streams.get(si).ok_or_else(|| Violation::new("MQV-INTERNAL: stream index out of range"))?;
    let one = fam::dec_poll_scripted::<F>(data, &[], 0, None, true);
    compare::<F>(data, &one, &one, "one-shot").map_err(Violation::new)?;
    let mut runs = 0u64;
    for comp in first..first + count {
        for mode in 0..6u64 {
            // mode 3 = mode 2 continuing from a clone of the caller-held state;
            // mode 4 = a transient transport failure before every read, after which the caller polls again;
            // mode 5 = the stream arrives as successive slices: each piece ends with an empty read, the decoder answers
            //          "end of input", and the caller polls again with the same state once the next piece is there
            let steps = composition_steps(data.len(), comp, if mode >= 4 { mode } else { mode.min(2) });
            let drop_mask = if mode == 2 || mode == 3 { u64::MAX } else { 0 };
            // the transport's way of filling the ReadBuf alternates with the composition
            let style = ((comp ^ mode) & 1) as u8 | if mode == 3 { 2 } else { 0 } | if mode == 4 { ((comp % 6) as u8) << 4 } else { 0 };
            let run = fam::dec_poll_styled::<F>(data, &steps, drop_mask, None, true, style);
            let what = format!("{} composition {:#b} of {} bytes, mode {} ({}), transport fill style {}", F::FAM.name(), comp, data.len(), mode, ["no Pending", "Pending before every read", "Pending before every read, future dropped and re-created at every Pending", "Pending before every read, future re-created from a clone of the state at every Pending", "a transient transport failure (Interrupted / WouldBlock / TimedOut) before every read, polled again with the same state", "successive slices: an empty read at the end of every piece, polled again with the same state"][mode as usize], style);
            if let Err(m) = compare::<F>(data, &one, &run, &what) {
                ctx.refine = Some((if F::FAM == crate::model::Fam::V3 { "c05.schedule.v3" } else { "c05.schedule.v5" }, Input::Nums(vec![si as u64, comp, mode])));
                return Err(Violation::new(m));
            }
            runs += 1;
        }
    }
    ctx.more_evals(runs.saturating_sub(1));
    ctx.count_distinct(runs);
    ctx.label_n("schedules", runs);
    ctx.label(if one.result.is_ok() { "stream:accepted" } else { "stream:rejected-or-incomplete" });
    if first == 0 {
        ctx.label(&format!("stream-type:{}", type_name(data[0] >> 4)));
        ctx.sample(|| format!("{} stream {} ({} bytes): compositions {}.. x 6 modes; one-shot result {:?}", F::FAM.name(), hex_short(data, 24), data.len(), first, one.result.as_ref().map(|o| o.total)));
    }
    Ok(())
}

/// nums = [stream index, composition, mode]
fn case_schedule<F: Family>(input: &Input, ctx: &mut Ctx) -> CaseResult {
    let n = input.nums();
    let streams = short_streams::<F>();
    let data = streams.get(n[0] as usize).ok_or_else(|| Violation::new("MQV-INTERNAL: stream index out of range"))?;
    let one = fam::dec_poll_scripted::<F>(data, &[], 0, None, true);
    let steps = composition_steps(data.len(), n[1], if n[2] >= 4 { n[2] } else { n[2].min(2) });
    let style = ((n[1] ^ n[2]) & 1) as u8 | if n[2] == 3 { 2 } else { 0 } | if n[2] == 4 { ((n[1] % 6) as u8) << 4 } else { 0 };
    let run = fam::dec_poll_styled::<F>(data, &steps, if n[2] == 2 || n[2] == 3 { u64::MAX } else { 0 }, None, true, style);
    compare::<F>(data, &one, &run, &format!("composition {:#b} mode {}", n[1], n[2])).map_err(Violation::new)?;
    ctx.count_distinct(1);
    Ok(())
}

fn random_steps(t: &mut Tape, len: usize) -> Vec<Step> {
    let n = t.pick(len.min(160) + 4);
    let big = t.flag();
    let failing = t.chance(1, 3);
    (0..n)
        .map(|_| {
            if failing && t.chance(1, 5) {
                if t.flag() {
                    Step::End
                } else {
                    Step::Fail(TRANSIENT[t.pick(TRANSIENT.len())])
                }
            } else if t.chance(1, 3) {
                Step::Pending
            } else {
                Step::Chunk(1 + if big { t.pick(64) } else { t.pick(4) })
            }
        })
        .collect()
}

/// A CONNECT with several thousand body bytes whose protocol name / level is this family's, the other family's, an
/// invalid pair or not UTF-8, complete or cut off somewhere after the level byte: the verdict on such a stream is
/// reached long before its end, and must not depend on where the transport pauses.
fn large_connect<F: Family>(t: &mut Tape) -> Vec<u8> {
    use crate::model::{Body, Fam, Props, WPacket};
    let v5 = F::FAM == Fam::V5;
    let (name, level): (Vec<u8>, u8) = match t.pick(6) {
        0 | 1 => if v5 { (b"MQTT".to_vec(), 5) } else if t.flag() { (b"MQTT".to_vec(), 4) } else { (b"MQIsdp".to_vec(), 3) },
        2 => if v5 { (b"MQTT".to_vec(), 4) } else { (b"MQTT".to_vec(), 5) },
        3 => if v5 { (b"MQIsdp".to_vec(), 3) } else { (b"MQTT".to_vec(), 6) },
        4 => (b"MQTX".to_vec(), if v5 { 5 } else { 4 }),
        _ => (vec![b'M', b'Q', 0xFF, b'T'], if v5 { 5 } else { 4 }),
    };
    // the tail is laid out for this family whatever the pair says
    let big = 4_200 + t.pick(6_000);
    let w = WPacket::new(
        F::FAM,
        0x10,
        Body::Connect {
            name,
            level,
            flags: 0x02,
            keep_alive: 60,
            props: if v5 { Some(Props::default()) } else { None },
            client_id: vec![b'c'; big],
            will: None,
            username: None,
            password: None,
        },
    );
    let mut b = serialize(&w).unwrap_or_default();
    if t.flag() && b.len() > 40 {
        let keep = 3 + t.pick(b.len() - 3);
        b.truncate(keep);
    }
    b
}

fn case_random<F: Family>(input: &Input, ctx: &mut Ctx) -> CaseResult {
    let mut t = Tape::new(input.tape());
    let (data, origin): (Vec<u8>, &str) = if t.chance(1, 10) {
        (large_connect::<F>(&mut t), "large-connect")
    } else if ctx.thorough && t.chance(1, 512) {
        // a packet whose header uses four length bytes
        let p = c01::sized_publish::<F>(2_097_152 + t.pick(4096));
        (F::encode(&p).map(|b| b.as_ref().to_vec()).unwrap_or_default(), "valid-4-byte-header")
    } else {
        let cfg = crate::gen::cfg_mix(&mut t, ctx.thorough);
        corpus::gen_input::<F>(&mut t, &cfg)
    };
    // declared lengths far beyond the input would make the 1-byte schedules pointless but are fine
    let one = fam::dec_poll_scripted::<F>(&data, &[], 0, None, true);
    compare::<F>(&data, &one, &one, "one-shot").map_err(Violation::new)?;
    let hl = refdec::frame_bounds(&data).map(|x| x.0).unwrap_or(0);
    let mut interesting = false;
    for _ in 0..3 {
        let mut steps = random_steps(&mut t, data.len());
        if hl > 2 && t.flag() {
            // make sure the variable byte integer itself is interrupted
            let mut pre = vec![Step::Chunk(1), Step::Pending, Step::Chunk(1), Step::Pending];
            pre.append(&mut steps);
            steps = pre;
        }
        let drop_mask = match t.pick(3) {
            0 => 0,
            1 => u64::MAX,
            _ => (t.u16() as u64) | ((t.u16() as u64) << 16) | ((t.u16() as u64) << 32),
        };
        let style = t.pick(4) as u8 | ((t.pick(6) as u8) << 4);
        let run = fam::dec_poll_styled::<F>(&data, &steps, drop_mask, None, true, style);
        if style & 1 == 1 {
            ctx.label("transport-fills-by-initialize-and-advance");
        }
        if style & 2 != 0 && drop_mask != 0 {
            ctx.label("resumed-from-cloned-state");
        }
        if run.resumed_after_error > 0 {
            ctx.label("resumed-after-transient-transport-failure");
        }
        if run.resumed_after_end > 0 {
            ctx.label("resumed-after-the-end-of-a-piece");
        }
        let what = format!("{} stream [{}] under schedule {:?}, drop mask {:#x}, transport fill style {}", F::FAM.name(), origin, &steps[..steps.len().min(24)], drop_mask, style);
        compare::<F>(&data, &one, &run, &what).map_err(Violation::new)?;
        let body_reads = run.log.iter().filter(|r| r.pos >= hl && r.got.map(|g| g > 0 && g != usize::MAX).unwrap_or(false)).count();
        let pend = run.log.iter().filter(|r| r.got.is_none()).count();
        if body_reads >= 2 || (pend > 0 && drop_mask != 0) {
            interesting = true;
        }
        if pend > 0 && drop_mask != 0 {
            ctx.label("dropped-at-pending");
        }
        if hl > 2 && run.log.iter().any(|r| r.got.is_none() && r.pos > 0 && r.pos < hl) {
            ctx.label("pending-inside-var-int");
        }
    }
    // long runs of ready reads without any Pending (one and two bytes at a time)
    if data.len() <= 70_000 {
        for k in [1usize, 2] {
            let steps: Vec<Step> = (0..data.len() / k + 2).map(|_| Step::Chunk(k)).collect();
            let run = fam::dec_poll_scripted::<F>(&data, &steps, 0, None, true);
            let what = format!("{} stream [{}] delivered {} byte(s) per read without any Pending", F::FAM.name(), origin, k);
            compare::<F>(&data, &one, &run, &what).map_err(Violation::new)?;
        }
        ctx.label("fine-grained-without-pending");
        ctx.more_evals(2);
    }
    ctx.more_evals(2);
    ctx.label(&format!("origin:{}", origin));
    ctx.label(&format!("header-width:{}", hl.saturating_sub(1)));
    ctx.label(if one.result.is_ok() { "stream:accepted" } else { "stream:rejected-or-incomplete" });
    if interesting && ctx.nontrivial(fnv(&data)) {
        ctx.sample(|| format!("{} stream {} ({} bytes, {}): 3 random schedules; one-shot {:?}", F::FAM.name(), hex_short(&data, 32), data.len(), origin, one.result.as_ref().map(|o| o.total).map_err(|e| format!("{:?}", e))));
    }
    Ok(())
}

/// streams whose header uses 2-4 length bytes: every composition of the first 8 bytes, the rest
/// delivered in one read / one byte then the rest / chunks of 7 / chunks of 1000, x 3 modes.
/// nums = [remaining length, variant]; variant 0 = valid PUBLISH, 1 = non-minimal header, 2 = trailing packet
fn header_stream<F: Family>(rl: usize, variant: u64) -> Vec<u8> {
    let p = c01::sized_publish::<F>(rl);
    let enc = F::encode(&p).map(|b| b.as_ref().to_vec()).unwrap_or_default();
    match variant {
        1 => {
            // the same frame with its remaining length spelled in one more byte (accepted: L9)
            match refdec::frame_bounds(&enc) {
                Ok((hl, r)) if hl < 5 => {
                    let mut v = vec![enc[0]];
                    crate::model::write_varint(&mut v, r as u32, hl as u8);
                    v.extend_from_slice(&enc[hl..]);
                    v
                }
                _ => enc,
            }
        }
        2 => {
            let mut v = enc;
            v.extend_from_slice(&[0xC0, 0x00, 0xD0, 0x00]);
            v
        }
        _ => enc,
    }
}

fn case_header_splits<F: Family>(input: &Input, ctx: &mut Ctx) -> CaseResult {
    let n = input.nums();
    let (rl, variant) = (n[0] as usize, n.get(1).copied().unwrap_or(0));
    let data = header_stream::<F>(rl, variant);
    let one = fam::dec_poll_scripted::<F>(&data, &[], 0, None, true);
    compare::<F>(&data, &one, &one, "one-shot").map_err(Violation::new)?;
    let k = data.len().min(8);
    let big = data.len() > 100_000;
    let mut runs = 0u64;
    for comp in 0..(1u64 << (k - 1)) {
        for tail in 0..4u64 {
            if big && tail >= 2 {
                continue;
            }
            for mode4 in 0..4u64 {
                // mode 3: as mode 1, with a transient transport failure in place of every Pending
                let mode = if mode4 == 3 { 1 } else { mode4 };
                if big && mode4 == 1 {
                    continue;
                }
                let mut steps = composition_steps(k, comp, mode);
                if mode >= 1 {
                    steps.pop(); // the trailing Pending belongs after the whole stream
                }
                let rest = data.len() - k;
                match tail {
                    0 => {}
                    1 => {
                        if mode >= 1 {
                            steps.push(Step::Pending);
                        }
                        steps.push(Step::Chunk(1));
                    }
                    2 => {
                        for _ in 0..(rest / 7 + 1).min(4000) {
                            if mode >= 1 {
                                steps.push(Step::Pending);
                            }
                            steps.push(Step::Chunk(7));
                        }
                    }
                    _ => {
                        for _ in 0..(rest / 1000 + 1).min(4000) {
                            if mode >= 1 {
                                steps.push(Step::Pending);
                            }
                            steps.push(Step::Chunk(1000));
                        }
                    }
                }
                if mode >= 1 {
                    steps.push(Step::Pending);
                }
                if mode4 == 3 {
                    for (i, st) in steps.iter_mut().enumerate() {
                        if *st == Step::Pending {
                            *st = Step::Fail(TRANSIENT[i % TRANSIENT.len()]);
                        }
                    }
                }
                let run = fam::dec_poll_scripted::<F>(&data, &steps, if mode == 2 { u64::MAX } else { 0 }, None, true);
                let mode = mode4;
                let what = format!("{} PUBLISH with remaining length {} (variant {}), first {} bytes split as {:#b}, tail delivery {}, mode {}", F::FAM.name(), rl, variant, k, comp, tail, mode);
                compare::<F>(&data, &one, &run, &what).map_err(Violation::new)?;
                runs += 1;
            }
        }
    }
    ctx.more_evals(runs.saturating_sub(1));
    ctx.count_distinct(runs);
    ctx.label_n("schedules", runs);
    let hl = refdec::frame_bounds(&data).map(|x| x.0).unwrap_or(0);
    ctx.label(&format!("header-width:{}", hl.saturating_sub(1)));
    ctx.sample(|| format!("{} stream {} ({} bytes): all {} splits of the first {} bytes x tail deliveries x modes", F::FAM.name(), hex_short(&data, 12), data.len(), 1u64 << (k - 1), k));
    Ok(())
}

/// A transport that is slow *inside* `poll_read` (it decrypts, decompresses, or copies from a slow device) but never
/// answers Pending: however long the reads take, the decoder finishes in the one poll and never reports not-ready
/// itself. The stream is a PUBLISH of 40..440 body bytes, optionally followed by another packet, delivered one or two
/// bytes per read with every read taking 100 microseconds (a few dozen milliseconds per poll).
fn case_slow<F: Family>(input: &Input, ctx: &mut Ctx) -> CaseResult {
    let mut t = Tape::new(input.tape());
    let rl = 40 + t.pick(400);
    let p = c01::sized_publish::<F>(rl);
    let mut data = F::encode(&p).map(|b| b.as_ref().to_vec()).unwrap_or_default();
    if t.flag() {
        data.extend_from_slice(&[0xC0, 0x00]);
    }
    let one = fam::dec_poll_scripted::<F>(&data, &[], 0, None, true);
    let k = 1 + t.pick(2);
    let steps: Vec<Step> = (0..data.len() / k + 2).map(|_| Step::Chunk(k)).collect();
    crate::sio::SLOW_READ_US.with(|c| c.set(100));
    let run = fam::dec_poll_scripted::<F>(&data, &steps, 0, None, true);
    crate::sio::SLOW_READ_US.with(|c| c.set(0));
    let what = format!("{} PUBLISH of {} body bytes delivered {} byte(s) per read, every read taking 100 microseconds inside poll_read, no Pending", F::FAM.name(), rl, k);
    compare::<F>(&data, &one, &run, &what).map_err(Violation::new)?;
    ensure!(run.polls == 1, "{}: the decoder needed {} polls although the transport was ready every time", what, run.polls);
    ctx.label("slow-reads-without-pending");
    ctx.count_distinct(1);
    if rl % 16 == 0 {
        ctx.sample(|| format!("{}: one poll, {} reads", what, run.log.len()));
    }
    Ok(())
}

pub const SUB_SLOW3: Sub = Sub { name: "c05.slow-transport.v3", f: case_slow::<V3> };
pub const SUB_SLOW5: Sub = Sub { name: "c05.slow-transport.v5", f: case_slow::<V5> };
pub const SUB_H3: Sub = Sub { name: "c05.header-splits.v3", f: case_header_splits::<V3> };
pub const SUB_H5: Sub = Sub { name: "c05.header-splits.v5", f: case_header_splits::<V5> };
pub const SUB_C3: Sub = Sub { name: "c05.compositions.v3", f: case_compositions::<V3> };
pub const SUB_C5: Sub = Sub { name: "c05.compositions.v5", f: case_compositions::<V5> };
pub const SUB_S3: Sub = Sub { name: "c05.schedule.v3", f: case_schedule::<V3> };
pub const SUB_S5: Sub = Sub { name: "c05.schedule.v5", f: case_schedule::<V5> };
pub const SUB_R3: Sub = Sub { name: "c05.random.v3", f: case_random::<V3> };
pub const SUB_R5: Sub = Sub { name: "c05.random.v5", f: case_random::<V5> };

pub fn subs() -> Vec<Sub> {
    vec![SUB_C3, SUB_C5, SUB_S3, SUB_S5, SUB_R3, SUB_R5, SUB_H3, SUB_H5, SUB_SLOW3, SUB_SLOW5]
}

fn blocks<F: Family>(max_len: usize) -> (Vec<Input>, usize, usize) {
    let streams = short_streams::<F>();
    let mut v = Vec::new();
    let mut used = 0;
    for (i, s) in streams.iter().enumerate() {
        if s.is_empty() || s.len() > max_len {
            continue;
        }
        used += 1;
        let total = 1u64 << (s.len() - 1);
        let bs = 512u64.min(total);
        let mut c = 0;
        while c < total {
            v.push(Input::Nums(vec![i as u64, c, bs]));
            c += bs;
        }
    }
    (v, used, streams.len())
}

pub fn run(env: &mut Env) -> RunResult {
    let max_len = env.tier.sel(15usize, 18usize);
    let (b3, u3, n3) = blocks::<V3>(max_len);
    let n = b3.len() as u64;
    env.run_enum(SUB_C3, n, true, move |i| b3[i as usize].clone())?;
    let (b5, u5, n5) = blocks::<V5>(max_len);
    let n = b5.len() as u64;
    env.run_enum(SUB_C5, n, true, move |i| b5[i as usize].clone())?;
    env.note(format!("exhaustive part: every composition x 6 modes (successive slices with the same state; no Pending; Pending before every read; future dropped and re-created at every Pending; the same continuing from a clone of the state; a transient transport failure before every read) for {} of {} v3 and {} of {} v5 short streams (length <= {})", u3, n3, u5, n5, max_len));
    let n = env.tier.sel(20_000, 250_000);
    env.run_tapes(SUB_R3, n, 260)?;
    env.run_tapes(SUB_R5, n * 2, 360)?;
    // multi-byte headers: every split of the first 8 bytes
    let mut hs: Vec<Input> = Vec::new();
    let rls: &[u64] = if env.thorough() {
        &[128, 129, 200, 255, 16_383, 16_384, 16_385, 16_500, 16_511, 20_000, 65_536, 2_097_151, 2_097_152, 2_097_153, 2_097_300, 3_000_003]
    } else {
        &[128, 129, 200, 16_383, 16_384, 16_385, 16_500, 20_003, 2_097_152]
    };
    for rl in rls {
        for variant in 0..3u64 {
            if *rl > 100_000 && variant == 1 && !env.thorough() {
                continue;
            }
            hs.push(Input::Nums(vec![*rl, variant]));
        }
    }
    let k = hs.len() as u64;
    let h2 = hs.clone();
    env.run_enum(SUB_H3, k, false, move |i| h2[i as usize].clone())?;
    env.run_enum(SUB_H5, k, false, move |i| hs[i as usize].clone())?;
    let n = env.tier.sel(48, 480);
    env.run_tapes(SUB_SLOW3, n, 8)?;
    env.run_tapes(SUB_SLOW5, n, 8)?;
    env.require("c05.slow-transport.v3", "slow-reads-without-pending");
    env.require("c05.slow-transport.v5", "slow-reads-without-pending");
    for s in ["c05.header-splits.v3", "c05.header-splits.v5"] {
        env.require(s, "header-width:2");
        env.require(s, "header-width:3");
        env.require(s, "header-width:4");
    }
    for s in ["c05.random.v3", "c05.random.v5"] {
        env.require(s, "transport-fills-by-initialize-and-advance");
        env.require(s, "resumed-from-cloned-state");
        env.require(s, "resumed-after-transient-transport-failure");
        env.require(s, "resumed-after-the-end-of-a-piece");
        env.require(s, "origin:large-connect");
        for l in ["dropped-at-pending", "pending-inside-var-int", "header-width:2", "header-width:3", "stream:accepted", "stream:rejected-or-incomplete"] {
            env.require(s, l);
        }
        if env.thorough() {
            env.require(s, "header-width:4");
        }
    }
    for s in ["c05.compositions.v3", "c05.compositions.v5"] {
        for t in ["CONNECT", "CONNACK", "PUBLISH", "PUBACK", "SUBSCRIBE", "SUBACK", "UNSUBSCRIBE", "UNSUBACK", "PINGREQ", "DISCONNECT"] {
            env.require(s, &format!("stream-type:{}", t));
        }
    }
    Ok(())
}
