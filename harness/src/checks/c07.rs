//! C07 — every strict prefix of a valid encoding is "incomplete"; trailing bytes are ignored.

use crate::fam::{self, Family, V3, V5};
use crate::gen::GenCfg;
use crate::model::{self, fnv, hex_short, Kind, Span};
use crate::run::{CaseResult, Ctx, Env, Input, RunResult, Sub, Violation};
use crate::sio::{self, Step};
use crate::tape::Tape;
use crate::{ensure, viol};

/// positions to cut at: all of them for short encodings, otherwise every field boundary (+-1)
/// plus tape-chosen ones
pub fn positions(len: usize, spans: &[Span], t: &mut Tape, all_below: usize, extra: usize) -> Vec<usize> {
    if len <= all_below {
        return (0..len).collect();
    }
    let mut v: Vec<usize> = vec![0, 1, 2, len - 1, len - 2];
    for s in spans {
        for p in [s.start.wrapping_sub(1), s.start, s.start + 1, s.end.wrapping_sub(1)] {
            if p < len {
                v.push(p);
            }
        }
    }
    for _ in 0..extra {
        v.push(t.pick(len));
    }
    v.sort_unstable();
    v.dedup();
    v
}

pub fn kind_label(k: Kind) -> &'static str {
    match k {
        Kind::Ctl => "cut:control-byte",
        Kind::RemLen => "cut:remaining-length",
        Kind::U8 | Kind::U16 | Kind::U32 => "cut:fixed-int",
        Kind::VarInt => "cut:var-int",
        Kind::StrLen | Kind::BinLen => "cut:length-prefix",
        Kind::StrData | Kind::BinData => "cut:string-or-binary-data",
        Kind::PropLen => "cut:property-length",
        Kind::PropId => "cut:property-id",
        Kind::Payload => "cut:payload",
        Kind::Raw => "cut:raw",
    }
}

pub fn spans_of<F: Family>(p: &F::Packet, enc: &[u8]) -> Vec<Span> {
    match model::serialize_spans(&F::project(p), true) {
        Some((b, s)) if b == enc => s,
        _ => Vec::new(),
    }
}

fn prefixes<F: Family>(p: &F::Packet, t: &mut Tape, ctx: &mut Ctx) -> CaseResult {
    let enc = match F::encode(p) {
        Ok(b) => b.as_ref().to_vec(),
        Err(e) => viol!("encode of a valid packet failed: {:?}; packet {}", e, fam::render(p)),
    };
    let spans = spans_of::<F>(p, &enc);
    let hl_of_enc = crate::refdec::frame_bounds(&enc).map(|x| x.0).unwrap_or(2);
    let cuts = positions(enc.len(), &spans, t, 400, 24);
    let mut interesting = false;
    let mut eof_ctr = t.pick(24);
    for &k in &cuts {
        let pre = &enc[..k];
        match F::decode(pre) {
            Ok(None) => {}
            other => viol!(
                "blocking decoder on the first {} of {} bytes returned {:?} instead of Ok(None); packet {} bytes {}",
                k,
                enc.len(),
                other.map(|o| o.map(|q| fam::render(&q))),
                fam::render(p),
                hex_short(&enc, 64)
            ),
        }
        let (r, _) = fam::dec_async::<F>(pre);
        match r {
            Err(e) if F::is_eof(&e) => {}
            other => viol!("async decoder on the first {} of {} bytes returned {:?} instead of an EOF error; packet {}", k, enc.len(), other.map(|q| fam::render(&q)), fam::render(p)),
        }
        // the bare fixed header of the same prefix: incomplete while the prefix ends inside it, the header itself afterwards
        if k <= hl_of_enc + 2 {
            let hb = F::header_decode(pre);
            let mut rd: &[u8] = pre;
            let ha = futures_lite::future::block_on(F::header_decode_async(&mut rd));
            for (h, how) in [(&hb, "Header::decode"), (&ha, "Header::decode_async")] {
                if k < hl_of_enc {
                    ensure!(matches!(h, Err(e) if F::is_eof(e)), "{} on the first {} bytes of an encoding whose fixed header is {} bytes long returned {:?} instead of an EOF error; packet {}", how, k, hl_of_enc, h, fam::render(p));
                } else {
                    ensure!(matches!(h, Ok(x) if F::header_parts(x).4 as usize == enc.len() - hl_of_enc), "{} on the first {} bytes (complete fixed header of {} bytes) returned {:?}; packet {}", how, k, hl_of_enc, h, fam::render(p));
                }
            }
            ctx.label("bare-header-of-prefix");
        }
        let run = fam::dec_poll::<F>(pre);
        match run.result {
            Err(e) if F::is_eof(&e) => {}
            other => viol!("poll decoder on the first {} of {} bytes returned {:?} instead of an EOF error; packet {}", k, enc.len(), other.map(|q| fam::render(&q.pkt)), fam::render(p)),
        }
        // "incomplete" means the rest may still come: the prefix as a first instalment (its end reported as end of input, an
        // EOF error from the decoder), then the rest with the same state - the packet, nothing lost of what was consumed
        if k >= 1 && enc.len() <= 70_000 && (k <= hl_of_enc + 4 || k % 3 == 0) {
            let mut steps: Vec<Step> = vec![Step::Chunk(1); k.min(hl_of_enc)];
            if k > hl_of_enc {
                steps.push(Step::Chunk(k - hl_of_enc));
            }
            steps.push(Step::End);
            let two = fam::dec_poll_styled::<F>(&enc, &steps, 0, None, false, (k & 1) as u8);
            match &two.result {
                Ok(ok) if ok.pkt == *p && ok.total == enc.len() && two.resumed_after_end == 1 => {}
                other => viol!("poll decoder given the first {} of {} bytes (answer: end of input), then the rest with the same state: {:?} after {} resumption(s) instead of the packet {}", k, enc.len(), other.as_ref().map(|q| fam::render(&q.pkt)), two.resumed_after_end, fam::render(p)),
            }
            ctx.label("prefix-then-rest-with-the-same-state");
        }
        // other ways a stream can end after k bytes (one of them per cut, rotating): the transport reports the end
        // as Err(UnexpectedEof) (what TLS wrappers do when the peer vanishes without close_notify) in any payload
        // shape, to the poll or to the async decoder; or it trickles the prefix in one byte at a time first
        eof_ctr += 1;
        let shape = ((eof_ctr / 4) % sio::ERR_SHAPES as usize) as u8;
        match eof_ctr % 4 {
            1 => {
                let run = fam::dec_poll_styled::<F>(pre, &[], 0, None, false, 4 | (shape << 4));
                match run.result {
                    Err(e) if F::is_eof(&e) => {}
                    other => viol!(
                        "poll decoder on a transport that ends after {} of {} bytes with Err(UnexpectedEof) ({:?}) returned {:?} instead of an EOF error; packet {}",
                        k,
                        enc.len(),
                        sio::make_err(std::io::ErrorKind::UnexpectedEof, shape),
                        other.map(|q| fam::render(&q.pkt)),
                        fam::render(p)
                    ),
                }
                ctx.label("eof-as-transport-error:poll");
            }
            2 => {
                let mut rd = sio::ScriptedReader::new(pre, &[]).with_fault_shape(shape);
                rd.eof_as_error = true;
                let (r, _) = sio::drive(F::decode_async(&mut rd), pre.len() + 8);
                match r {
                    Err(e) if F::is_eof(&e) => {}
                    other => viol!(
                        "async decoder on a transport that ends after {} of {} bytes with Err(UnexpectedEof) ({:?}) returned {:?} instead of an EOF error; packet {}",
                        k,
                        enc.len(),
                        sio::make_err(std::io::ErrorKind::UnexpectedEof, shape),
                        other.map(|q| fam::render(&q)),
                        fam::render(p)
                    ),
                }
                ctx.label("eof-as-transport-error:async");
            }
            0 => {
                // the transport reports the end once; whatever is read after that fails with NotConnected
                let run = fam::dec_poll_styled::<F>(pre, &[], 0, Some((usize::MAX, std::io::ErrorKind::NotConnected)), false, 0);
                match run.result {
                    Err(e) if F::is_eof(&e) => {}
                    other => viol!("poll decoder on a transport that reports the end of the stream once after {} of {} bytes (later reads fail with NotConnected) returned {:?} instead of an EOF error; packet {}", k, enc.len(), other.map(|q| fam::render(&q.pkt)), fam::render(p)),
                }
                let mut rd = sio::ScriptedReader::new(pre, &[]);
                rd.after_eof = Some(std::io::ErrorKind::NotConnected);
                let (r, _) = sio::drive(F::decode_async(&mut rd), pre.len() + 8);
                match r {
                    Err(e) if F::is_eof(&e) => {}
                    other => viol!("async decoder on a transport that reports the end of the stream once after {} of {} bytes returned {:?} instead of an EOF error; packet {}", k, enc.len(), other.map(|q| fam::render(&q)), fam::render(p)),
                }
                ctx.label("eof-reported-once");
            }
            3 if k <= 4096 => {
                let steps: Vec<Step> = (0..k + 2).map(|j| if j % 3 == 2 { Step::Pending } else { Step::Chunk(1) }).collect();
                let run = fam::dec_poll_styled::<F>(pre, &steps, u64::MAX, None, false, 1 | (eof_ctr as u8 & 4));
                match run.result {
                    Err(e) if F::is_eof(&e) => {}
                    other => viol!("poll decoder fed the first {} of {} bytes one at a time (then end of stream) returned {:?} instead of an EOF error; packet {}", k, enc.len(), other.map(|q| fam::render(&q.pkt)), fam::render(p)),
                }
                ctx.label("eof-after-trickle");
            }
            _ => {}
        }
        if !spans.is_empty() {
            let (_, kind) = model::region_at(&spans, k.min(enc.len() - 1));
            ctx.label(kind_label(kind));
            if matches!(kind, Kind::RemLen | Kind::StrData | Kind::BinData | Kind::StrLen | Kind::BinLen | Kind::PropLen | Kind::PropId | Kind::VarInt | Kind::Payload) && k > 1 {
                interesting = true;
            }
        }
    }
    ctx.more_evals(cuts.len() as u64);
    ctx.label_n("cuts", cuts.len() as u64);

    // trailing bytes are ignored
    let suffix: Vec<u8> = match t.pick(4) {
        0 => vec![0xFF; 1 + t.pick(8)],
        1 => (0..1 + t.pick(24)).map(|_| t.u8()).collect(),
        2 => enc.clone(),
        _ => match F::gen(t, &GenCfg::SMALL).ok().and_then(|q| F::encode(&q).ok()) {
            Some(b) => b.as_ref().to_vec(),
            None => vec![0],
        },
    };
    let mut ext = enc.clone();
    ext.extend_from_slice(&suffix);
    match F::decode(&ext) {
        Ok(Some(q)) if q == *p => {}
        other => viol!("blocking decoder on the encoding followed by {} returned {:?}; packet {}", hex_short(&suffix, 16), other.map(|o| o.map(|q| fam::render(&q))), fam::render(p)),
    }
    let (r, used) = fam::dec_async::<F>(&ext);
    match r {
        Ok(q) if q == *p && used == enc.len() => {}
        other => viol!("async decoder on the encoding followed by {} returned {:?} after consuming {} of {} packet bytes", hex_short(&suffix, 16), other.map(|q| fam::render(&q)), used, enc.len()),
    }
    let steps: [Step; 0] = [];
    let run = fam::dec_poll_scripted::<F>(&ext, &steps, 0, None, false);
    match run.result {
        Ok(ok) if ok.pkt == *p && ok.total == enc.len() && run.pos == enc.len() => {}
        other => viol!("poll decoder on the encoding followed by {} returned {:?} at stream position {} (packet is {} bytes)", hex_short(&suffix, 16), other.map(|q| (q.total, fam::render(&q.pkt))), run.pos, enc.len()),
    }
    // the same when the caller has read the fixed header itself (and perhaps the first body bytes) and starts the poll
    // decoder from a body state it built: the packet, and nothing of what follows it
    for prefill in [0usize, 1 + t.pick(enc.len())] {
        if let Some((r, pos)) = fam::dec_poll_from_built_body::<F>(&ext, prefill) {
            match r {
                Ok(ok) if ok.pkt == *p && ok.total == enc.len() && pos == enc.len() => {}
                other => viol!("poll decoder started from a caller-built body state (header read by the caller, {} body bytes already held) on the encoding followed by {} returned {:?} at stream position {} (packet is {} bytes)", prefill, hex_short(&suffix, 16), other.map(|q| (q.total, fam::render(&q.pkt))), pos, enc.len()),
            }
            // and a strict prefix is still incomplete
            if enc.len() >= 4 {
                let cut = enc.len() - 1 - t.pick(enc.len() / 2);
                if let Some((r, _)) = fam::dec_poll_from_built_body::<F>(&enc[..cut], prefill) {
                    ensure!(matches!(&r, Err(e) if F::is_eof(e)), "poll decoder started from a caller-built body state on the first {} of {} bytes returned {:?} instead of an EOF error", cut, enc.len(), r.map(|q| fam::render(&q.pkt)));
                }
            }
            ctx.label("caller-built-body-state");
        }
    }
    ctx.label("suffix-ignored");
    if interesting {
        ctx.nontrivial(fnv(&enc));
        ctx.sample(|| format!("{} {} ({} bytes): {} cut positions, suffix {}", F::FAM.name(), fam::render(p), enc.len(), cuts.len(), hex_short(&suffix, 12)));
    }
    Ok(())
}

fn case<F: Family>(input: &Input, ctx: &mut Ctx) -> CaseResult {
    let mut t = Tape::new(input.tape());
    let cfg = crate::gen::cfg_mix(&mut t, ctx.thorough);
    let p = F::gen(&mut t, &cfg).map_err(|e| Violation::new(e.0))?;
    prefixes::<F>(&p, &mut t, ctx)
}

fn case_typed<F: Family>(input: &Input, ctx: &mut Ctx) -> CaseResult {
    let mut t = Tape::new(input.tape());
    let typ = t.pick(F::NTYPES);
    let p = F::gen_of_type(&mut t, &GenCfg::SMALL, typ).map_err(|e| Violation::new(e.0))?;
    prefixes::<F>(&p, &mut t, ctx)
}

/// boundary-size constructions (sized.rs): cuts at every field boundary, the last bytes and tape-chosen positions
fn case_sized<F: Family>(input: &Input, ctx: &mut Ctx) -> CaseResult {
    let seed: Vec<u16> = input.nums().iter().map(|x| (*x as u16).wrapping_mul(40_503)).chain([0x7000u16, 0x1234, 0xC000, 0x4000, 0xA000, 0xE000].into_iter()).collect();
    let mut t = Tape::new(&seed);
    match crate::sized::from_input::<F>(input, ctx) {
        Some(p) => prefixes::<F>(&p, &mut t, ctx),
        None => Ok(()),
    }
}

pub const SUB_S3: Sub = Sub { name: "c07.sized.v3", f: case_sized::<V3> };
pub const SUB_S5: Sub = Sub { name: "c07.sized.v5", f: case_sized::<V5> };
pub const SUB_V3: Sub = Sub { name: "c07.cuts.v3", f: case::<V3> };
pub const SUB_V5: Sub = Sub { name: "c07.cuts.v5", f: case::<V5> };
pub const SUB_T3: Sub = Sub { name: "c07.typed.v3", f: case_typed::<V3> };
pub const SUB_T5: Sub = Sub { name: "c07.typed.v5", f: case_typed::<V5> };

pub fn subs() -> Vec<Sub> {
    vec![SUB_V3, SUB_V5, SUB_T3, SUB_T5, SUB_S3, SUB_S5]
}

pub fn run(env: &mut Env) -> RunResult {
    let n = env.tier.sel(6_000, 120_000);
    env.run_tapes(SUB_V3, n, 120)?;
    env.run_tapes(SUB_V5, n * 2, 220)?;
    env.run_tapes(SUB_T3, n / 2, 120)?;
    env.run_tapes(SUB_T5, n, 220)?;
    // sized constructions up to 2 MiB (quick) / 20 MB (thorough); property constructions of 2 MiB for three types
    let lim = env.tier.sel(3_000_000u64, 21_000_000u64);
    for (sub, fam) in [(SUB_S3, model::Fam::V3), (SUB_S5, model::Fam::V5)] {
        let cs: Vec<Input> = crate::sized::cases(fam, env.thorough())
            .into_iter()
            // lists with more than 1,000 entries have a field boundary every few bytes: a cut at each of them is quadratic
            .filter(|c| c[0] < crate::sized::K_MANY || c[2] <= 1_000)
            .filter(|c| c[2] <= lim && !(c[0] == crate::sized::K_PROPS && c[2] >= 2_000_000 && !matches!(c[1], 1 | 2 | 13)))
            .map(|c| Input::Nums(c.to_vec()))
            .collect();
        let n = cs.len() as u64;
        env.run_enum(sub, n, false, move |i| cs[i as usize].clone())?;
    }
    env.require("c07.sized.v3", "sized:2MiB-boundary");
    env.require("c07.sized.v5", "sized:2MiB-boundary");
    for s in ["c07.cuts.v3", "c07.cuts.v5"] {
        for l in ["cut:remaining-length", "cut:string-or-binary-data", "cut:length-prefix", "cut:payload", "suffix-ignored"] {
            env.require(s, l);
        }
    }
    for s in ["c07.cuts.v3", "c07.cuts.v5", "c07.typed.v3", "c07.typed.v5"] {
        for l in ["eof-as-transport-error:poll", "eof-as-transport-error:async", "eof-after-trickle", "bare-header-of-prefix", "eof-reported-once"] {
            env.require(s, l);
        }
    }
    env.require("c07.cuts.v5", "cut:property-length");
    env.require("c07.cuts.v5", "cut:property-id");
    Ok(())
}
