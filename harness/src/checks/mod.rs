//! One module per property. `run` executes a property's check; `find_sub` resolves a
//! sub-check by name for replay files.

use crate::run::{Env, RunResult, Sub};

pub mod c01;
pub mod c02;
pub mod c09;
pub mod c10;

pub const ALL: &[&str] = &["C01", "C02", "C09", "C10"];

pub fn all_subs() -> Vec<Sub> {
    let mut v = Vec::new();
    v.extend(c01::subs());
    v.extend(c02::subs());
    v.extend(c09::subs());
    v.extend(c10::subs());
    v
}

pub fn find_sub(name: &str) -> Option<Sub> {
    all_subs().into_iter().find(|s| s.name == name)
}

pub fn static_prop(p: &str) -> Option<&'static str> {
    ALL.iter().copied().find(|x| *x == p)
}

pub fn run(env: &mut Env) -> Option<RunResult> {
    Some(match env.prop {
        "C01" => c01::run(env),
        "C02" => c02::run(env),
        "C09" => c09::run(env),
        "C10" => c10::run(env),
        _ => return None,
    })
}

pub struct Meta {
    pub level: &'static str,
    pub rule: &'static str,
    pub assumptions: &'static [&'static str],
    pub two_profiles: bool,
    pub compare_digests: bool,
    pub exhaustive_when_complete: bool,
}

const COMMON_ASSUME: &str = "harness generators, wire model, reference decoder (written from the OASIS specs) and the pinned grammar of DESIGN.md §5 are trusted";

fn m(level: &'static str, rule: &'static str, assumptions: &'static [&'static str]) -> Meta {
    Meta { level, rule, assumptions, two_profiles: false, compare_digests: false, exhaustive_when_complete: false }
}

const BOUNDS: &str = "field lengths <= 65,535; user-property lists <= 6; topic lists <= 8";

pub fn meta(prop: &str) -> Meta {
    match prop {
        "C01" => m(
            "exploration",
            "tape-generated valid packets of every type (proptest, 16 shards) encoded and decoded by the blocking, async and poll front-ends; a case is non-trivial when its encoding is longer than 4 bytes (carries a variable-length field, property section or code list); distinct by FNV-1a hash of the encoding",
            &[COMMON_ASSUME, BOUNDS],
        ),
        "C02" => Meta {
            two_profiles: true,
            compare_digests: true,
            ..m(
                "exploration",
                "tape-generated valid packets and every separately encodable part of them (bodies, wills, property sets, protocol), measured bytes vs encode_len and vs the header's remaining length (parsed by the harness), through a Vec and a one-byte-per-write sink; PUBLISH sized onto every header-width boundary; oversize payloads and property sections must be refused; run under the relcheck (debug assertions + overflow checks) and release profiles and the two digests of all encodings compared. Non-trivial: encoding longer than 4 bytes, or a boundary/oversize construction; distinct by hash of the encoding / by construction",
                &[COMMON_ASSUME, BOUNDS],
            )
        },
        "C09" => m(
            "exploration",
            "tape-generated valid packets x sink behaviours (Vec, exactly sized Cursor, one byte per write, scripted Accept(k)/Pending); encode() twice, encode_async into each sink, VarBytes contents, and control byte ++ var-int ++ streamed body are compared byte for byte. Non-trivial: packet longer than 4 bytes under a script with a partial write or a Pending; distinct by hash of (encoding, script)",
            &[COMMON_ASSUME, BOUNDS],
        ),
        "C10" => m(
            "exploration",
            "tape-generated valid packets are encoded by the library and decoded by the harness' reference decoder (written from the OASIS specs); the recovered wire-level values must equal project(packet), a name-keyed spec-number mapping that never uses `as u8`. Non-trivial: encoding longer than 4 bytes; distinct by hash of the encoding. Every reason/return code, property id per context and protocol level is required to have been exercised",
            &[COMMON_ASSUME, BOUNDS],
        ),
        _ => m("exploration", "", &[]),
    }
}
