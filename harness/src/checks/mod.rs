//! One module per property. `run` executes a property's check; `find_sub` resolves a
//! sub-check by name for replay files.

use crate::run::{Env, RunResult, Sub};

pub mod c01;
pub mod c02;
pub mod c03;
pub mod c04;
pub mod c05;
pub mod c06;
pub mod c09;
pub mod c07;
pub mod c08;
pub mod c10;
pub mod c11;
pub mod c12;
pub mod c13;
pub mod c14;
pub mod c15;
pub mod c19;
pub mod c20;
pub mod strings;

pub const ALL: &[&str] = &["C01", "C02", "C03", "C04", "C05", "C06", "C07", "C08", "C09", "C10", "C11", "C12", "C13", "C14", "C15", "C16", "C17", "C18", "C19", "C20"];

pub fn all_subs() -> Vec<Sub> {
    let mut v = Vec::new();
    v.extend(c01::subs());
    v.extend(c02::subs());
    v.extend(c03::subs());
    v.extend(c04::subs());
    v.extend(c05::subs());
    v.extend(c06::subs());
    v.extend(c09::subs());
    v.extend(c07::subs());
    v.extend(c08::subs());
    v.extend(c10::subs());
    v.extend(c11::subs());
    v.extend(c12::subs());
    v.extend(c13::subs());
    v.extend(c14::subs());
    v.extend(c15::subs());
    v.extend(c19::subs());
    v.extend(c20::subs());
    v.extend(strings::subs());
    v
}

pub fn find_sub(name: &str) -> Option<Sub> {
    all_subs().into_iter().find(|s| s.name == name)
}

/// sub-checks that take raw bytes (used to replay fuzz corpora and artifacts through the plain binaries)
pub fn byte_subs(prop: &str) -> Vec<Sub> {
    match prop {
        "C03" => vec![c03::SUB_BYTES],
        "C04" => vec![c04::SUB_B3, c04::SUB_B5],
        "C06" => vec![c06::SUB_B3, c06::SUB_B5],
        "C11" => vec![c11::SUB_B3, c11::SUB_B5],
        "C12" => vec![c12::SUB_B3, c12::SUB_B5],
        _ => Vec::new(),
    }
}

/// sub-checks that are run once more against the library built without optimisation (deep / long / absurd inputs, where
/// stack depth and un-inlined code paths matter)
pub fn deep_subs(prop: &str) -> Option<Vec<&'static str>> {
    match prop {
        "C01" => Some(vec!["c01.typed.v3", "c01.typed.v5"]),
        "C03" => Some(vec!["c03.declared-lengths", "c03.state-observation", "c03.header-body"]),
        "C16" => Some(vec!["c16.single"]),
        "C17" => Some(vec!["c17.single", "c17.population"]),
        "C18" => Some(vec!["c18.single"]),
        _ => None,
    }
}

/// fuzz inputs of this property are [control byte] ++ rest and need the header re-synthesised
pub fn fuzz_framed(prop: &str) -> bool {
    prop == "C04"
}

pub fn static_prop(p: &str) -> Option<&'static str> {
    ALL.iter().copied().find(|x| *x == p)
}

pub fn run(env: &mut Env) -> Option<RunResult> {
    Some(match env.prop {
        "C01" => c01::run(env),
        "C02" => c02::run(env),
        "C03" => c03::run(env),
        "C04" => c04::run(env),
        "C05" => c05::run(env),
        "C06" => c06::run(env),
        "C09" => c09::run(env),
        "C07" => c07::run(env),
        "C08" => c08::run(env),
        "C10" => c10::run(env),
        "C11" => c11::run(env),
        "C12" => c12::run(env),
        "C13" => c13::run(env),
        "C14" => c14::run(env),
        "C15" => c15::run(env),
        "C16" => strings::run_c16(env),
        "C17" => strings::run_c17(env),
        "C18" => strings::run_c18(env),
        "C19" => c19::run(env),
        "C20" => c20::run(env),
        _ => return None,
    })
}

pub struct Meta {
    pub level: &'static str,
    pub rule: &'static str,
    pub assumptions: &'static [&'static str],
    pub two_profiles: bool,
    pub compare_digests: bool,
    pub exhaustive_when_complete: bool,
}

const COMMON_ASSUME: &str = "harness generators, wire model, reference decoder (written from the OASIS specs) and the pinned grammar of DESIGN.md §5 are trusted";

fn m(level: &'static str, rule: &'static str, assumptions: &'static [&'static str]) -> Meta {
    // every check runs under both build profiles (relcheck: debug assertions + overflow checks; release:
    // what users ship), so behaviour that differs between them cannot hide in either
    Meta { level, rule, assumptions, two_profiles: true, compare_digests: false, exhaustive_when_complete: false }
}

const BOUNDS: &str = "field lengths <= 65,535; user-property lists <= 6; topic lists <= 8";

pub fn meta(prop: &str) -> Meta {
    match prop {
        "C01" => m(
            "exploration",
            "tape-generated valid packets of every type (proptest, 16 shards) encoded and decoded by the blocking, async and poll front-ends; plus boundary-size constructions (sized.rs): PUBLISH with every remaining length from -2 to +5 around 128 / 16,384 / 2,097,152 and beyond 16 MiB, every v5 packet type and the will with a property section of exactly those lengths, UTF-8-flagged multi-byte payloads up to 4 MiB+ (16 MiB+ thorough); a case is non-trivial when its encoding is longer than 4 bytes (carries a variable-length field, property section or code list); distinct by FNV-1a hash of the encoding",
            &[COMMON_ASSUME, BOUNDS],
        ),
        "C02" => Meta {
            two_profiles: true,
            compare_digests: true,
            ..m(
                "exploration",
                "tape-generated valid packets and every separately encodable part of them (bodies, wills, property sets, protocol), measured bytes vs encode_len and vs the header's remaining length (parsed by the harness), through a Vec and a one-byte-per-write sink; PUBLISH sized onto every header-width boundary; oversize payloads and property sections must be refused; run under the relcheck (debug assertions + overflow checks) and release profiles and the two digests of all encodings compared. Non-trivial: encoding longer than 4 bytes, or a boundary/oversize construction; distinct by hash of the encoding / by construction",
                &[COMMON_ASSUME, BOUNDS],
            )
        },
        "C09" => m(
            "exploration",
            "tape-generated valid packets x sink behaviours (Vec, exactly sized Cursor, one byte per write, scripted Accept(k)/Pending); encode() twice, encode_async into each sink, VarBytes contents, and control byte ++ var-int ++ streamed body are compared byte for byte. Non-trivial: packet longer than 4 bytes under a script with a partial write or a Pending; distinct by hash of (encoding, script)",
            &[COMMON_ASSUME, BOUNDS],
        ),
        "C10" => m(
            "exploration",
            "tape-generated valid packets are encoded by the library and decoded by the harness' reference decoder (written from the OASIS specs); the recovered wire-level values must equal project(packet), a name-keyed spec-number mapping that never uses `as u8`. Non-trivial: encoding longer than 4 bytes; distinct by hash of the encoding. Every reason/return code, property id per context and protocol level is required to have been exercised",
            &[COMMON_ASSUME, BOUNDS],
        ),
        "C03" => Meta {
            two_profiles: true,
            ..m(
                "exploration",
                "every decoder entry point of both families (blocking, async, poll one-shot and one-byte-per-read with Pending and drop/re-create, Header::decode, Header::decode_async, decode_raw_header) on: all byte strings up to 2 (quick) / 3 (thorough) bytes, every 2-byte header followed by 18 short bodies, hand-written maximal-length headers, and tape-generated corruptions from the shared corpus generator (bit flips, length-field edits, truncation, extension, splicing, catalogue malformations, random bytes). Oracle: returns packet / incomplete / error; no panic (overflow checks and debug assertions on in the relcheck profile), no abort (handler dumps the parked case), no transport polled beyond its call bound; both build profiles. Non-trivial: input with a valid type nibble and a complete remaining-length field (reaches a body decoder); distinct by hash / by construction",
                &[COMMON_ASSUME, "termination is established through call bounds on the explored inputs only; reads of uninitialised memory are judged by ASan (fuzzing) and Miri (fixed suite) in the thorough tier, not here"],
            )
        },
        "C04" => m(
            "exploration",
            "complete, minimally encoded frames: grammar-generated well-formed frames (valid packets projected to the wire model and re-spelled: long/short ack forms, shuffled properties, explicit empty property sections), the same with 1-3 injected catalogue malformations, and byte-mutated bodies with the header re-synthesised; oracle = the reference decoder under the pinned grammar (accept <=> accept, and on accept the normalised field values, total and body must agree). Frames that are incomplete or contain non-minimal var-ints are outside the quantifier and counted as skipped. Non-trivial/distinct: distinct frames (hash); classes = accept / each reject class, all of which must be reached",
            &[COMMON_ASSUME, BOUNDS, "the pinned leniencies L1-L8 and strictnesses S1-S4 (DESIGN.md §5) are part of the oracle"],
        ),
        "C05" => m(
            "exploration",
            "delivery schedules of the poll decoder: exhaustively every composition of the stream into chunks x {no Pending, Pending before every read, Pending before every read with the future dropped and re-created from the caller-held state at every Pending} for a fixed list of short streams (shortest packet of every type, long-form spellings, catalogue malformations, truncations, trailing bytes, non-minimal headers; length <= 15 quick / 18 thorough), and random schedules (chunks 1..64, Pending with p=1/3, random drop masks, forced interruption inside the var-int) for corpus-generated streams with 1-4 byte headers; for PUBLISH streams with 2-, 3- and 4-byte headers (valid, non-minimally framed, followed by further packets) every split of the first 8 bytes x 4 deliveries of the rest x the 3 modes. Oracle: the uninterrupted one-shot run on the same bytes (result, total, body), Pending only when the transport returned Pending in that poll, every requested capacity <= bytes left in the frame (frame end from the harness' header parse), consumed = reported total on success, consumed <= frame end on error. Non-trivial: schedule with >= 2 body reads or a drop at a Pending; distinct by construction (exhaustive part) / hash of the stream",
            &[COMMON_ASSUME],
        ),
        "C06" => m(
            "exploration",
            "byte strings from the shared corpus generator (valid encodings, +suffix, re-spelled incl. non-minimal var-ints, lenient framing, catalogue malformations, byte mutations, random bytes, two spliced frames) given to the three front-ends: blocking = async with EOF mapped to Ok(None) and Header::decode = Header::decode_async on every string; on strings that start with a complete frame (decided by the harness' header parse) poll-accept => same packet from both lenient decoders, poll-reject other than InvalidRemainingLength => the same error value from both. Non-trivial: string starts with a complete frame; distinct by hash; classes per poll outcome",
            &[COMMON_ASSUME],
        ),
        "C07" => m(
            "exploration",
            "tape-generated valid packets x every cut position of their encoding (all positions up to 400 bytes; every field boundary +-1 and tape-chosen positions beyond) given to the blocking (Ok(None)), async and poll decoders (EOF error); the encoding followed by 0xFF runs, random bytes, itself or another valid packet must decode to the same packet with exactly the packet's bytes consumed. Non-trivial: at least one cut beyond the second byte inside the remaining-length field, a length prefix, string/binary data, a property or the payload; distinct by hash of the encoding",
            &[COMMON_ASSUME, BOUNDS],
        ),
        "C08" => m(
            "exploration",
            "tape-generated sequences of 1..8 valid packets (mixed types, body-less packets, thorough: a 4-byte-header packet) concatenated and decoded one packet at a time by the blocking decoder (offsets advanced by encode_len and independently by the header), the async decoder on a shared slice and on a scripted chunked transport with Pending, and the poll decoder with a fresh state per packet; sequence equality, byte accounting and EOF at the clean boundary. Non-trivial: >= 2 packets of >= 2 different types; distinct by hash of the stream",
            &[COMMON_ASSUME, BOUNDS],
        ),
        "C11" => Meta {
            two_profiles: true,
            compare_digests: true,
            ..m(
                "exploration",
                "byte strings from the shared corpus generator; for every acceptance by the async, blocking or poll decoder (with the measured number of consumed bytes): re-encode without error or panic, decode the re-encoding on all three front-ends back to the same packet, re-encoding not longer than what was consumed (the listed known finding K1 is tolerated by exact signature and counted). Both build profiles; digests of all re-encodings compared. Non-trivial: accepted input whose consumed bytes differ from the re-encoding (genuinely non-canonical); distinct by hash",
                &[COMMON_ASSUME],
            )
        },
        "C12" => m(
            "exploration",
            "byte strings from the shared corpus generator; for every packet returned by the blocking, async or poll decoder a field walk (structs destructured exhaustively): every text field valid UTF-8 (std), topic names/filters pass the library's predicate and the harness' split-based one, shared accessors neither panic nor disagree with the text, pids non-zero, var-int fields < 2^28, payloads flagged UTF-8 are UTF-8. Non-trivial: accepted packet with at least one text field; distinct by hash of the input; every field label must be reached",
            &[COMMON_ASSUME],
        ),
        "C13" => m(
            "exploration",
            "tape-generated valid CONNECTs of v3.1 / v3.1.1 presented to the v5 decoders and of v5.0 presented to the v3 decoders (blocking, async, poll): exact UnexpectedProtocol error, bytes consumed by the async decoder = header + 2 + name + 1, continuation with the matching family's decode_with_protocol equals the native decode; plus the exhaustive grid of 256 levels x 19 protocol names (legal, case variants, truncations, extensions, empty, 1 KiB, non-UTF-8) against both families and all front-ends and Protocol::new. Non-trivial: every cross-family CONNECT and grid cell; distinct by hash / by construction",
            &[COMMON_ASSUME],
        ),
        "C14" => m(
            "fault_enumeration",
            "tape-generated valid packets x fault position (every byte position up to 260 bytes, field boundaries and tape-chosen positions beyond, plus position = len) x io::ErrorKind {ConnectionReset, BrokenPipe, TimedOut, PermissionDenied, Other} (rotating; all five at every 16th position) x {async, poll decoder} x {one-shot, chunked+Pending delivery}; EOF at every position; write error and zero-length write at every position x {encode_async, streaming body encoder}; conversion table. Non-trivial: a packet with at least one fault strictly inside it; distinct by hash of the encoding",
            &[COMMON_ASSUME, "Interrupted and WouldBlock are not injected: by convention they mean retry (std write_all retries Interrupted)"],
        ),
        "C15" => Meta {
            exhaustive_when_complete: true,
            ..m(
                "exploration",
                "enumeration of the var-int domain 0..=268,435,455 (thorough: every value; quick: every value below 86,384, +-70,000 around 2^21 and below 2^28, stride 97 elsewhere) against a closed-form arithmetic model: writer bytes (through the SUBSCRIBE property set), reported size, reader inverse and bytes consumed (decode_raw_header, SubscribeProperties::decode_async), total_len/header_len/remaining_len, the poll decoder's header state for boundary and sampled values; the first invalid values; all 9,330 continuation-bit patterns of <= 5 bytes over payloads {00,01,7F}. Every value/pattern is distinct by construction (counted)",
                &[COMMON_ASSUME],
            )
        },
        "C16" => Meta {
            exhaustive_when_complete: true,
            ..m(
                "exploration",
                "bounded-exhaustive enumeration of strings over the alphabet {'/','+','#','$','a',NUL,'é','😀'} alone and behind 11 '$share'/'$SYS' prefix shapes, plus structured strings of 65,533..70,000 bytes and tape-generated random long strings (lengths up to and beyond 65,535, special characters at random positions, '$share'/'$SYS' prefixes); oracle: split-based predicate written from MQTT 4.7/4.8; TopicFilter::is_invalid, the constructor and v3/v5 SUBSCRIBE/UNSUBSCRIBE decoding (blocking always, async+poll for every 8th string) must all give the oracle's decision. Every string is distinct by construction (counted); 'exhaustive' refers to the stated bounded space",
                &[COMMON_ASSUME, "strings outside the enumerated space are only sampled by the long-string list"],
            )
        },
        "C17" => Meta {
            exhaustive_when_complete: true,
            ..m(
                "exploration",
                "every valid filter of C16's bounded space: accessors vs the unique split '$share/'+name+'/'+filter computed by the harness, to_string/deref = text, is_sys; equality, ordering (antisymmetry, transitivity, partial_cmp = cmp, Equal <=> same text) and hashing on neighbouring and distant triples, including equal texts from separate allocations and from a decoded SUBSCRIBE; plus tape-generated random valid filters (multi-byte share names, filters beginning with '/', levels up to 65,535 bytes) in triples. Non-trivial = valid filter; distinct by construction (counted)",
                &[COMMON_ASSUME, "hash equality is checked with std's DefaultHasher"],
            )
        },
        "C18" => Meta {
            exhaustive_when_complete: true,
            ..m(
                "exploration",
                "bounded-exhaustive enumeration of strings over {'/','+','#','$','a','S',NUL,'é','😀'} alone and behind '$share/', '$SYS/' and near-miss prefixes, plus strings of 65,533..70,000 bytes and tape-generated random long strings; oracle: <= 65,535 bytes and none of '+', '#', U+0000; checked through TopicName::is_invalid, the constructor (read-back, is_shared, is_sys) and six packet paths (v3/v5 PUBLISH topic, v3/v5 will topic, v5 response topic in PUBLISH and will properties). Every string is distinct by construction (counted)",
                &[COMMON_ASSUME],
            )
        },
        "C19" => Meta {
            exhaustive_when_complete: true,
            ..m(
                "exploration",
                "exhaustive enumeration of all 65,535 identifiers x 65,536 amounts against a cycle model in i64 arithmetic (add, sub, inverse both ways, += / -=, never 0) plus construction from 0 and from every non-zero value; non-trivial = pairs whose sum or difference crosses the wrap (counted, distinct by construction)",
                &["overflow checks are enabled in the build that runs this check (relcheck profile)"],
            )
        },
        "C20" => m(
            "exploration",
            "tape-generated valid packets (long-form projection verified to be accepted) x every applicable entry of the 30-entry malformation catalogue at every site where it applies (every string field, property, code byte; up to 48 sites per packet), decoded by the blocking, async and poll front-ends; the expected error variant and payload come from the catalogue (DESIGN.md Appendix C). Non-trivial/distinct: distinct (packet type, entry, edit description) triples; every catalogue entry must be hit",
            &[COMMON_ASSUME, BOUNDS, "wrong-remaining-length entries assert the lenient front-ends only where the declared length is accounted for (DESIGN.md §7 C20)"],
        ),
        _ => m("exploration", "", &[]),
    }
}
