//! One module per property. `run` executes a property's check; `find_sub` resolves a
//! sub-check by name for replay files.

use crate::run::{Env, RunResult, Sub};

pub mod c01;

pub const ALL: &[&str] = &["C01"];

pub fn all_subs() -> Vec<Sub> {
    let mut v = Vec::new();
    v.extend(c01::subs());
    v
}

pub fn find_sub(name: &str) -> Option<Sub> {
    all_subs().into_iter().find(|s| s.name == name)
}

pub fn static_prop(p: &str) -> Option<&'static str> {
    ALL.iter().copied().find(|x| *x == p)
}

pub fn run(env: &mut Env) -> Option<RunResult> {
    Some(match env.prop {
        "C01" => c01::run(env),
        _ => return None,
    })
}

pub struct Meta {
    pub level: &'static str,
    pub rule: &'static str,
    pub assumptions: &'static [&'static str],
    pub two_profiles: bool,
    pub compare_digests: bool,
    pub exhaustive_when_complete: bool,
}

const COMMON_ASSUME: &str = "harness generators, wire model, reference decoder (written from the OASIS specs) and the pinned grammar of DESIGN.md §5 are trusted";

pub fn meta(prop: &str) -> Meta {
    match prop {
        "C01" => Meta {
            level: "exploration",
            rule: "tape-generated valid packets of every type (proptest, 16 shards) encoded and decoded by the blocking, async and poll front-ends; a case is non-trivial when its encoding is longer than 4 bytes (carries a variable-length field, property section or code list); distinct by FNV-1a hash of the encoding",
            assumptions: &[COMMON_ASSUME, "field lengths <= 65,535; user-property lists <= 6; topic lists <= 8"],
            two_profiles: false,
            compare_digests: false,
            exhaustive_when_complete: false,
        },
        _ => Meta { level: "exploration", rule: "", assumptions: &[], two_profiles: false, compare_digests: false, exhaustive_when_complete: false },
    }
}
