//! C06 — blocking, async and poll decoders agree with each other.

use crate::corpus;
use crate::fam::{self, Family, V3, V5};
use crate::model::{fnv, hex_short, type_name};
use crate::refdec;
use crate::run::{CaseResult, Ctx, Env, Input, RunResult, Sub};
use crate::tape::Tape;
use crate::{ensure, viol};
use mqtt_proto::Error;

pub fn agree<F: Family>(b: &[u8], origin: &str, ctx: &mut Ctx) -> CaseResult {
    // blocking = async with end-of-input mapped to "incomplete", always
    let blocking = F::decode(b);
    let (asyn, _) = fam::dec_async::<F>(b);
    match (&asyn, &blocking) {
        (Ok(p), Ok(Some(q))) if p == q => {}
        (Err(e), Ok(None)) if F::is_eof(e) => {}
        (Err(e), Err(f)) if e == f && !F::is_eof(e) => {}
        _ => viol!(
            "blocking decoder returned {:?} but the async decoder returned {:?} on {}",
            blocking.as_ref().map(|o| o.as_ref().map(|q| fam::render(q))),
            asyn.as_ref().map(|q| fam::render(q)),
            hex_short(b, 96)
        ),
    }
    // the async decoder's answer does not depend on how the bytes arrive either (1, 2, 3 or 7 bytes per read, with
    // Pendings in between)
    if b.len() <= 4_096 {
        let k = [1usize, 2, 3, 7][(fnv(b) % 4) as usize];
        let (chunked, used_c) = fam::dec_async_chunked::<F>(b, k);
        let same = match (&asyn, &chunked) {
            (Ok(x), Ok(y)) => x == y,
            (Err(x), Err(y)) => x == y || (F::is_eof(x) && F::is_eof(y)),
            _ => false,
        };
        ensure!(
            same,
            "async decoder over a transport delivering {} byte(s) per read returned {:?} after {} bytes; reading from a slice it returns {:?}; input {}",
            k,
            chunked.as_ref().map(|q| fam::render(q)),
            used_c,
            asyn.as_ref().map(|q| fam::render(q)),
            hex_short(b, 96)
        );
    }
    let hb = F::header_decode(b);
    let mut r: &[u8] = b;
    let ha = futures_lite::future::block_on(F::header_decode_async(&mut r));
    ensure!(hb == ha, "Header::decode returned {:?} but Header::decode_async returned {:?} on {}", hb, ha, hex_short(b, 16));
    // the other two ways to a bare fixed header: Header::new_with(first byte, remaining length) and, for an accepted
    // header, Header::new from its parts; the parts are what the first byte spells (type, dup, QoS, retain)
    if let Ok((_, rl)) = refdec::frame_bounds(b) {
        let hn = F::header_new_with(b[0], rl as u32);
        ensure!(hn == hb, "Header::new_with({:#04x}, {}) returned {:?} but Header::decode returned {:?} on {}", b[0], rl, hn, hb, hex_short(b, 16));
        if let Ok(h) = &hb {
            let parts = F::header_parts(h);
            let is_publish = b[0] >> 4 == 3;
            let want = (b[0] >> 4, is_publish && b[0] & 8 != 0, if is_publish { (b[0] >> 1) & 3 } else { 0 }, is_publish && b[0] & 1 != 0, rl as u32);
            ensure!(parts == want, "Header::decode({}) carries (type, dup, qos, retain, remaining length) = {:?}; the bytes spell {:?}", hex_short(b, 8), parts, want);
            ensure!(F::header_new(parts).as_ref() == Some(h), "Header::new{:?} = {:?} differs from the decoded header {:?}", parts, F::header_new(parts), h);
            ctx.label("bare-header:accepted");
        } else {
            ctx.label("bare-header:rejected");
        }
    }

    // the public per-type body decoders (header first, then `X::decode_async` on what follows) are a fourth way in: on a
    // complete frame they must give what the packet-level decoder gives on exactly that frame
    if let Some(flen) = refdec::complete_frame_len(b) {
        let frame = &b[..flen];
        if let Some(bl) = F::body_level_decode(frame) {
            let (pk, _) = fam::dec_async::<F>(frame);
            let same = match (&bl, &pk) {
                (Ok(x), Ok(y)) => x == y,
                (Err(x), Err(y)) => x == y || (F::is_eof(x) && F::is_eof(y)),
                _ => false,
            };
            ensure!(
                same,
                "the body-level decoder of {} returned {:?} but the packet-level async decoder returned {:?} on the frame {}",
                type_name(frame[0] >> 4),
                bl.as_ref().map(|q| fam::render(q)),
                pk.as_ref().map(|q| fam::render(q)),
                hex_short(frame, 96)
            );
            ctx.label("body-level-decoder-compared");
        }
    }
    // on a string that starts with a complete frame the strict decoder is the reference
    let mut class = "no-complete-frame".to_string();
    if refdec::complete_frame_len(b).is_some() {
        let poll = fam::dec_poll::<F>(b).result;
        // "the poll decoder's verdict" must not depend on how the bytes arrived: the same string delivered in two pieces,
        // the boundary (a position inside the frame derived from the bytes) signalled as a Pending with the future
        // re-created, or as the end of a slice after which the caller polls again with the state it holds
        if let Some(flen) = refdec::complete_frame_len(b) {
            if flen >= 2 {
                let h = fnv(b);
                let k = 1 + (h >> 8) as usize % (flen - 1);
                // (the script is per read call: the header stage reads one byte at a time, the body stage as much as is left)
                let hl = refdec::frame_bounds(b).map(|x| x.0).unwrap_or(2);
                let mut steps: Vec<crate::sio::Step> = vec![crate::sio::Step::Chunk(1); k.min(hl)];
                if k > hl {
                    steps.push(crate::sio::Step::Chunk(k - hl));
                }
                let what = if h & 1 == 0 {
                    steps.push(crate::sio::Step::Pending);
                    "a Pending (future re-created)"
                } else {
                    steps.push(crate::sio::Step::End);
                    "the end of a slice (caller polls again with the same state)"
                };
                let two = fam::dec_poll_styled::<F>(b, &steps, u64::MAX, None, false, ((h >> 1) & 3) as u8).result;
                let same = match (&poll, &two) {
                    (Ok(x), Ok(y)) => x.pkt == y.pkt && x.total == y.total && x.body == y.body,
                    (Err(x), Err(y)) => x == y,
                    _ => false,
                };
                ensure!(
                    same,
                    "poll decoder on {}: delivered at once -> {:?}; delivered in two pieces cut after byte {} by {} -> {:?}",
                    hex_short(b, 96),
                    poll.as_ref().map(|o| fam::render(&o.pkt)),
                    k,
                    what,
                    two.as_ref().map(|o| fam::render(&o.pkt))
                );
                ctx.label(if h & 1 == 0 { "poll-two-pieces:pending" } else { "poll-two-pieces:slice-end" });
            }
        }
        let irl = F::wrap(Error::InvalidRemainingLength);
        match &poll {
            Ok(ok) => {
                ensure!(
                    matches!(&blocking, Ok(Some(q)) if *q == ok.pkt),
                    "poll decoder accepted {} as {} but the blocking decoder returned {:?}",
                    hex_short(b, 96),
                    fam::render(&ok.pkt),
                    blocking.as_ref().map(|o| o.as_ref().map(|q| fam::render(q)))
                );
                ensure!(
                    matches!(&asyn, Ok(q) if *q == ok.pkt),
                    "poll decoder accepted {} as {} but the async decoder returned {:?}",
                    hex_short(b, 96),
                    fam::render(&ok.pkt),
                    asyn.as_ref().map(|q| fam::render(q))
                );
                class = format!("poll-accept:{}", type_name(b[0] >> 4));
            }
            Err(e) if *e == irl => {
                class = "poll-reject:InvalidRemainingLength(exempt)".to_string();
            }
            Err(e) => {
                ensure!(
                    matches!(&blocking, Err(f) if f == e),
                    "poll decoder rejected {} with {:?} but the blocking decoder returned {:?}",
                    hex_short(b, 96),
                    e,
                    blocking.as_ref().map(|o| o.as_ref().map(|q| fam::render(q)))
                );
                ensure!(
                    matches!(&asyn, Err(f) if f == e),
                    "poll decoder rejected {} with {:?} but the async decoder returned {:?}",
                    hex_short(b, 96),
                    e,
                    asyn.as_ref().map(|q| fam::render(q))
                );
                let s = format!("{:?}", e);
                let name: String = s.trim_start_matches("Common(").chars().take_while(|c| c.is_alphanumeric()).collect();
                class = format!("poll-reject:{}", name);
            }
        }
    }
    ctx.label(&class);
    ctx.label(&format!("origin:{}", origin));
    if class != "no-complete-frame" && ctx.nontrivial(fnv(b)) {
        ctx.sample(|| format!("{} {} [{}] -> {}; blocking {:?}", F::FAM.name(), hex_short(b, 48), origin, class, blocking.as_ref().map(|o| o.as_ref().map(|q| fam::render(q).chars().take(80).collect::<String>()))));
    }
    Ok(())
}

fn case<F: Family>(input: &Input, ctx: &mut Ctx) -> CaseResult {
    let mut t = Tape::new(input.tape());
    let cfg = crate::gen::cfg_mix(&mut t, ctx.thorough);
    let (b, origin) = corpus::gen_input::<F>(&mut t, &cfg);
    agree::<F>(&b, origin, ctx)
}

fn case_bytes<F: Family>(input: &Input, ctx: &mut Ctx) -> CaseResult {
    agree::<F>(input.bytes(), "given", ctx)
}

fn case_history<F: Family>(input: &Input, ctx: &mut Ctx) -> CaseResult {
    // a valid packet is decoded first, then a frame that reuses one of its strings in another role
    crate::checks::c04::history_core::<F>(input, ctx, 2)
}

pub const SUB_H3: Sub = Sub { name: "c06.history.v3", f: case_history::<V3> };
pub const SUB_H5: Sub = Sub { name: "c06.history.v5", f: case_history::<V5> };
/// nums = [first byte, remaining length, start, count]: a block of exhaustively enumerated short frames
fn case_short<F: Family>(input: &Input, ctx: &mut Ctx) -> CaseResult {
    let n = input.nums();
    let (first, rl, start, count) = (n[0] as u8, n[1] as usize, n[2], n[3]);
    for i in start..start + count {
        let fr = crate::shortframes::frame(first, rl, i);
        if let Err(v) = agree::<F>(&fr, "short-frame", ctx) {
            ctx.refine = Some((if F::FAM == crate::model::Fam::V3 { "c06.bytes.v3" } else { "c06.bytes.v5" }, Input::Bytes(fr)));
            return Err(v);
        }
    }
    ctx.more_evals(count.saturating_sub(1));
    ctx.label_n("short-frames", count);
    Ok(())
}

pub const SUB_X3: Sub = Sub { name: "c06.short-frames.v3", f: case_short::<V3> };
pub const SUB_X5: Sub = Sub { name: "c06.short-frames.v5", f: case_short::<V5> };
pub const SUB_V3: Sub = Sub { name: "c06.agree.v3", f: case::<V3> };
pub const SUB_V5: Sub = Sub { name: "c06.agree.v5", f: case::<V5> };
pub const SUB_B3: Sub = Sub { name: "c06.bytes.v3", f: case_bytes::<V3> };
pub const SUB_B5: Sub = Sub { name: "c06.bytes.v5", f: case_bytes::<V5> };

pub fn subs() -> Vec<Sub> {
    vec![SUB_V3, SUB_V5, SUB_B3, SUB_B5, SUB_H3, SUB_H5, SUB_X3, SUB_X5]
}

pub fn run(env: &mut Env) -> RunResult {
    env.run_inputs(SUB_B3, &crate::checks::c04::vectors(crate::model::Fam::V3))?;
    env.run_inputs(SUB_B5, &crate::checks::c04::vectors(crate::model::Fam::V5))?;
    // encodings of the boundary-size constructions (sized.rs) as inputs
    let lim = env.tier.sel(21_000_000usize, 140_000_000usize);
    let z3 = crate::sized::encoded_inputs::<V3>(env.thorough(), lim);
    let k3 = z3.len() as u64;
    env.run_enum(SUB_B3, k3, false, move |i| z3[i as usize].clone())?;
    let z5 = crate::sized::encoded_inputs::<V5>(env.thorough(), lim);
    let k5 = z5.len() as u64;
    env.run_enum(SUB_B5, k5, false, move |i| z5[i as usize].clone())?;
    // every frame with a body of 0..=2 bytes and bodies of 3..=4 (thorough: 5) bytes over a reduced alphabet
    let sb = crate::shortframes::blocks(env.thorough(), env.tier.sel(4usize, 5usize));
    let kb = sb.len() as u64;
    let sb2 = sb.clone();
    env.run_enum(SUB_X3, kb, true, move |i| sb2[i as usize].clone())?;
    env.run_enum(SUB_X5, kb, true, move |i| sb[i as usize].clone())?;
    let n = env.tier.sel(40_000, 600_000);
    env.run_tapes(SUB_V3, n, 200)?;
    env.run_tapes(SUB_V5, n * 2, 300)?;
    env.run_tapes(SUB_H3, n / 4, 300)?;
    env.run_tapes(SUB_H5, n / 2, 400)?;
    env.require("c06.history.v5", "history:into-response-topic:reject");
    for s in ["c06.agree.v3", "c06.agree.v5"] {
        for l in ["poll-accept:CONNECT", "poll-accept:PUBLISH", "poll-accept:SUBSCRIBE", "poll-reject:InvalidRemainingLength(exempt)", "poll-reject:InvalidHeader", "poll-reject:InvalidString", "poll-reject:ZeroPid", "no-complete-frame"] {
            env.require(s, l);
        }
        for o in corpus::ORIGINS {
            env.require(s, &format!("origin:{}", o));
        }
    }
    for s in ["c06.agree.v3", "c06.agree.v5", "c06.short-frames.v3", "c06.short-frames.v5"] {
        env.require(s, "bare-header:accepted");
        env.require(s, "body-level-decoder-compared");
        env.require(s, "bare-header:rejected");
    }
    env.require("c06.agree.v5", "poll-reject:InvalidPropertyId");
    env.require("c06.agree.v5", "poll-reject:DuplicatedProperty");
    Ok(())
}
