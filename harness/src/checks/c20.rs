//! C20 — malformed input is classified with the specific documented error.
//! The expectation comes from the catalogue (written from the error enums' documentation and
//! the property text), never from running another front-end.

use crate::fam::{self, Family, V3, V5};
use crate::gen::GenCfg;
use crate::model::{fnv, hex_short, type_name};
use crate::mutate::{self, Expect, ExpErr};
use crate::run::{CaseResult, Ctx, Env, Input, RunResult, Sub, Violation};
use crate::tape::Tape;
use crate::{ensure, viol};

pub fn check_mutated<F: Family>(m: &mutate::Mutated, what: &str) -> Result<(), String> {
    let b = &m.bytes;
    let blocking = F::decode(b);
    let (asyn, _) = fam::dec_async::<F>(b);
    let poll = fam::dec_poll::<F>(b).result;
    // the classification does not depend on how the frame arrives: one byte at a time, with a Pending (future
    // re-created) and transient transport failures (polled again with the same state) on the way
    {
        use crate::sio::Step;
        use std::io::ErrorKind as K;
        let steps = [Step::Chunk(1), Step::Fail(K::Interrupted), Step::Chunk(1), Step::Pending, Step::Chunk(1), Step::Fail(K::TimedOut), Step::Chunk(2), Step::Fail(K::WouldBlock), Step::Pending, Step::Chunk(3)];
        let run = fam::dec_poll_styled::<F>(b, &steps, u64::MAX, None, false, 1);
        if let Some(got) = &run.transient_not_surfaced {
            return Err(format!("{}: the transport reported a transient failure and the poll decoder answered {}; frame {}", what, got, hex_short(b, 80)));
        }
        if run.result.as_ref().map(|o| &o.pkt) != poll.as_ref().map(|o| &o.pkt) {
            return Err(format!(
                "{}: poll decoder fed the frame piecewise (Pending, transient transport failures, resumed with the same state) returned {:?} but {:?} when everything is ready at once; frame {}",
                what,
                run.result.as_ref().map(|o| fam::render(&o.pkt)),
                poll.as_ref().map(|o| fam::render(&o.pkt)),
                hex_short(b, 80)
            ));
        }
    }
    let show_b = |r: &Result<Option<F::Packet>, F::Error>| match r {
        Ok(Some(p)) => format!("Ok(Some({}))", fam::render(p).chars().take(120).collect::<String>()),
        Ok(None) => "Ok(None)".to_string(),
        Err(e) => format!("Err({:?})", e),
    };
    let show = |r: Result<String, &F::Error>| match r {
        Ok(p) => format!("Ok({})", p.chars().take(120).collect::<String>()),
        Err(e) => format!("Err({:?})", e),
    };
    let exp_of = |e: &ExpErr| F::from_exp(e).ok_or_else(|| format!("MQV-INTERNAL: expectation {:?} has no {} form", e, F::FAM.name()));
    match &m.expect {
        Expect::All(e) => {
            let want = exp_of(e)?;
            if blocking != Err(want.clone()) {
                return Err(format!("{}: blocking decoder returned {} instead of Err({:?}); frame {}", what, show_b(&blocking), want, hex_short(b, 80)));
            }
            if asyn.as_ref().err() != Some(&want) {
                return Err(format!("{}: async decoder returned {} instead of Err({:?}); frame {}", what, show(asyn.as_ref().map(|p| fam::render(p))), want, hex_short(b, 80)));
            }
            if poll.as_ref().err() != Some(&want) {
                return Err(format!("{}: poll decoder returned {} instead of Err({:?}); frame {}", what, show(poll.as_ref().map(|p| fam::render(&p.pkt))), want, hex_short(b, 80)));
            }
        }
        Expect::PollOnly(e) => {
            let want = exp_of(e)?;
            if poll.as_ref().err() != Some(&want) {
                return Err(format!("{}: poll decoder returned {} instead of Err({:?}); frame {}", what, show(poll.as_ref().map(|p| fam::render(&p.pkt))), want, hex_short(b, 80)));
            }
        }
        Expect::InnerPastEnd => {
            let want = exp_of(&ExpErr::InvalidRemainingLength)?;
            if poll.as_ref().err() != Some(&want) {
                return Err(format!("{}: poll decoder returned {} instead of Err({:?}); frame {}", what, show(poll.as_ref().map(|p| fam::render(&p.pkt))), want, hex_short(b, 80)));
            }
            if !matches!(blocking, Ok(None)) {
                return Err(format!("{}: blocking decoder returned {} instead of Ok(None); frame {}", what, show_b(&blocking), hex_short(b, 80)));
            }
            if !matches!(&asyn, Err(e) if F::is_eof(e)) {
                return Err(format!("{}: async decoder returned {} instead of an EOF error; frame {}", what, show(asyn.as_ref().map(|p| fam::render(p))), hex_short(b, 80)));
            }
        }
    }
    Ok(())
}

/// The public decoders of the property sections (`XProperties::decode_async(reader, packet_type)`, `WillProperties`)
/// called directly on a section: Ok(()) / Err. None for v3 and for types without properties.
fn props_level(typ: u8, will: bool, section: &[u8]) -> Option<Result<(), mqtt_proto::v5::ErrorV5>> {
    use futures_lite::future::block_on;
    use mqtt_proto::v5::{self, PacketType as T};
    let mut r: &[u8] = section;
    if will {
        return Some(block_on(v5::WillProperties::decode_async(&mut r)).map(|_| ()));
    }
    Some(match typ {
        1 => block_on(v5::ConnectProperties::decode_async(&mut r, T::Connect)).map(|_| ()),
        2 => block_on(v5::ConnackProperties::decode_async(&mut r, T::Connack)).map(|_| ()),
        3 => block_on(v5::PublishProperties::decode_async(&mut r, T::Publish)).map(|_| ()),
        4 => block_on(v5::PubackProperties::decode_async(&mut r, T::Puback)).map(|_| ()),
        5 => block_on(v5::PubrecProperties::decode_async(&mut r, T::Pubrec)).map(|_| ()),
        6 => block_on(v5::PubrelProperties::decode_async(&mut r, T::Pubrel)).map(|_| ()),
        7 => block_on(v5::PubcompProperties::decode_async(&mut r, T::Pubcomp)).map(|_| ()),
        8 => block_on(v5::SubscribeProperties::decode_async(&mut r, T::Subscribe)).map(|_| ()),
        9 => block_on(v5::SubackProperties::decode_async(&mut r, T::Suback)).map(|_| ()),
        10 => block_on(v5::UnsubscribeProperties::decode_async(&mut r, T::Unsubscribe)).map(|_| ()),
        11 => block_on(v5::UnsubackProperties::decode_async(&mut r, T::Unsuback)).map(|_| ()),
        14 => block_on(v5::DisconnectProperties::decode_async(&mut r, T::Disconnect)).map(|_| ()),
        15 => block_on(v5::AuthProperties::decode_async(&mut r, T::Auth)).map(|_| ()),
        _ => return None,
    })
}

/// When a catalogue malformation sits inside a property section (everything else of the frame is as in the valid
/// packet, the section is spelled with its natural length), the section's own public decoder classifies it like the
/// packet decoders do.
fn check_props_level(orig: &crate::model::WPacket, mutated: &crate::model::WPacket, m: &mutate::Mutated, what: &str) -> Result<bool, String> {
    if orig.fam != crate::model::Fam::V5 || orig.first != mutated.first || mutated.rl_delta != 0 {
        return Ok(false);
    }
    let want = match &m.expect {
        Expect::All(e) => match <V5 as Family>::from_exp(e) {
            Some(w) => w,
            None => return Ok(false),
        },
        _ => return Ok(false),
    };
    for will in [false, true] {
        let (po, pm) = if will { (mutate::will_props(orig), mutate::will_props(mutated)) } else { (mutate::main_props(orig), mutate::main_props(mutated)) };
        let (po, pm) = match (po, pm) {
            (Some(a), Some(b)) => (a, b),
            _ => continue,
        };
        if po == pm || pm.declared.is_some() {
            continue;
        }
        // is this section the only thing that differs?
        let mut back = mutated.clone();
        match if will { mutate::will_props_mut(&mut back) } else { mutate::main_props_mut(&mut back) } {
            Some(slot) => *slot = po.clone(),
            None => continue,
        }
        if back != *orig {
            continue;
        }
        // (the valid section is accepted by the same entry point: otherwise the comparison means nothing)
        match props_level(orig.typ(), will, &crate::model::serialize_props(po)) {
            Some(Ok(())) => {}
            _ => continue,
        }
        let sec = crate::model::serialize_props(pm);
        match props_level(orig.typ(), will, &sec) {
            Some(Err(e)) if e == want => return Ok(true),
            Some(other) => {
                return Err(format!(
                    "{}: the public decoder of the {}property section on its own ({}) returned {:?} instead of Err({:?}) - the error the packet decoders give for the same section",
                    what,
                    if will { "will " } else { "" },
                    hex_short(&sec, 64),
                    other,
                    want
                ))
            }
            None => {}
        }
    }
    Ok(false)
}

fn classify<F: Family>(p: &F::Packet, t: &mut Tape, ctx: &mut Ctx) -> CaseResult {
    let mut w = F::project(p);
    // one time in three the valid base is spelled with wider variable byte integers than necessary where every front-end
    // takes them (remaining length; property length of the types that count it at its wire width): a malformation is
    // classified the same whatever benign spelling surrounds it
    if t.chance(1, 3) {
        if t.flag() {
            w.rl_width = 2 + t.pick(3) as u8;
        }
        if !matches!(w.typ(), 3 | 8 | 9 | 11) && t.flag() {
            if let Some(ps) = mutate::main_props_mut(&mut w) {
                ps.width = 2 + t.pick(3) as u8;
            }
        }
        ctx.label("base-with-padded-lengths");
    }
    // the long-form projection must itself be accepted (otherwise the catalogue has no valid base)
    let base = crate::model::serialize(&w).ok_or_else(|| Violation::new("MQV-INTERNAL: cannot serialise the projection"))?;
    match fam::dec_poll::<F>(&base).result {
        Ok(ok) => ensure!(ok.pkt == *p, "poll decoder reads the long-form spelling {} as {} instead of {}", hex_short(&base, 64), fam::render(&ok.pkt), fam::render(p)),
        Err(e) => viol!("poll decoder rejects the long-form spelling {} of a valid packet {} with {:?}", hex_short(&base, 64), fam::render(p), e),
    }
    let sites = mutate::sites(&w);
    let chosen: Vec<usize> = if sites.len() <= 48 { (0..sites.len()).collect() } else { (0..48).map(|_| t.pick(sites.len())).collect() };
    let tn = type_name(w.typ());
    let mut applied = 0u64;
    for i in chosen {
        let s = &sites[i];
        let mut mw: Option<crate::model::WPacket> = None;
        let m = match mutate::apply_ex(&w, s, t, &mut mw) {
            Some(m) => m,
            None => {
                ctx.label("site-not-applicable");
                continue;
            }
        };
        let what = format!("{} {} with {} [{}]", F::FAM.name(), tn, s.entry.name(), m.desc);
        if let Err(msg) = check_mutated::<F>(&m, &what) {
            return Err(Violation::new(format!("{}\n  base packet {}", msg, fam::render(p))));
        }
        if let Some(mw) = &mw {
            match check_props_level(&w, mw, &m, &what) {
                Ok(true) => ctx.label("property-section-decoder-agrees"),
                Ok(false) => {}
                Err(msg) => return Err(Violation::new(format!("{}\n  base packet {}", msg, fam::render(p)))),
            }
        }
        applied += 1;
        ctx.label(&format!("entry:{}", s.entry.name()));
        if ctx.nontrivial(fnv(format!("{}/{}/{}", tn, s.entry.name(), m.desc).as_bytes())) {
            ctx.sample(|| format!("{} -> expected {:?}; frame {}", what, m.expect, hex_short(&m.bytes, 48)));
        }
    }
    ctx.more_evals(applied);
    ctx.label(&format!("type:{}", tn));
    Ok(())
}

fn case<F: Family>(input: &Input, ctx: &mut Ctx) -> CaseResult {
    let mut t = Tape::new(input.tape());
    let cfg = crate::gen::cfg_mix(&mut t, ctx.thorough);
    let p = F::gen(&mut t, &cfg).map_err(|e| Violation::new(e.0))?;
    classify::<F>(&p, &mut t, ctx)
}

fn case_typed<F: Family>(input: &Input, ctx: &mut Ctx) -> CaseResult {
    let mut t = Tape::new(input.tape());
    let typ = t.pick(F::NTYPES);
    let p = F::gen_of_type(&mut t, &GenCfg::SMALL, typ).map_err(|e| Violation::new(e.0))?;
    classify::<F>(&p, &mut t, ctx)
}

pub const SUB_V3: Sub = Sub { name: "c20.catalogue.v3", f: case::<V3> };
pub const SUB_V5: Sub = Sub { name: "c20.catalogue.v5", f: case::<V5> };
pub const SUB_T3: Sub = Sub { name: "c20.typed.v3", f: case_typed::<V3> };
pub const SUB_T5: Sub = Sub { name: "c20.typed.v5", f: case_typed::<V5> };

pub fn subs() -> Vec<Sub> {
    vec![SUB_V3, SUB_V5, SUB_T3, SUB_T5]
}

pub fn run(env: &mut Env) -> RunResult {
    let n = env.tier.sel(5_000, 180_000);
    env.run_tapes(SUB_V3, n, 140)?;
    env.run_tapes(SUB_V5, n * 2, 240)?;
    env.run_tapes(SUB_T3, n / 2, 140)?;
    env.run_tapes(SUB_T5, n, 240)?;
    use mutate::Entry::*;
    let v3_entries = [Flags, Type0, PubQos3, Pid0, SubQos, WillQos3, WillQosNoWill, ConnRes, ConnackFlags, V3Rc, V3SubRc, NonUtf8, NameWild, BadFilter, VarInt5, ProtoName, ProtoFamily, EmptySub, RlStrict, RlSmall, InnerPastEnd];
    for e in v3_entries {
        env.require("c20.catalogue.v3", &format!("entry:{}", e.name()));
    }
    for e in mutate::ALL_ENTRIES {
        if matches!(e, SubQos | V3Rc | V3SubRc) {
            continue;
        }
        // (Utf8Straddle only exists where there are user properties, i.e. in v5: it is in ALL_ENTRIES)
        env.require("c20.catalogue.v5", &format!("entry:{}", e.name()));
    }
    env.require("c20.catalogue.v5", "property-section-decoder-agrees");
    Ok(())
}
