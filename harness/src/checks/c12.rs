//! C12 — every decoded packet satisfies the invariants its types promise.

use crate::corpus;
use crate::fam::{self, Family, V3, V5};
use crate::model::{fnv, hex_short};
use crate::run::{guard, CaseResult, Ctx, Env, Input, RunResult, Sub};
use crate::specpred;
use crate::tape::Tape;
use crate::walk::Field;
use crate::{ensure, viol};
use mqtt_proto::{TopicFilter, TopicName};

pub fn invariants<F: Family>(p: &F::Packet, b: &[u8], front: &str, ctx: &mut Ctx) -> CaseResult {
    let fields = F::walk(p);
    let mut has_text = false;
    for f in &fields {
        match f {
            Field::Str(l, s) => {
                has_text = true;
                ensure!(std::str::from_utf8(s.as_bytes()).is_ok(), "{}: text field {} of the packet decoded from {} is not valid UTF-8: {}", front, l, hex_short(b, 96), hex_short(s.as_bytes(), 32));
                ctx.label(l);
            }
            Field::Name(l, n) => {
                has_text = true;
                let s: &str = n;
                ensure!(std::str::from_utf8(s.as_bytes()).is_ok(), "{}: topic name {} decoded from {} is not valid UTF-8", front, l, hex_short(b, 96));
                ensure!(!TopicName::is_invalid(s), "{}: topic name {} = {:?} decoded from {} fails the library's own validity predicate", front, l, s, hex_short(b, 96));
                ensure!(specpred::name_valid(s), "{}: topic name {} = {:?} decoded from {} is not a valid MQTT topic name", front, l, s, hex_short(b, 96));
                ctx.label(l);
            }
            Field::Filter(l, flt) => {
                has_text = true;
                let s: &str = flt;
                ensure!(std::str::from_utf8(s.as_bytes()).is_ok(), "{}: topic filter {} decoded from {} is not valid UTF-8", front, l, hex_short(b, 96));
                ensure!(!TopicFilter::is_invalid(s).0, "{}: topic filter {} = {:?} decoded from {} fails the library's own validity predicate", front, l, s, hex_short(b, 96));
                ensure!(specpred::filter_valid(s), "{}: topic filter {} = {:?} decoded from {} is not a valid MQTT topic filter", front, l, s, hex_short(b, 96));
                // the shared-subscription accessors work (no panic) and agree with the text
                let acc = guard(|| (flt.is_shared(), flt.shared_group_name().map(|x| x.to_string()), flt.shared_filter().map(|x| x.to_string()), flt.shared_info().map(|(a, c)| (a.to_string(), c.to_string()))));
                match acc {
                    Ok((sh, name, filt, info)) => {
                        let want = if s.starts_with("$share/") { specpred::shared_split(s).map(|(a, c)| (a.to_string(), c.to_string())) } else { None };
                        ensure!(
                            sh == want.is_some() && info == want && name == want.as_ref().map(|x| x.0.clone()) && filt == want.as_ref().map(|x| x.1.clone()),
                            "{}: shared accessors of filter {:?} decoded from {} give ({}, {:?}, {:?}); the text splits as {:?}",
                            front,
                            s,
                            hex_short(b, 96),
                            sh,
                            name,
                            filt,
                            want
                        );
                        if sh {
                            ctx.label("shared-filter-decoded");
                        }
                    }
                    Err(pn) => viol!("{}: shared accessors of filter {:?} decoded from {} panic: {} at {}", front, s, hex_short(b, 96), pn.msg, pn.loc),
                }
                ctx.label(l);
            }
            Field::Pid(l, pid) => {
                ensure!(pid.value() != 0, "{}: packet identifier {} of the packet decoded from {} is 0", front, l, hex_short(b, 96));
                ctx.label(l);
            }
            Field::VarInt(l, v) => {
                ensure!(*v < 268_435_456, "{}: variable byte integer field {} = {} decoded from {}", front, l, v, hex_short(b, 96));
                ctx.label(l);
            }
            Field::Utf8Payload(l, pl) => {
                ensure!(std::str::from_utf8(pl).is_ok(), "{}: payload flagged as UTF-8 ({}) decoded from {} is not valid UTF-8: {}", front, l, hex_short(b, 96), hex_short(pl, 32));
                ctx.label(l);
            }
        }
    }
    if has_text && ctx.nontrivial(fnv(b)) {
        ctx.sample(|| format!("{} [{}] {} -> {} ({} invariant-bearing fields)", F::FAM.name(), front, hex_short(b, 40), fam::render(p).chars().take(120).collect::<String>(), fields.len()));
    }
    Ok(())
}

pub fn all_fronts<F: Family>(b: &[u8], origin: &str, ctx: &mut Ctx) -> CaseResult {
    let mut any = false;
    if let Ok(Some(p)) = F::decode(b) {
        any = true;
        invariants::<F>(&p, b, "blocking", ctx)?;
    }
    if let (Ok(p), _) = fam::dec_async::<F>(b) {
        any = true;
        invariants::<F>(&p, b, "async", ctx)?;
    }
    // the async decoder again, over a transport that hands the bytes over in small pieces (validation that is done
    // piece by piece must not let through what the whole would not)
    if b.len() <= 4_096 {
        for k in [1usize, 2, 3] {
            if let (Ok(p), _) = fam::dec_async_chunked::<F>(b, k) {
                any = true;
                invariants::<F>(&p, b, "async (chunked delivery)", ctx)?;
            }
        }
    }
    if let Ok(ok) = fam::dec_poll::<F>(b).result {
        any = true;
        invariants::<F>(&ok.pkt, b, "poll", ctx)?;
    }
    if let Some(Ok(p)) = F::body_level_decode(b) {
        any = true;
        ctx.label("body-level-decoder-accepted");
        invariants::<F>(&p, b, "body-level decoder", ctx)?;
    }
    ctx.label(if any { "accepted" } else { "rejected-by-all" });
    if any {
        ctx.label(&format!("accepted-origin:{}", origin));
    }
    Ok(())
}

fn case<F: Family>(input: &Input, ctx: &mut Ctx) -> CaseResult {
    let mut t = Tape::new(input.tape());
    let cfg = crate::gen::cfg_mix(&mut t, ctx.thorough);
    let (b, origin) = corpus::gen_input::<F>(&mut t, &cfg);
    all_fronts::<F>(&b, origin, ctx)
}

fn case_bytes<F: Family>(input: &Input, ctx: &mut Ctx) -> CaseResult {
    all_fronts::<F>(input.bytes(), "given", ctx)
}

fn case_history<F: Family>(input: &Input, ctx: &mut Ctx) -> CaseResult {
    // a valid packet is decoded first, then a frame that reuses one of its strings in another role
    crate::checks::c04::history_core::<F>(input, ctx, 4)
}


/// nums = [full (0/1), start, count]: the byte sequences of c04's UTF-8 sweep as string content; whatever any
/// front-end accepts is walked
fn case_utf8(input: &Input, ctx: &mut Ctx) -> CaseResult {
    let n = input.nums();
    for i in n[1]..n[1] + n[2] {
        let seq = crate::checks::c04::utf8_seq(n[0] == 1, i);
        let (f3, f5) = crate::checks::c04::utf8_frames(&seq);
        all_fronts::<V3>(&f3, "utf8-sweep", ctx)?;
        all_fronts::<V5>(&f5, "utf8-sweep", ctx)?;
    }
    ctx.more_evals((n[2] * 2).saturating_sub(1));
    ctx.count_distinct(n[2] * 2);
    Ok(())
}
/// nums = [max atoms, start, count]: c04's sequences of UTF-8 atoms in the v3 CONNECT text fields (both protocol
/// levels) and a v5 user property; whatever any front-end accepts is walked
fn case_utf8_atoms(input: &Input, ctx: &mut Ctx) -> CaseResult {
    let n = input.nums();
    for i in n[1]..n[1] + n[2] {
        let seq = crate::checks::c04::utf8_atom_seq(i, n[0] as u32);
        for (_, fr) in crate::checks::c04::utf8_connect_frames(&seq) {
            all_fronts::<V3>(&fr, "utf8-sweep", ctx)?;
        }
        all_fronts::<V5>(&crate::checks::c04::utf8_frames(&seq).1, "utf8-sweep", ctx)?;
    }
    ctx.more_evals((n[2] * 7).saturating_sub(1));
    ctx.count_distinct(n[2] * 7);
    Ok(())
}
pub const SUB_UTF8_ATOMS: Sub = Sub { name: "c12.utf8-atom-sequences", f: case_utf8_atoms };
pub const SUB_UTF8: Sub = Sub { name: "c12.utf8-sequences", f: case_utf8 };

pub const SUB_H3: Sub = Sub { name: "c12.history.v3", f: case_history::<V3> };
pub const SUB_H5: Sub = Sub { name: "c12.history.v5", f: case_history::<V5> };
/// nums = [first byte, remaining length, start, count]: a block of exhaustively enumerated short frames
fn case_short<F: Family>(input: &Input, ctx: &mut Ctx) -> CaseResult {
    let n = input.nums();
    let (first, rl, start, count) = (n[0] as u8, n[1] as usize, n[2], n[3]);
    for i in start..start + count {
        let fr = crate::shortframes::frame(first, rl, i);
        if let Err(v) = all_fronts::<F>(&fr, "short-frame", ctx) {
            ctx.refine = Some((if F::FAM == crate::model::Fam::V3 { "c12.bytes.v3" } else { "c12.bytes.v5" }, Input::Bytes(fr)));
            return Err(v);
        }
    }
    ctx.more_evals(count.saturating_sub(1));
    ctx.label_n("short-frames", count);
    Ok(())
}

pub const SUB_X3: Sub = Sub { name: "c12.short-frames.v3", f: case_short::<V3> };
pub const SUB_X5: Sub = Sub { name: "c12.short-frames.v5", f: case_short::<V5> };
pub const SUB_V3: Sub = Sub { name: "c12.invariants.v3", f: case::<V3> };
pub const SUB_V5: Sub = Sub { name: "c12.invariants.v5", f: case::<V5> };
pub const SUB_B3: Sub = Sub { name: "c12.bytes.v3", f: case_bytes::<V3> };
pub const SUB_B5: Sub = Sub { name: "c12.bytes.v5", f: case_bytes::<V5> };

pub fn subs() -> Vec<Sub> {
    vec![SUB_V3, SUB_V5, SUB_B3, SUB_B5, SUB_H3, SUB_H5, SUB_X3, SUB_X5, SUB_UTF8, SUB_UTF8_ATOMS]
}

pub fn run(env: &mut Env) -> RunResult {
    env.run_inputs(SUB_B3, &crate::checks::c04::vectors(crate::model::Fam::V3))?;
    env.run_inputs(SUB_B5, &crate::checks::c04::vectors(crate::model::Fam::V5))?;
    // encodings of the boundary-size constructions (sized.rs) as inputs
    let lim = env.tier.sel(21_000_000usize, 140_000_000usize);
    let z3 = crate::sized::encoded_inputs::<V3>(env.thorough(), lim);
    let k3 = z3.len() as u64;
    env.run_enum(SUB_B3, k3, false, move |i| z3[i as usize].clone())?;
    let z5 = crate::sized::encoded_inputs::<V5>(env.thorough(), lim);
    let k5 = z5.len() as u64;
    env.run_enum(SUB_B5, k5, false, move |i| z5[i as usize].clone())?;
    // every frame with a body of 0..=2 bytes and bodies of 3..=4 (thorough: 5) bytes over a reduced alphabet
    let sb = crate::shortframes::blocks(env.thorough(), env.tier.sel(4usize, 5usize));
    let kb = sb.len() as u64;
    let sb2 = sb.clone();
    env.run_enum(SUB_X3, kb, true, move |i| sb2[i as usize].clone())?;
    env.run_enum(SUB_X5, kb, true, move |i| sb[i as usize].clone())?;
    let full = env.thorough();
    let total = crate::checks::c04::utf8_seq_count(full);
    env.run_enum(SUB_UTF8, total.div_ceil(4_096), true, move |i| Input::Nums(vec![full as u64, i * 4_096, 4_096.min(total - i * 4_096)]))?;
    let atoms = env.tier.sel(3u64, 4u64);
    let at = crate::checks::c04::utf8_atom_seq_count(atoms as u32);
    env.run_enum(SUB_UTF8_ATOMS, at.div_ceil(512), true, move |i| Input::Nums(vec![atoms, i * 512, 512.min(at - i * 512)]))?;
    env.require("c12.utf8-atom-sequences", "accepted");
    env.require("c12.utf8-atom-sequences", "rejected-by-all");
    env.require("c12.utf8-sequences", "accepted");
    env.require("c12.utf8-sequences", "rejected-by-all");
    let n = env.tier.sel(25_000, 400_000);
    env.run_tapes(SUB_V3, n, 200)?;
    env.run_tapes(SUB_V5, n * 3, 300)?;
    env.run_tapes(SUB_H3, n / 4, 300)?;
    env.run_tapes(SUB_H5, n / 2, 400)?;
    env.require("c12.history.v5", "history:into-response-topic:reject");
    env.require("c12.history.v5", "history:into-topic-name:reject");
    for l in V3::FIELD_LABELS {
        env.require("c12.invariants.v3", l);
    }
    for l in V5::FIELD_LABELS {
        env.require("c12.invariants.v5", l);
    }
    env.require("c12.invariants.v3", "body-level-decoder-accepted");
    env.require("c12.invariants.v5", "body-level-decoder-accepted");
    env.require("c12.invariants.v3", "shared-filter-decoded");
    env.require("c12.invariants.v5", "shared-filter-decoded");
    env.require("c12.invariants.v5", "accepted-origin:byte-mutated");
    env.require("c12.invariants.v5", "accepted-origin:catalogue");
    Ok(())
}
