//! C02 — declared lengths equal the bytes actually written; oversize packets are refused.
//! Runs under both build profiles (the driver compares the encodings' digests).

use crate::checks::c01;
use crate::fam::{self, Family, V3, V5};
use crate::gen::GenCfg;
use crate::model::{self, fnv, hex_short, varint_min_width};
use crate::refdec;
use crate::run::{guard, CaseResult, Ctx, Env, Input, RunResult, Sub, Violation};
use crate::tape::Tape;
use crate::{ensure, viol};

pub fn lengths<F: Family>(p: &F::Packet, ctx: &mut Ctx) -> CaseResult {
    let enc = match F::encode(p) {
        Ok(b) => b,
        Err(e) => viol!("encode of a valid packet failed: {:?}; packet {}", e, fam::render(p)),
    };
    let bytes: &[u8] = enc.as_ref();
    ctx.add_digest(fnv(bytes));
    match F::encode_len(p) {
        Ok(n) => ensure!(n == bytes.len(), "packet reports encode_len {} but the encoder emitted {} bytes; packet {}", n, bytes.len(), fam::render(p)),
        Err(e) => viol!("encode_len failed ({}) although encode succeeded; packet {}", e, fam::render(p)),
    }
    let (hl, rl) = match refdec::frame_bounds(bytes) {
        Ok(x) => x,
        Err(e) => viol!("encoder output has no well-formed fixed header ({:?}): {}", e, hex_short(bytes, 64)),
    };
    ensure!(bytes.len() - hl == rl, "remaining-length field says {} but {} bytes follow it; packet {}", rl, bytes.len() - hl, fam::render(p));
    ensure!(hl - 1 == varint_min_width(rl as u32), "remaining length {} encoded in {} bytes (not minimal)", rl, hl - 1);
    // the async encoder is an encoder too: what it emits into a plain Vec has the reported length, and its header's
    // remaining length is the number of bytes that follow
    if bytes.len() <= 8 << 20 {
        let mut out: Vec<u8> = Vec::new();
        let (r, _) = crate::sio::drive(F::encode_async(p, &mut out), 64);
        match r {
            Ok(()) => {
                ensure!(out.len() == bytes.len(), "encode_async emitted {} bytes into a Vec; the packet reports {}; packet {}", out.len(), bytes.len(), fam::render(p).chars().take(120).collect::<String>());
                match refdec::frame_bounds(&out) {
                    Ok((h2, r2)) => ensure!(out.len() - h2 == r2, "encode_async: the remaining-length field says {} but {} bytes follow it", r2, out.len() - h2),
                    Err(e) => viol!("encode_async output has no well-formed fixed header ({:?})", e),
                }
            }
            Err(e) => viol!("encode_async into a Vec failed ({:?}) although encode succeeded", e),
        }
    }

    let parts = F::parts(p);
    for (i, part) in parts.iter().enumerate() {
        if let Err(e) = &part.result {
            viol!("streaming encoder of {} failed into a Vec: {}", part.name, e);
        }
        ensure!(
            part.bytes.len() == part.reported,
            "{} reports encode_len {} but wrote {} bytes; packet {}",
            part.name,
            part.reported,
            part.bytes.len(),
            fam::render(p)
        );
        match &part.chunked {
            Ok(c) => ensure!(*c == part.bytes, "{} wrote different bytes through a one-byte-per-write sink", part.name),
            Err(e) => viol!("{} failed through a one-byte-per-write sink: {}", part.name, e),
        }
        if i == 0 {
            // the first part is the packet body
            ensure!(part.bytes == bytes[hl..], "{}: body written by the streaming encoder differs from the packet encoding after the header", part.name);
        }
        ctx.label(part.name);
    }
    let (_t, _) = c01::classify::<F>(p, bytes, ctx);
    if bytes.len() > 4 {
        ctx.nontrivial(fnv(bytes));
        ctx.sample(|| {
            format!(
                "{} {} -> total {} = header {} + remaining {}; parts {:?}",
                F::FAM.name(),
                fam::render(p),
                bytes.len(),
                hl,
                rl,
                parts.iter().map(|x| (x.name, x.reported)).collect::<Vec<_>>()
            )
        });
    }
    Ok(())
}

fn case<F: Family>(input: &Input, ctx: &mut Ctx) -> CaseResult {
    let mut t = Tape::new(input.tape());
    let cfg = c01::cfg_for(ctx);
    let p = F::gen(&mut t, &cfg).map_err(|e| Violation::new(e.0))?;
    lengths::<F>(&p, ctx)
}

fn case_typed<F: Family>(input: &Input, ctx: &mut Ctx) -> CaseResult {
    let mut t = Tape::new(input.tape());
    let typ = t.pick(F::NTYPES);
    let p = F::gen_of_type(&mut t, &GenCfg::MEDIUM, typ).map_err(|e| Violation::new(e.0))?;
    lengths::<F>(&p, ctx)
}

/// nums = [remaining length]: PUBLISH of exactly that remaining length; accepted up to
/// 268,435,455 (checked like any other packet), refused with an error above.
fn case_sized<F: Family>(input: &Input, ctx: &mut Ctx) -> CaseResult {
    if input.nums().len() >= 3 {
        // boundary-size construction nums = [kind, type, target] of sized.rs
        return match crate::sized::from_input::<F>(input, ctx) {
            Some(p) => lengths::<F>(&p, ctx),
            None => Ok(()),
        };
    }
    let rl = input.nums().first().copied().unwrap_or(2) as usize;
    let p = c01::sized_publish::<F>(rl);
    if rl <= 268_435_455 {
        ctx.label("at-or-below-limit");
        ctx.nontrivial(rl as u64);
        // do not render / digest 256 MB: check the lengths directly
        let enc = match F::encode(&p) {
            Ok(b) => b,
            Err(e) => viol!("encode of a PUBLISH with remaining length {} failed: {:?}", rl, e),
        };
        let bytes: &[u8] = enc.as_ref();
        let (hl, got) = refdec::frame_bounds(bytes).map_err(|e| Violation::new(format!("bad header {:?}", e)))?;
        ensure!(got == rl && bytes.len() == hl + rl, "PUBLISH built for remaining length {}: header says {}, {} bytes follow", rl, got, bytes.len() - hl);
        ensure!(hl - 1 == varint_min_width(rl as u32), "remaining length {} encoded in {} bytes", rl, hl - 1);
        ensure!(F::encode_len(&p) == Ok(bytes.len()), "encode_len {:?} != emitted {}", F::encode_len(&p), bytes.len());
        ctx.sample(|| format!("{} PUBLISH remaining length {} -> {} bytes, header {}", F::FAM.name(), rl, bytes.len(), hex_short(&bytes[..hl], 8)));
    } else {
        ctx.label("above-limit");
        ctx.nontrivial(rl as u64);
        match guard(|| (F::encode(&p).map(|b| b.as_ref().len()), F::encode_len(&p))) {
            Ok((e, l)) => {
                ensure!(e.is_err(), "PUBLISH with remaining length {} was emitted ({:?} bytes) instead of being refused", rl, e);
                ensure!(l.is_err(), "PUBLISH with remaining length {} reports encode_len {:?} instead of an error", rl, l);
                ctx.sample(|| format!("{} PUBLISH remaining length {} refused: encode {:?}, encode_len {:?}", F::FAM.name(), rl, e, l));
            }
            Err(p) => viol!("oversize PUBLISH (remaining length {}) panicked instead of being refused: {} at {}", rl, p.msg, p.loc),
        }
    }
    Ok(())
}

/// nums = [n, len]: every packet type with properties carrying n user properties of 2*len bytes.
/// Above the limit the packet must be refused with an error; below it lengths must agree.
fn case_oversize_props<F: Family>(input: &Input, ctx: &mut Ctx) -> CaseResult {
    let n = input.nums().first().copied().unwrap_or(0) as usize;
    let len = input.nums().get(1).copied().unwrap_or(0) as usize;
    let section = n * (5 + 2 * len);
    for p in F::oversize_props(n, len) {
        // (no projection here: it would copy the whole property section)
        let tname = model::type_name(F::type_index(&p) as u8 + 1);
        if section > 268_435_455 {
            ctx.label("props-above-limit");
            ctx.nontrivial(fnv(format!("{}{}{}", tname, n, len).as_bytes()));
            match guard(|| (F::encode(&p).map(|b| b.as_ref().len()), F::encode_len(&p))) {
                Ok((e, l)) => {
                    ensure!(e.is_err(), "{} with a {}-byte property section was emitted ({:?}) instead of being refused", tname, section, e);
                    ensure!(l.is_err(), "{} with a {}-byte property section reports encode_len {:?}", tname, section, l);
                    ctx.sample(|| format!("v5 {} with {} user properties of 2x{} bytes (section {} bytes) refused: {:?}", tname, n, len, section, e));
                }
                Err(pn) => viol!("{} with a {}-byte property section panicked instead of being refused: {} at {}", tname, section, pn.msg, pn.loc),
            }
        } else {
            ctx.label("props-below-limit");
            ctx.nontrivial(fnv(format!("{}{}{}", tname, n, len).as_bytes()));
            let enc = match guard(|| F::encode(&p)) {
                Ok(Ok(b)) => b,
                Ok(Err(e)) => viol!("{} with a {}-byte property section (within the limit) refused: {:?}", tname, section, e),
                Err(pn) => viol!("{} with a {}-byte property section panicked: {} at {}", tname, section, pn.msg, pn.loc),
            };
            let bytes: &[u8] = enc.as_ref();
            let (hl, rl) = refdec::frame_bounds(bytes).map_err(|e| Violation::new(format!("bad header {:?}", e)))?;
            ensure!(bytes.len() == hl + rl, "{}: header says {} but {} bytes follow", tname, rl, bytes.len() - hl);
            ensure!(F::encode_len(&p) == Ok(bytes.len()), "{}: encode_len {:?} != emitted {}", tname, F::encode_len(&p), bytes.len());
            ensure!(rl >= section, "{}: remaining length {} smaller than the property section {}", tname, rl, section);
        }
    }
    Ok(())
}

/// Packet values of another provenance: whatever a decoder returned for a generated byte string (re-spelled, leniently
/// framed, mutated frames included). A value the library hands out is a value its encoder must size correctly, whatever
/// the spelling it was decoded from.
fn case_decoded<F: Family>(input: &Input, ctx: &mut Ctx) -> CaseResult {
    let mut t = Tape::new(input.tape());
    let cfg = crate::gen::cfg_mix(&mut t, ctx.thorough);
    let (b, origin) = crate::corpus::gen_input::<F>(&mut t, &cfg);
    let mut seen = 0;
    if let Ok(Some(q)) = F::decode(&b) {
        lengths::<F>(&q, ctx).map_err(|v| Violation::new(format!("packet decoded from {} [{}]: {}", hex_short(&b, 96), origin, v.msg)))?;
        seen += 1;
    }
    if let Ok(ok) = fam::dec_poll::<F>(&b).result {
        if seen == 0 {
            lengths::<F>(&ok.pkt, ctx)?;
        }
        seen += 1;
    }
    if seen > 0 {
        ctx.label("decoded-value-sized");
        ctx.label(&format!("decoded-from:{}", origin));
    } else {
        ctx.label("not-accepted");
    }
    Ok(())
}

pub const SUB_D3: Sub = Sub { name: "c02.decoded-values.v3", f: case_decoded::<V3> };
pub const SUB_D5: Sub = Sub { name: "c02.decoded-values.v5", f: case_decoded::<V5> };
pub const SUB_V3: Sub = Sub { name: "c02.lengths.v3", f: case::<V3> };
pub const SUB_V5: Sub = Sub { name: "c02.lengths.v5", f: case::<V5> };
pub const SUB_T3: Sub = Sub { name: "c02.typed.v3", f: case_typed::<V3> };
pub const SUB_T5: Sub = Sub { name: "c02.typed.v5", f: case_typed::<V5> };
pub const SUB_S3: Sub = Sub { name: "c02.sized.v3", f: case_sized::<V3> };
pub const SUB_S5: Sub = Sub { name: "c02.sized.v5", f: case_sized::<V5> };
pub const SUB_O5: Sub = Sub { name: "c02.oversize_props.v5", f: case_oversize_props::<V5> };

pub fn subs() -> Vec<Sub> {
    vec![SUB_V3, SUB_V5, SUB_T3, SUB_T5, SUB_S3, SUB_S5, SUB_O5, SUB_D3, SUB_D5]
}

pub fn run(env: &mut Env) -> RunResult {
    let n = env.tier.sel(6_000, 90_000);
    env.run_tapes(SUB_V3, n, 96)?;
    env.run_tapes(SUB_V5, n * 2, 200)?;
    env.run_tapes(SUB_T3, n / 2, 96)?;
    env.run_tapes(SUB_T5, n, 200)?;
    env.run_tapes(SUB_D3, n * 2, 260)?;
    env.run_tapes(SUB_D5, n * 4, 360)?;
    for s in ["c02.decoded-values.v3", "c02.decoded-values.v5"] {
        env.require(s, "decoded-value-sized");
        env.require(s, "decoded-from:respelled");
    }
    let mut sizes: Vec<u64> = vec![4, 5, 126, 127, 128, 129, 16_382, 16_383, 16_384, 16_385, 2_097_151, 2_097_152, 268_435_456, 268_435_457, 300_000_000];
    if env.thorough() {
        sizes.extend([2_097_150u64, 2_097_153, 268_435_454, 268_435_455]);
    }
    let inputs: Vec<Input> = sizes.iter().map(|s| Input::Nums(vec![*s])).collect();
    env.run_inputs(SUB_S3, &inputs)?;
    env.run_inputs(SUB_S5, &inputs)?;
    let s3 = crate::sized::inputs(model::Fam::V3, env.thorough());
    let n3 = s3.len() as u64;
    env.run_enum(SUB_S3, n3, false, move |i| s3[i as usize].clone())?;
    let s5 = crate::sized::inputs(model::Fam::V5, env.thorough());
    let n5 = s5.len() as u64;
    env.run_enum(SUB_S5, n5, false, move |i| s5[i as usize].clone())?;
    env.require("c02.sized.v5", "sized-properties");
    env.require("c02.sized.v5", "sized-will-properties");
    env.require("c02.sized.v5", "sized:2MiB-boundary");
    // property sections: 2048 x (5 + 2*65535) = 268,441,600 > limit; 4096 x 65540; 70,000 x 3,835
    let mut o: Vec<Input> = vec![Input::Nums(vec![2_049, 65_535]), Input::Nums(vec![4_100, 32_768]), Input::Nums(vec![70_000, 1_915]), Input::Nums(vec![3, 40_000])];
    if env.thorough() {
        o.push(Input::Nums(vec![2_047, 65_535])); // 268,310,525 bytes: must be emitted, lengths agree
    }
    env.run_inputs(SUB_O5, &o)?;
    env.require("c02.sized.v3", "above-limit");
    env.require("c02.sized.v5", "above-limit");
    env.require("c02.oversize_props.v5", "props-above-limit");
    env.require("c02.lengths.v5", "WillProperties");
    env.require("c02.lengths.v3", "v3.LastWill");
    Ok(())
}
