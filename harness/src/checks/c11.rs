//! C11 — anything a decoder accepts can be re-encoded and decodes to itself (canonical form).
//! Runs under both build profiles.

use crate::corpus;
use crate::fam::{self, Family, V3, V5};
use crate::model::{fnv, hex_short, varint_min_width};
use crate::refdec;
use crate::run::{guard, CaseResult, Ctx, Env, Input, RunResult, Sub};
use crate::tape::Tape;
use crate::viol;

/// checks one acceptance: packet `p` was produced by `front` after consuming `consumed` bytes of `b`
fn accepted<F: Family>(b: &[u8], p: &F::Packet, consumed: usize, front: &str, ctx: &mut Ctx) -> CaseResult {
    let enc = match guard(|| F::encode(p)) {
        Ok(Ok(e)) => e.as_ref().to_vec(),
        Ok(Err(e)) => viol!("{} decoder accepted {} as {} which cannot be re-encoded: {:?}", front, hex_short(b, 96), fam::render(p), e),
        Err(pn) => viol!("{} decoder accepted {} as {} whose re-encoding panics: {} at {}", front, hex_short(b, 96), fam::render(p), pn.msg, pn.loc),
    };
    ctx.add_digest(fnv(&enc));
    // the re-encoding decodes to p on every front-end
    match F::decode(&enc) {
        Ok(Some(q)) if q == *p => {}
        other => viol!("re-encoding {} of accepted packet {} decodes (blocking) to {:?}", hex_short(&enc, 96), fam::render(p), other.map(|o| o.map(|q| fam::render(&q)))),
    }
    match fam::dec_async::<F>(&enc) {
        (Ok(q), n) if q == *p && n == enc.len() => {}
        (other, n) => viol!("re-encoding {} of accepted packet {} decodes (async, {} bytes consumed) to {:?}", hex_short(&enc, 96), fam::render(p), n, other.map(|q| fam::render(&q))),
    }
    let pr = fam::dec_poll::<F>(&enc);
    match pr.result {
        Ok(ok) if ok.pkt == *p && ok.total == enc.len() => {}
        other => viol!("re-encoding {} of accepted packet {} decodes (poll) to {:?}", hex_short(&enc, 96), fam::render(p), other.map(|q| (q.total, fam::render(&q.pkt)))),
    }
    // canonical form is not longer than what was consumed
    if enc.len() > consumed {
        let lenient = front != "poll";
        let (hw_in, declared) = refdec::frame_bounds(b).unwrap_or((consumed, 0));
        let hw_re = 1 + varint_min_width((enc.len().saturating_sub(2)) as u32).min(4);
        let (hw_re, _) = refdec::frame_bounds(&enc).unwrap_or((hw_re, 0));
        let body_consumed = consumed.saturating_sub(hw_in);
        let body_re = enc.len() - hw_re;
        if lenient && declared < body_consumed && body_re <= body_consumed && hw_re > hw_in {
            // K1: the lenient decoders ignore an under-declared remaining length; the canonical
            // header needs more length bytes than the peer sent
            ctx.label("known:K1-lenient-underdeclared-remaining-length");
            ctx.known_finding_as(
                "C11",
                "lenient-underdeclared-remaining-length",
                &format!("{} decoder consumed {} bytes of {} but the re-encoding of {} has {} bytes", front, consumed, hex_short(b, 96), fam::render(p), enc.len()),
            )?;
        } else {
            viol!(
                "{} decoder consumed {} bytes of {} and returned {}, whose re-encoding {} is longer ({} bytes)",
                front,
                consumed,
                hex_short(b, 96),
                fam::render(p),
                hex_short(&enc, 96),
                enc.len()
            );
        }
    }
    if enc[..] != b[..consumed.min(b.len())] {
        ctx.label("non-canonical-input");
        if enc.len() < consumed {
            ctx.label("non-canonical:shorter-re-encoding");
        }
        if ctx.nontrivial(fnv(&b[..consumed.min(b.len())])) {
            ctx.sample(|| format!("{} [{}] {} -> {} -> re-encoded {}", F::FAM.name(), front, hex_short(&b[..consumed.min(b.len())], 48), fam::render(p).chars().take(100).collect::<String>(), hex_short(&enc, 48)));
        }
    } else {
        ctx.label("canonical-input");
    }
    Ok(())
}

pub fn reencode<F: Family>(b: &[u8], origin: &str, ctx: &mut Ctx) -> CaseResult {
    let mut any = false;
    let (asyn, used) = fam::dec_async::<F>(b);
    if let Ok(p) = &asyn {
        any = true;
        accepted::<F>(b, p, used, "async", ctx)?;
    }
    if let Ok(Some(p)) = F::decode(b) {
        // the blocking decoder consumes what the async decoder consumes on the same slice
        let same = matches!(&asyn, Ok(q) if *q == p);
        if !same {
            any = true;
            accepted::<F>(b, &p, used, "blocking", ctx)?;
        }
    }
    let pr = fam::dec_poll::<F>(b);
    if let Ok(ok) = &pr.result {
        any = true;
        accepted::<F>(b, &ok.pkt, pr.pos, "poll", ctx)?;
    }
    ctx.label(if any { "accepted" } else { "rejected-by-all" });
    if any {
        ctx.label(&format!("accepted-origin:{}", origin));
    }
    // a stream: every packet the async decoder takes from the input one after the other (up to four) is re-encoded with
    // encode_async into *one* sink, as a forwarding bridge does; each call succeeds and the sink ends up holding the
    // concatenation of the re-encodings (re-encoding a packet does nothing to the sink but write that packet)
    {
        let mut r: &[u8] = b;
        let mut pkts: Vec<F::Packet> = Vec::new();
        while pkts.len() < 4 && !r.is_empty() {
            match futures_lite::future::block_on(F::decode_async(&mut r)) {
                Ok(p) => pkts.push(p),
                Err(_) => break,
            }
        }
        if pkts.len() >= 2 {
            let mut want: Vec<u8> = Vec::new();
            let steps = [crate::sio::WStep::Accept(3), crate::sio::WStep::Pending, crate::sio::WStep::Accept(1)];
            let mut w = crate::sio::ScriptedWriter::new(&steps, 1 << 22);
            for (k, p) in pkts.iter().enumerate() {
                match F::encode(p) {
                    Ok(e) => want.extend_from_slice(e.as_ref()),
                    Err(_) => return Ok(()), // (judged by the single-packet part above)
                }
                let (res, _) = crate::sio::drive(F::encode_async(p, &mut w), want.len() + 64);
                if let Err(e) = res {
                    return Err(crate::run::Violation::new(format!("re-encoding packet {} of the {} decoded from {} into one sink failed with {:?} although the sink never fails ({} shutdown call(s) so far); packet {}", k + 1, pkts.len(), hex_short(b, 96), e, w.shutdowns, fam::render(p).chars().take(80).collect::<String>())));
                }
            }
            if w.out != want {
                return Err(crate::run::Violation::new(format!("the {} packets decoded from {} re-encoded into one sink: the sink holds {} bytes, the re-encodings add up to {}", pkts.len(), hex_short(b, 96), w.out.len(), want.len())));
            }
            ctx.label("stream-re-encoded-into-one-sink");
        }
    }
    Ok(())
}

fn case<F: Family>(input: &Input, ctx: &mut Ctx) -> CaseResult {
    let mut t = Tape::new(input.tape());
    let cfg = crate::gen::cfg_mix(&mut t, ctx.thorough);
    let (b, origin) = corpus::gen_input::<F>(&mut t, &cfg);
    reencode::<F>(&b, origin, ctx)
}

fn case_bytes<F: Family>(input: &Input, ctx: &mut Ctx) -> CaseResult {
    reencode::<F>(input.bytes(), "given", ctx)
}

/// nums = [first byte, remaining length, start, count]: a block of exhaustively enumerated short frames
fn case_short<F: Family>(input: &Input, ctx: &mut Ctx) -> CaseResult {
    let n = input.nums();
    let (first, rl, start, count) = (n[0] as u8, n[1] as usize, n[2], n[3]);
    for i in start..start + count {
        let fr = crate::shortframes::frame(first, rl, i);
        if let Err(v) = reencode::<F>(&fr, "short-frame", ctx) {
            ctx.refine = Some((if F::FAM == crate::model::Fam::V3 { "c11.bytes.v3" } else { "c11.bytes.v5" }, Input::Bytes(fr)));
            return Err(v);
        }
    }
    ctx.more_evals(count.saturating_sub(1));
    ctx.label_n("short-frames", count);
    Ok(())
}

pub const SUB_X3: Sub = Sub { name: "c11.short-frames.v3", f: case_short::<V3> };
pub const SUB_X5: Sub = Sub { name: "c11.short-frames.v5", f: case_short::<V5> };
pub const SUB_V3: Sub = Sub { name: "c11.reencode.v3", f: case::<V3> };
pub const SUB_V5: Sub = Sub { name: "c11.reencode.v5", f: case::<V5> };
pub const SUB_B3: Sub = Sub { name: "c11.bytes.v3", f: case_bytes::<V3> };
pub const SUB_B5: Sub = Sub { name: "c11.bytes.v5", f: case_bytes::<V5> };

pub fn subs() -> Vec<Sub> {
    vec![SUB_V3, SUB_V5, SUB_B3, SUB_B5, SUB_X3, SUB_X5]
}

/// inputs behind the repaired defects D1/D2 and the known finding K1
pub fn vectors(fam: crate::model::Fam) -> Vec<Input> {
    let mut v: Vec<String> = Vec::new();
    if fam == crate::model::Fam::V3 {
        v.push("9003000180".into()); // SUBACK Failure (D1)
        // K1: CONNECT declaring remaining length 0 with a 200-byte client id
        let mut k1 = String::from("100000044d5154540402003c00c8");
        k1.push_str(&"61".repeat(200));
        v.push(k1);
        v.push("c08000".into());
    } else {
        v.push("4009000a00051f000279 6f".replace(' ', "")); // PUBACK Success + reason string (D2)
        v.push("6204000a0000".into());
        v.push("e0020000".into());
        v.push("f0021800".into());
    }
    v.into_iter().filter_map(|h| crate::model::unhex(&h).map(Input::Bytes)).collect()
}

pub fn run(env: &mut Env) -> RunResult {
    env.run_inputs(SUB_B3, &vectors(crate::model::Fam::V3))?;
    env.run_inputs(SUB_B5, &vectors(crate::model::Fam::V5))?;
    // encodings of the boundary-size constructions (sized.rs) as inputs
    let lim = env.tier.sel(21_000_000usize, 140_000_000usize);
    let z3 = crate::sized::encoded_inputs::<V3>(env.thorough(), lim);
    let k3 = z3.len() as u64;
    env.run_enum(SUB_B3, k3, false, move |i| z3[i as usize].clone())?;
    let z5 = crate::sized::encoded_inputs::<V5>(env.thorough(), lim);
    let k5 = z5.len() as u64;
    env.run_enum(SUB_B5, k5, false, move |i| z5[i as usize].clone())?;
    // every frame with a body of 0..=2 bytes and bodies of 3..=4 (thorough: 5) bytes over a reduced alphabet
    let sb = crate::shortframes::blocks(env.thorough(), env.tier.sel(4usize, 5usize));
    let kb = sb.len() as u64;
    let sb2 = sb.clone();
    env.run_enum(SUB_X3, kb, true, move |i| sb2[i as usize].clone())?;
    env.run_enum(SUB_X5, kb, true, move |i| sb[i as usize].clone())?;
    let n = env.tier.sel(25_000, 400_000);
    env.run_tapes(SUB_V3, n, 200)?;
    env.run_tapes(SUB_V5, n * 2, 300)?;
    for s in ["c11.reencode.v3", "c11.reencode.v5"] {
        env.require(s, "non-canonical-input");
        env.require(s, "canonical-input");
        env.require(s, "accepted-origin:respelled");
        env.require(s, "accepted-origin:lenient-framing");
        env.require(s, "accepted-origin:byte-mutated");
    }
    env.require("c11.reencode.v5", "non-canonical:shorter-re-encoding");
    env.require("c11.reencode.v5", "stream-re-encoded-into-one-sink");
    env.require("c11.reencode.v3", "stream-re-encoded-into-one-sink");
    Ok(())
}
