//! C13 — a CONNECT of the other protocol family is identified, not misparsed.

use crate::fam::{self, V3, V5};
use crate::gen::{self, GenCfg};
use crate::model::{fnv, hex_short, write_varint};
use crate::refdec;
use crate::run::{CaseResult, Ctx, Env, Input, RunResult, Sub, Violation};
use crate::tape::Tape;
use crate::{ensure, viol};
use futures_lite::future::block_on;
use mqtt_proto::{v3, v5, Error, Protocol};


/// The refusal needs no more than the fixed header, the protocol name and the level: a buffer / stream that ends
/// anywhere from that point on (the rest of the CONNECT has not arrived yet) is refused in the same way, with the
/// same number of bytes consumed; a buffer that ends before it is incomplete.
fn partial_refusal<F: fam::Family>(enc: &[u8], gate: usize, want: &F::Error, what: &str, ctx: &mut Ctx) -> CaseResult {
    let len = enc.len();
    let mut cuts = vec![gate, gate + 1, gate + 2, (gate + len) / 2, len.saturating_sub(2), len.saturating_sub(1)];
    cuts.retain(|k| *k >= gate && *k < len);
    cuts.sort_unstable();
    cuts.dedup();
    for &k in &cuts {
        let b = F::decode(&enc[..k]);
        ensure!(
            matches!(&b, Err(e) if e == want),
            "{}: blocking decoder given the first {} of {} bytes (protocol name and level end at byte {}) returned {:?} instead of Err({:?})",
            what,
            k,
            len,
            gate,
            b.map(|o| o.map(|q| fam::render(&q))),
            want
        );
        let (a, used) = fam::dec_async::<F>(&enc[..k]);
        ensure!(matches!(&a, Err(e) if e == want) && used == gate, "{}: async decoder on a stream ending after {} of {} bytes returned {:?} after consuming {} bytes (expected Err({:?}) after {})", what, k, len, a.map(|q| fam::render(&q)), used, want, gate);
    }
    for k in [gate - 1, gate - 2, 1, 0] {
        let b = F::decode(&enc[..k]);
        ensure!(matches!(&b, Ok(None)), "{}: blocking decoder given only the first {} bytes (name and level end at {}) returned {:?} instead of Ok(None)", what, k, gate, b.map(|o| o.map(|q| fam::render(&q))));
    }
    ctx.label("partly-buffered-connect-refused");
    Ok(())
}

/// a v3 CONNECT presented to the v5 decoders
fn v3_into_v5(input: &Input, ctx: &mut Ctx) -> CaseResult {
    let mut t = Tape::new(input.tape());
    let proto = if t.flag() { Protocol::V310 } else { Protocol::V311 };
    let c = gen::gen_v3_connect(&mut t, &GenCfg::MEDIUM, proto).map_err(|e| Violation::new(e.0))?;
    v3_connect_into_v5(c, ctx)
}

fn v3_connect_into_v5(c: v3::Connect, ctx: &mut Ctx) -> CaseResult {
    let proto = c.protocol;
    let p = v3::Packet::Connect(c.clone());
    let enc = p.encode().map_err(|e| Violation::new(format!("encode failed: {:?}", e)))?.as_ref().to_vec();
    let want = v5::ErrorV5::Common(Error::UnexpectedProtocol(proto));
    let (hl, _) = refdec::frame_bounds(&enc).map_err(|e| Violation::new(format!("{:?}", e)))?;
    let name_len = if proto == Protocol::V310 { 6 } else { 4 };
    let gate = hl + 2 + name_len + 1;

    let b = v5::Packet::decode(&enc);
    ensure!(b == Err(want.clone()), "v5 blocking decoder on a {} CONNECT returned {:?} instead of Err({:?}); bytes {}", proto, b.map(|o| o.map(|q| fam::render(&q))), want, hex_short(&enc, 48));
    let (a, used) = fam::dec_async::<V5>(&enc);
    ensure!(a == Err(want.clone()), "v5 async decoder on a {} CONNECT returned {:?} instead of Err({:?})", proto, a.map(|q| fam::render(&q)), want);
    ensure!(used == gate, "v5 async decoder consumed {} bytes before refusing a {} CONNECT; protocol name and level end at byte {}", used, proto, gate);
    let pr = fam::dec_poll::<V5>(&enc);
    ensure!(pr.result.as_ref().err() == Some(&want), "v5 poll decoder on a {} CONNECT returned {:?} instead of Err({:?})", proto, pr.result.as_ref().map(|q| fam::render(&q.pkt)), want);
    // the poll front-end has necessarily drained the whole frame; what remains after name and level is in the
    // caller-held state, and continuing from there must give the native CONNECT too
    match &pr.final_body {
        Some((body, blen)) => {
            ensure!(*blen == enc.len() - hl && body[..] == enc[hl..], "after the v5 poll decoder refused a {} CONNECT the caller-held state holds {} of {} body bytes ({} received); the refused CONNECT cannot be handed to the v3 family", proto, blen, enc.len() - hl, body.len());
            let mut rest: &[u8] = &body[gate - hl..];
            let cont = block_on(v3::Connect::decode_with_protocol(&mut rest, proto));
            ensure!(matches!(&cont, Ok(c2) if *c2 == c) && rest.is_empty(), "continuing from the poll state with v3 decode_with_protocol({}) yields {:?}", proto, cont.map(|x| fam::render(&x)));
            ctx.label("continued-from-poll-state");
        }
        None => viol!("after the v5 poll decoder refused a {} CONNECT the caller-held state no longer holds the body: the refused CONNECT cannot be handed to the v3 family", proto),
    }

    // the public slice entry point of the poll headers, called directly: same refusal, and the caller's slice stands
    // right behind name and level, from where the matching family continues
    {
        use mqtt_proto::PollHeader;
        let header = v5::Header::decode(&enc).map_err(|e| Violation::new(format!("v5 Header::decode failed on a v3 CONNECT frame: {:?}", e)))?;
        let mut rest: &[u8] = &enc[hl..];
        let r = header.block_decode(&mut rest);
        ensure!(matches!(&r, Err(e) if *e == want), "v5 Header::block_decode on a {} CONNECT returned {:?} instead of Err({:?})", proto, r.map(|q| fam::render(&q)), want);
        ensure!(enc.len() - rest.len() == gate, "v5 Header::block_decode refused a {} CONNECT with the caller's slice at byte {}; protocol name and level end at byte {}", proto, enc.len() - rest.len(), gate);
        let cont = block_on(v3::Connect::decode_with_protocol(&mut rest, proto));
        ensure!(matches!(&cont, Ok(c2) if *c2 == c) && rest.is_empty(), "continuing after v5 Header::block_decode with v3 decode_with_protocol({}) yields {:?}", proto, cont.map(|x| fam::render(&x)));
    }
    partial_refusal::<V5>(&enc, gate, &want, &format!("{} CONNECT into the v5 family", proto), ctx)?;
    // a dispatcher that has read the protocol block itself and offers the rest to the wrong family's known-protocol
    // entry point gets the same typed refusal (not a panic, not a misparse), having consumed nothing more
    {
        let header = v5::Header::decode(&enc).map_err(|e| Violation::new(format!("v5 Header::decode failed on a v3 CONNECT frame: {:?}", e)))?;
        let mut rest: &[u8] = &enc[gate..];
        let before = rest.len();
        let r = block_on(v5::Connect::decode_with_protocol(&mut rest, header, proto));
        ensure!(matches!(&r, Err(e) if *e == want) && rest.len() == before, "v5 Connect::decode_with_protocol given protocol {} returned {:?} after consuming {} bytes instead of Err({:?}) at once", proto, r.map(|c| fam::render(&c)), before - rest.len(), want);
    }

    // continue on the remaining bytes with the matching family's known-protocol entry point
    let mut rest: &[u8] = &enc[gate..];
    let cont = block_on(v3::Connect::decode_with_protocol(&mut rest, proto));
    match cont {
        Ok(c2) => {
            ensure!(c2 == c, "continuing with v3 decode_with_protocol yields {} instead of the native {}", fam::render(&c2), fam::render(&c));
            ensure!(rest.is_empty(), "v3 decode_with_protocol left {} bytes", rest.len());
        }
        Err(e) => viol!("continuing with v3 decode_with_protocol({}) failed: {:?}", proto, e),
    }
    let native = v3::Packet::decode(&enc);
    ensure!(native == Ok(Some(p.clone())), "native v3 decode of the same bytes returned {:?}", native.map(|o| o.map(|q| fam::render(&q))));
    ctx.label(if proto == Protocol::V310 { "v3.1->v5" } else { "v3.1.1->v5" });
    if ctx.nontrivial(fnv(&enc)) {
        ctx.sample(|| format!("{} CONNECT {} -> v5 decoders: {:?}; gate at byte {}", proto, hex_short(&enc, 32), want, gate));
    }
    Ok(())
}

/// nums = [kind, target]: a large CONNECT of one family presented to the other family's decoders.
/// kind 0: v5 CONNECT whose property section is `target` bytes; kind 1: v5 CONNECT whose will
/// property section is `target` bytes; kind 2: v3 CONNECT with `target` fields of 65,535 bytes.
fn sized_cross(input: &Input, ctx: &mut Ctx) -> CaseResult {
    let n = input.nums();
    let (kind, target) = (n[0], n[1] as usize);
    if kind == 2 {
        let big = std::sync::Arc::new("m".repeat(65_535));
        let topic: mqtt_proto::TopicName = std::convert::TryFrom::try_from("t".repeat(65_535)).map_err(|_| Violation::new("MQV-INTERNAL topic"))?;
        let mut c = v3::Connect::new(if target >= 1 { big.clone() } else { std::sync::Arc::new("c".to_string()) }, 10);
        c.protocol = if target % 2 == 0 { Protocol::V311 } else { Protocol::V310 };
        if target >= 2 {
            c.username = Some(big.clone());
        }
        if target >= 3 {
            c.password = Some(bytes::Bytes::from(vec![7u8; 65_535]));
        }
        if target >= 4 {
            c.last_will = Some(v3::LastWill::new(mqtt_proto::QoS::Level1, if target >= 5 { topic } else { std::convert::TryFrom::try_from("w".to_string()).map_err(|_| Violation::new("MQV-INTERNAL"))? }, bytes::Bytes::from(vec![9u8; 65_535])));
        }
        ctx.label("sized:v3-connect-into-v5");
        return v3_connect_into_v5(c, ctx);
    }
    let p = crate::sized::build_v5(if kind == 0 { crate::sized::K_PROPS } else { crate::sized::K_WILL_PROPS }, 0, target);
    match p {
        Some(v5::Packet::Connect(c)) => {
            ctx.label("sized:v5-connect-into-v3");
            v5_connect_into_v3(c, ctx)
        }
        _ => {
            ctx.label("sized:not-constructible");
            Ok(())
        }
    }
}

/// a v5 CONNECT presented to the v3 decoders
fn v5_into_v3(input: &Input, ctx: &mut Ctx) -> CaseResult {
    let mut t = Tape::new(input.tape());
    let c = gen::gen_v5_connect(&mut t, &GenCfg::MEDIUM).map_err(|e| Violation::new(e.0))?;
    v5_connect_into_v3(c, ctx)
}

fn v5_connect_into_v3(c: v5::Connect, ctx: &mut Ctx) -> CaseResult {
    let p = v5::Packet::Connect(c.clone());
    let enc = p.encode().map_err(|e| Violation::new(format!("encode failed: {:?}", e)))?.as_ref().to_vec();
    let want = Error::UnexpectedProtocol(Protocol::V500);
    let (hl, _) = refdec::frame_bounds(&enc).map_err(|e| Violation::new(format!("{:?}", e)))?;
    let gate = hl + 2 + 4 + 1;

    let b = v3::Packet::decode(&enc);
    ensure!(b == Err(want.clone()), "v3 blocking decoder on a v5.0 CONNECT returned {:?} instead of Err({:?}); bytes {}", b.map(|o| o.map(|q| fam::render(&q))), want, hex_short(&enc, 48));
    let (a, used) = fam::dec_async::<V3>(&enc);
    ensure!(a == Err(want.clone()), "v3 async decoder on a v5.0 CONNECT returned {:?} instead of Err({:?})", a.map(|q| fam::render(&q)), want);
    ensure!(used == gate, "v3 async decoder consumed {} bytes before refusing a v5.0 CONNECT; protocol name and level end at byte {}", used, gate);
    let pr = fam::dec_poll::<V3>(&enc);
    ensure!(pr.result.as_ref().err() == Some(&want), "v3 poll decoder on a v5.0 CONNECT returned {:?} instead of Err({:?})", pr.result.as_ref().map(|q| fam::render(&q.pkt)), want);
    match &pr.final_body {
        Some((body, blen)) => {
            ensure!(*blen == enc.len() - hl && body[..] == enc[hl..], "after the v3 poll decoder refused a v5.0 CONNECT the caller-held state holds {} of {} body bytes ({} received); the refused CONNECT cannot be handed to the v5 family", blen, enc.len() - hl, body.len());
            let header = v5::Header::decode(&enc).map_err(|e| Violation::new(format!("v5 Header::decode failed on a v5 CONNECT: {:?}", e)))?;
            let mut rest: &[u8] = &body[gate - hl..];
            let cont = block_on(v5::Connect::decode_with_protocol(&mut rest, header, Protocol::V500));
            ensure!(matches!(&cont, Ok(c2) if *c2 == c) && rest.is_empty(), "continuing from the poll state with v5 decode_with_protocol yields {:?}", cont.map(|x| fam::render(&x)));
            ctx.label("continued-from-poll-state");
        }
        None => viol!("after the v3 poll decoder refused a v5.0 CONNECT the caller-held state no longer holds the body: the refused CONNECT cannot be handed to the v5 family"),
    }

    {
        use mqtt_proto::PollHeader;
        let h3 = v3::Header::decode(&enc).map_err(|e| Violation::new(format!("v3 Header::decode failed on a v5 CONNECT frame: {:?}", e)))?;
        let mut rest: &[u8] = &enc[hl..];
        let r = h3.block_decode(&mut rest);
        ensure!(matches!(&r, Err(e) if *e == want), "v3 Header::block_decode on a v5.0 CONNECT returned {:?} instead of Err({:?})", r.map(|q| fam::render(&q)), want);
        ensure!(enc.len() - rest.len() == gate, "v3 Header::block_decode refused a v5.0 CONNECT with the caller's slice at byte {}; protocol name and level end at byte {}", enc.len() - rest.len(), gate);
        let header = v5::Header::decode(&enc).map_err(|e| Violation::new(format!("v5 Header::decode failed on a v5 CONNECT: {:?}", e)))?;
        let cont = block_on(v5::Connect::decode_with_protocol(&mut rest, header, Protocol::V500));
        ensure!(matches!(&cont, Ok(c2) if *c2 == c) && rest.is_empty(), "continuing after v3 Header::block_decode with v5 decode_with_protocol yields {:?}", cont.map(|x| fam::render(&x)));
    }
    partial_refusal::<V3>(&enc, gate, &want, "v5.0 CONNECT into the v3 family", ctx)?;
    {
        let mut rest: &[u8] = &enc[gate..];
        let before = rest.len();
        let r = block_on(v3::Connect::decode_with_protocol(&mut rest, Protocol::V500));
        ensure!(matches!(&r, Err(e) if *e == want) && rest.len() == before, "v3 Connect::decode_with_protocol given protocol v5.0 returned {:?} after consuming {} bytes instead of Err({:?}) at once", r.map(|c| fam::render(&c)), before - rest.len(), want);
    }

    let header = v5::Header::decode(&enc).map_err(|e| Violation::new(format!("v5 Header::decode failed on a v5 CONNECT: {:?}", e)))?;
    let mut rest: &[u8] = &enc[gate..];
    let cont = block_on(v5::Connect::decode_with_protocol(&mut rest, header, Protocol::V500));
    match cont {
        Ok(c2) => {
            ensure!(c2 == c, "continuing with v5 decode_with_protocol yields {} instead of the native {}", fam::render(&c2), fam::render(&c));
            ensure!(rest.is_empty(), "v5 decode_with_protocol left {} bytes", rest.len());
        }
        Err(e) => viol!("continuing with v5 decode_with_protocol failed: {:?}", e),
    }
    let native = v5::Packet::decode(&enc);
    ensure!(native == Ok(Some(p.clone())), "native v5 decode of the same bytes returned {:?}", native.map(|o| o.map(|q| fam::render(&q))));
    ctx.label("v5->v3");
    if ctx.nontrivial(fnv(&enc)) {
        ctx.sample(|| format!("v5.0 CONNECT {} -> v3 decoders: {:?}; gate at byte {}", hex_short(&enc, 32), want, gate));
    }
    Ok(())
}

pub fn names() -> Vec<Vec<u8>> {
    let mut v: Vec<Vec<u8>> = vec![
        b"MQTT".to_vec(),
        b"MQIsdp".to_vec(),
        b"mqtt".to_vec(),
        b"Mqtt".to_vec(),
        b"MQISDP".to_vec(),
        b"mqisdp".to_vec(),
        b"".to_vec(),
        b"M".to_vec(),
        vec![b'Q'; 1024],
        "MQT\u{e9}".as_bytes().to_vec(),
        vec![0xED, 0xA0, 0x80, b'T'],
        b"MQTTMQTT".to_vec(),
        // every proper prefix of the legal names
        b"MQ".to_vec(),
        b"MQT".to_vec(),
        b"MQI".to_vec(),
        b"MQIs".to_vec(),
        b"MQIsd".to_vec(),
        b"MQTTMQIsdp".to_vec(),
        b"MQIsdpMQTT".to_vec(),
    ];
    // every single-edit neighbour of the two legal names: insertion, deletion and replacement at
    // every position, and NUL / space padding on either side up to 8 and 16 bytes
    for base in [&b"MQTT"[..], &b"MQIsdp"[..]] {
        for pos in 0..=base.len() {
            for c in [0x00u8, b' ', b'M', b'T', b'p', b'x', 0xFF, 0xC3] {
                let mut n = base.to_vec();
                n.insert(pos, c);
                v.push(n);
            }
        }
        for pos in 0..base.len() {
            let mut n = base.to_vec();
            n.remove(pos);
            v.push(n);
            for c in [0x00u8, base[pos] ^ 0x20, 0xFF, base[pos].wrapping_add(1)] {
                let mut n = base.to_vec();
                n[pos] = c;
                v.push(n);
            }
        }
        for pad in [0x00u8, b' '] {
            for k in [1usize, 2, 3, 4, 8 - base.len().min(8), 16 - base.len()] {
                if k == 0 {
                    continue;
                }
                let mut n = vec![pad; k];
                n.extend_from_slice(base);
                v.push(n);
                let mut n = base.to_vec();
                n.extend(std::iter::repeat(pad).take(k));
                v.push(n);
            }
        }
    }
    v.sort();
    v.dedup();
    v
}

fn connect_frame(name: &[u8], level: u8, v5_tail: bool) -> Vec<u8> {
    let mut body = Vec::new();
    body.extend_from_slice(&(name.len() as u16).to_be_bytes());
    body.extend_from_slice(name);
    body.push(level);
    body.push(0x02); // clean session / clean start
    body.extend_from_slice(&[0x00, 0x3C]);
    if v5_tail {
        body.push(0x00); // property length
    }
    body.extend_from_slice(&[0x00, 0x01, b'c']);
    let mut f = vec![0x10];
    write_varint(&mut f, body.len() as u32, 0);
    f.extend_from_slice(&body);
    f
}

/// nums = [name index, level]: the (name, level) grid against both families and all front-ends
fn grid(input: &Input, ctx: &mut Ctx) -> CaseResult {
    let n = input.nums();
    let names = names();
    let name = names.get(n[0] as usize).ok_or_else(|| Violation::new("MQV-INTERNAL: name index"))?;
    let level = n[1] as u8;
    let utf8 = std::str::from_utf8(name).ok();
    let legal = match (name.as_slice(), level) {
        (b"MQIsdp", 3) => Some(Protocol::V310),
        (b"MQTT", 4) => Some(Protocol::V311),
        (b"MQTT", 5) => Some(Protocol::V500),
        _ => None,
    };
    // standalone constructor
    match (Protocol::new(name, level), legal, utf8) {
        (Ok(p), Some(q), _) if p == q => {}
        (Err(Error::InvalidProtocol(s, l)), None, Some(u)) if s == u && l == level => {}
        (Err(Error::InvalidString), None, None) => {}
        (Err(Error::InvalidProtocol(_, l)), None, None) if l == level => {}
        (r, _, _) => viol!("Protocol::new({}, {}) returned {:?}", hex_short(name, 16), level, r),
    }
    for fam5 in [false, true] {
        // the tail matches the family that would accept the pair, so that a legal pair decodes
        let tail5 = legal.map(|p| p == Protocol::V500).unwrap_or(fam5);
        let frame = connect_frame(name, level, tail5);
        let outcomes: Vec<(String, Result<String, String>)> = if fam5 {
            let w = |r: Result<String, v5::ErrorV5>| r.map_err(|e| format!("{:?}", e));
            vec![
                ("blocking".into(), w(v5::Packet::decode(&frame).map(|o| format!("{:?}", o.is_some())))),
                ("async".into(), w(fam::dec_async::<V5>(&frame).0.map(|_| "true".into()))),
                ("poll".into(), w(fam::dec_poll::<V5>(&frame).result.map(|_| "true".into()))),
            ]
        } else {
            let w = |r: Result<String, Error>| r.map_err(|e| format!("{:?}", e));
            vec![
                ("blocking".into(), w(v3::Packet::decode(&frame).map(|o| format!("{:?}", o.is_some())))),
                ("async".into(), w(fam::dec_async::<V3>(&frame).0.map(|_| "true".into()))),
                ("poll".into(), w(fam::dec_poll::<V3>(&frame).result.map(|_| "true".into()))),
            ]
        };
        let own = |p: Protocol| if fam5 { p == Protocol::V500 } else { p != Protocol::V500 };
        // a pair that is refused is refused as soon as name and level are there, whatever follows has arrived or not
        if !matches!(legal, Some(p) if own(p)) {
            let gate = 2 + 2 + name.len() + 1;
            let full = outcomes[0].1.clone();
            for k in [gate, gate + 1, frame.len() - 1] {
                if k < gate || k >= frame.len() || frame.len() > 127 + 2 {
                    continue;
                }
                let part = &frame[..k];
                let got = if fam5 { v5::Packet::decode(part).map(|o| format!("{:?}", o.is_some())).map_err(|e| format!("{:?}", e)) } else { v3::Packet::decode(part).map(|o| format!("{:?}", o.is_some())).map_err(|e| format!("{:?}", e)) };
                ensure!(got == full && got.is_err(), "{} blocking decoder given the first {} of {} bytes of a CONNECT with the pair ({}, {}) returned {:?}; on the whole frame it returns {:?}", if fam5 { "v5" } else { "v3" }, k, frame.len(), hex_short(name, 8), level, got, full);
            }
        }
        for (front, got) in outcomes {
            let famname = if fam5 { "v5" } else { "v3" };
            match (legal, utf8) {
                (Some(p), _) if own(p) => ensure!(got == Ok("true".to_string()), "{} {} decoder refuses the legal pair ({}, {}) with {:?}", famname, front, hex_short(name, 8), level, got),
                (Some(p), _) => {
                    let want = if fam5 { format!("Common(UnexpectedProtocol({:?}))", p) } else { format!("UnexpectedProtocol({:?})", p) };
                    ensure!(got == Err(want.clone()), "{} {} decoder on the other family's pair ({}, {}) returned {:?} instead of {}", famname, front, hex_short(name, 8), level, got, want);
                }
                (None, Some(u)) => {
                    let want = if fam5 { format!("Common(InvalidProtocol({:?}, {}))", u, level) } else { format!("InvalidProtocol({:?}, {})", u, level) };
                    ensure!(got == Err(want.clone()), "{} {} decoder on the invalid pair ({:?}, {}) returned {:?} instead of {}", famname, front, u.chars().take(12).collect::<String>(), level, got, want);
                }
                (None, None) => {
                    let ok = matches!(&got, Err(e) if e.contains("InvalidString") || (e.contains("InvalidProtocol") && e.contains(&format!(", {})", level))));
                    ensure!(ok, "{} {} decoder on a non-UTF-8 protocol name {} level {} returned {:?} (neither InvalidString nor InvalidProtocol)", famname, front, hex_short(name, 8), level, got);
                }
            }
        }
    }
    ctx.count_distinct(1);
    ctx.label(match (legal, utf8) {
        (Some(_), _) => "grid:legal-pair",
        (None, Some(_)) => "grid:invalid-pair",
        (None, None) => "grid:non-utf8-name",
    });
    if level == 4 {
        ctx.sample(|| format!("name {} level {} -> {:?}", hex_short(name, 12), level, legal));
    }
    Ok(())
}

pub const SUB_SIZED: Sub = Sub { name: "c13.sized", f: sized_cross };
pub const SUB_35: Sub = Sub { name: "c13.v3-into-v5", f: v3_into_v5 };
pub const SUB_53: Sub = Sub { name: "c13.v5-into-v3", f: v5_into_v3 };
pub const SUB_GRID: Sub = Sub { name: "c13.grid", f: grid };

pub fn subs() -> Vec<Sub> {
    vec![SUB_35, SUB_53, SUB_GRID, SUB_SIZED]
}

pub fn run(env: &mut Env) -> RunResult {
    let n = env.tier.sel(20_000, 1_000_000);
    env.run_tapes(SUB_35, n, 120)?;
    env.run_tapes(SUB_53, n, 260)?;
    let nn = names().len() as u64;
    env.run_enum(SUB_GRID, nn * 256, true, move |i| Input::Nums(vec![i / 256, i % 256]))?;
    // large CONNECTs: property sections around every width boundary, around the largest possible
    // v3 CONNECT (327,697 bytes of remaining length) and beyond; v3 CONNECTs with 1..5 maximal fields
    let mut sz: Vec<Input> = Vec::new();
    let mut targets: Vec<u64> = vec![0, 5, 127, 128, 16_383, 16_384, 65_535, 131_080, 262_150, 400_000, 1_000_000, 2_097_151, 2_097_152, 2_097_153];
    targets.extend(327_640u64..=327_720);
    if env.thorough() {
        targets.extend((300_000u64..360_000).step_by(997));
        targets.extend([4_000_000u64, 16_777_216]);
    }
    for t in &targets {
        sz.push(Input::Nums(vec![0, *t]));
    }
    for t in [0u64, 5, 128, 16_384, 327_660, 327_690, 2_097_152] {
        sz.push(Input::Nums(vec![1, t]));
    }
    for t in 0..=5u64 {
        sz.push(Input::Nums(vec![2, t]));
    }
    let k = sz.len() as u64;
    env.run_enum(SUB_SIZED, k, false, move |i| sz[i as usize].clone())?;
    env.require("c13.sized", "sized:v5-connect-into-v3");
    env.require("c13.sized", "sized:v3-connect-into-v5");
    env.require("c13.v3-into-v5", "v3.1->v5");
    env.require("c13.v3-into-v5", "v3.1.1->v5");
    env.require("c13.v5-into-v3", "v5->v3");
    env.require("c13.v5-into-v3", "partly-buffered-connect-refused");
    env.require("c13.v5-into-v3", "continued-from-poll-state");
    env.require("c13.v3-into-v5", "continued-from-poll-state");
    env.require("c13.v3-into-v5", "partly-buffered-connect-refused");
    env.require("c13.grid", "grid:legal-pair");
    env.require("c13.grid", "grid:invalid-pair");
    env.require("c13.grid", "grid:non-utf8-name");
    Ok(())
}
