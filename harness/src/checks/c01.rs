//! C01 — encode ∘ decode = id on the valid domain, three decoder front-ends.

use crate::fam::{self, Family, V3, V5};
use crate::gen::GenCfg;
use crate::model::{self, fnv, hex_short, type_name};
use crate::refdec;
use crate::run::{CaseResult, Ctx, Env, Input, RunResult, Sub, Violation};
use crate::tape::Tape;
use crate::{ensure, viol};

pub fn cfg_for(ctx: &Ctx) -> GenCfg {
    if ctx.thorough {
        GenCfg::HUGE
    } else {
        GenCfg::FULL
    }
}

/// Labels describing a packet's shape; returns (type name, header width).
pub fn classify<F: Family>(p: &F::Packet, enc: &[u8], ctx: &mut Ctx) -> (u8, usize) {
    let w = F::project(p);
    let t = w.typ();
    let (hl, rl) = refdec::frame_bounds(enc).unwrap_or((2, 0));
    ctx.label(&format!("{}/h{}", type_name(t), hl - 1));
    if matches!(rl, 127 | 128 | 16_383 | 16_384 | 2_097_151 | 2_097_152 | 268_435_455) {
        ctx.label(&format!("rl={}", rl));
    }
    if let Some(pl) = main_props_len(&w) {
        if matches!(pl, 127 | 128 | 16_383 | 16_384) {
            ctx.label(&format!("proplen={}", pl));
        }
        if pl > 0 {
            ctx.label("has-properties");
        }
    }
    if let model::Body::Ack { reason: Some(0), props: Some(p), .. } = &w.body {
        if !p.items.is_empty() {
            ctx.label("ack-success-with-properties");
        }
    }
    (t, hl)
}

pub fn main_props_len(w: &model::WPacket) -> Option<usize> {
    use model::Body::*;
    match &w.body {
        Connect { props, .. }
        | Connack { props, .. }
        | Publish { props, .. }
        | Ack { props, .. }
        | Subscribe { props, .. }
        | Suback { props, .. }
        | Unsubscribe { props, .. }
        | Reason { props, .. } => props.as_ref().map(|p| p.body_len()),
        Empty => None,
    }
}

/// What a user of the packet can see of its topic filters and topic names beyond their text: the shared-subscription
/// and `$SYS` accessors. A decoded packet that is "equal to the original" answers these like the original does.
pub fn observations<F: Family>(p: &F::Packet) -> Vec<String> {
    use crate::walk::Field;
    F::walk(p)
        .iter()
        .filter_map(|f| match f {
            Field::Filter(l, x) => Some(format!("{} {:?}: is_shared {}, shared_group_name {:?}, shared_filter {:?}, shared_info {:?}", l, &***x, x.is_shared(), x.shared_group_name(), x.shared_filter(), x.shared_info())),
            Field::Name(l, x) => Some(format!("{} {:?}: is_shared {}, is_sys {}", l, &***x, x.is_shared(), x.is_sys())),
            _ => None,
        })
        .collect()
}

pub fn roundtrip<F: Family>(p: &F::Packet, ctx: &mut Ctx) -> CaseResult {
    let enc = match F::encode(p) {
        Ok(b) => b,
        Err(e) => viol!("encode of a valid packet failed: {:?}; packet {}", e, fam::render(p)),
    };
    let bytes: &[u8] = enc.as_ref();
    let (hl, rl) = match refdec::frame_bounds(bytes) {
        Ok(x) => x,
        Err(e) => viol!("encoder output has no well-formed fixed header ({:?}): {}", e, hex_short(bytes, 64)),
    };
    ensure!(hl + rl == bytes.len(), "encoder output: header declares {} bytes, {} follow; packet {}", rl, bytes.len() - hl, fam::render(p));
    // the packet's own type accessor names the type that is on the wire and in the decoded fixed header
    let tn = F::packet_type_num(p);
    ensure!(tn == bytes[0] >> 4, "get_type() of {} is type {} but the encoding starts with {:#04x}", fam::render(p), tn, bytes[0]);
    match F::header_decode(bytes) {
        Ok(h) => ensure!(F::header_parts(&h).0 == tn && F::header_parts(&h).4 as usize == rl, "Header::decode of the encoding gives {:?}; packet {}", h, fam::render(p)),
        Err(e) => viol!("Header::decode of the encoding failed: {:?}; packet {}", e, fam::render(p)),
    }

    // blocking
    match F::decode(bytes) {
        Ok(Some(q)) => {
            ensure!(q == *p, "blocking decode returned a different packet: {} (original {}) bytes {}", fam::render(&q), fam::render(p), hex_short(bytes, 64));
            if bytes.len() <= 1 << 16 {
                let (a, o) = (observations::<F>(&q), observations::<F>(p));
                ensure!(a == o, "blocking decode returned a packet whose topic accessors answer differently from the original's: {:?} (original {:?})", a, o);
            }
        }
        other => viol!("blocking decode of the encoding returned {:?}; packet {} bytes {}", other.map(|o| o.map(|q| fam::render(&q))), fam::render(p), hex_short(bytes, 64)),
    }
    // async
    let (r, consumed) = fam::dec_async::<F>(bytes);
    match r {
        Ok(q) => {
            ensure!(q == *p, "async decode returned a different packet: {} (original {})", fam::render(&q), fam::render(p));
            // equality by the harness' own wire-level projection as well, so that the oracle does not rest on the
            // library's PartialEq alone
            if bytes.len() <= 1 << 20 {
                ensure!(F::project(&q) == F::project(p), "async decode returned a packet that the library calls equal but whose field values differ: {} (original {})", fam::render(&q), fam::render(p));
            }
            ensure!(consumed == bytes.len(), "async decode consumed {} of {} bytes", consumed, bytes.len());
            if bytes.len() <= 1 << 16 {
                let (a, o) = (observations::<F>(&q), observations::<F>(p));
                ensure!(a == o, "async decode returned a packet whose topic accessors answer differently from the original's: {:?} (original {:?})", a, o);
            }
        }
        Err(e) => viol!("async decode of the encoding failed: {:?}; packet {} bytes {}", e, fam::render(p), hex_short(bytes, 64)),
    }
    // async, on a connection that stays open and idle behind the packet: the packet is complete, nothing more is needed
    if bytes.len() <= 1 << 20 {
        match fam::dec_async_idle::<F>(bytes) {
            Ok((Ok(q), consumed)) => ensure!(q == *p && consumed == bytes.len(), "async decode on an idle connection returned {} after {} of {} bytes (original {})", fam::render(&q), consumed, bytes.len(), fam::render(p)),
            Ok((Err(e), _)) => viol!("async decode on a connection that stays idle behind the packet failed: {:?}; packet {} bytes {}", e, fam::render(p), hex_short(bytes, 64)),
            Err(m) => viol!("async decode on a connection that stays idle behind the packet: {}; packet {} bytes {}", m, fam::render(p), hex_short(bytes, 64)),
        }
    }
    // poll
    let run = fam::dec_poll::<F>(bytes);
    match run.result {
        Ok(ok) => {
            if bytes.len() <= 1 << 16 {
                let (a, o) = (observations::<F>(&ok.pkt), observations::<F>(p));
                ensure!(a == o, "poll decode returned a packet whose topic accessors answer differently from the original's: {:?} (original {:?})", a, o);
            }
            ensure!(ok.pkt == *p, "poll decode returned a different packet: {} (original {})", fam::render(&ok.pkt), fam::render(p));
            if bytes.len() <= 1 << 20 {
                ensure!(F::project(&ok.pkt) == F::project(p), "poll decode returned a packet that the library calls equal but whose field values differ: {} (original {})", fam::render(&ok.pkt), fam::render(p));
            }
            ensure!(ok.total == bytes.len(), "poll decode reports total {} for an encoding of {} bytes; packet {}", ok.total, bytes.len(), fam::render(p));
            ensure!(ok.body == bytes[hl..], "poll decode handed back a body of {} bytes that differs from the {} encoded body bytes", ok.body.len(), bytes.len() - hl);
            ensure!(run.pos == bytes.len(), "poll decode consumed {} of {} bytes", run.pos, bytes.len());
        }
        Err(e) => viol!("poll decode of the encoding failed: {:?}; packet {} bytes {}", e, fam::render(p), hex_short(bytes, 64)),
    }

    // the same through a transport that delivers the encoding in two pieces with a Pending in between,
    // fills the ReadBuf by initialize+advance, and with the decoder resumed from a clone of its state
    if bytes.len() >= hl + 2 && bytes.len() <= 4_000_000 {
        // the header goes through one byte per read; the body stops after `cut` bytes
        let cut = 1 + (fnv(bytes) as usize) % (bytes.len() - hl - 1);
        let mut steps = vec![crate::sio::Step::Chunk(1); hl];
        steps.push(crate::sio::Step::Chunk(cut));
        steps.push(crate::sio::Step::Pending);
        let run = fam::dec_poll_styled::<F>(bytes, &steps, u64::MAX, None, false, 3);
        match run.result {
            Ok(ok) => {
                ensure!(ok.pkt == *p && ok.total == bytes.len() && ok.body == bytes[hl..], "poll decode in two pieces (body cut after {} bytes, resumed from a cloned state) returned {} / total {}; original {}", cut, fam::render(&ok.pkt), ok.total, fam::render(p));
            }
            Err(e) => viol!("poll decode in two pieces (body cut after {} of {} bytes, Pending in between, resumed from a cloned state) failed: {:?}; packet {}", cut, bytes.len() - hl, e, fam::render(p)),
        }
    }
    classify::<F>(p, bytes, ctx);
    if bytes.len() > 4 {
        ctx.nontrivial(fnv(bytes));
        ctx.sample(|| format!("{} packet {} -> {} bytes {}", F::FAM.name(), fam::render(p), bytes.len(), hex_short(bytes, 48)));
    } else {
        ctx.label("trivial(<=4 bytes)");
    }
    Ok(())
}

fn case<F: Family>(input: &Input, ctx: &mut Ctx) -> CaseResult {
    let mut t = Tape::new(input.tape());
    let cfg = cfg_for(ctx);
    let p = F::gen(&mut t, &cfg).map_err(|e| Violation::new(e.0))?;
    roundtrip::<F>(&p, ctx)
}

/// every packet type with a tape-chosen body, so that no type depends on the type weights
fn case_typed<F: Family>(input: &Input, ctx: &mut Ctx) -> CaseResult {
    let mut t = Tape::new(input.tape());
    let typ = t.pick(F::NTYPES);
    let p = F::gen_of_type(&mut t, &GenCfg::MEDIUM, typ).map_err(|e| Violation::new(e.0))?;
    roundtrip::<F>(&p, ctx)
}

/// PUBLISH whose remaining length is exactly nums[0] (up to the 268,435,455 maximum), or a
/// boundary-size construction nums = [kind, type, target] of sized.rs
fn case_sized<F: Family>(input: &Input, ctx: &mut Ctx) -> CaseResult {
    if input.nums().len() >= 3 {
        return match crate::sized::from_input::<F>(input, ctx) {
            Some(p) => roundtrip::<F>(&p, ctx),
            None => Ok(()),
        };
    }
    let rl = input.nums().first().copied().unwrap_or(2) as usize;
    let p = sized_publish::<F>(rl);
    roundtrip::<F>(&p, ctx)
}

/// PUBLISH (topic "t", QoS 0, no properties) of a given remaining length
pub fn sized_publish<F: Family>(rl: usize) -> F::Packet {
    // v3: 2+1 topic; v5: +1 property length
    let fixed = if F::FAM == model::Fam::V5 { 4 } else { 3 };
    F::publish_with_payload(vec![0u8; rl.saturating_sub(fixed)])
}

/// nums = [first code point, count]: every Unicode scalar value in a v5 PUBLISH payload and a v5 will payload that
/// are flagged as UTF-8, in client id / user name / user property of both families (v3 under both protocol levels)
fn case_codepoints(input: &Input, ctx: &mut Ctx) -> CaseResult {
    use mqtt_proto::{v3, v5, Protocol, QoS, QosPid};
    use std::sync::Arc;
    let n = input.nums();
    let mut chars = 0u64;
    for cp in n[0]..n[0] + n[1] {
        let c = match char::from_u32(cp as u32) {
            Some(c) => c,
            None => continue,
        };
        if !ctx.thorough && !(cp < 0x3000 || (cp & 0xFFFF) >= 0xFFF0 || (cp & 0xFFFF) < 4 || (0xFDC0..=0xFE0F).contains(&cp) || (0xD7F0..=0xE00F).contains(&cp) || cp % 16 == 5) {
            continue;
        }
        chars += 1;
        let text = format!("x{}y", c);
        let topic = |s: &str| -> Result<mqtt_proto::TopicName, Violation> { std::convert::TryFrom::try_from(s.to_string()).map_err(|e| Violation::new(format!("MQV-INTERNAL topic {:?}", e))) };
        let mut pb = v5::Publish::new(QosPid::Level0, topic("t")?, bytes::Bytes::from(text.clone().into_bytes()));
        pb.properties.payload_is_utf8 = Some(true);
        pb.properties.user_properties = vec![v5::UserProperty { name: Arc::new(c.to_string()), value: Arc::new(text.clone()) }];
        let mut cn = v5::Connect::new(Arc::new(c.to_string()), 9);
        let mut will = v5::LastWill::new(QoS::Level1, topic("w")?, bytes::Bytes::from(c.to_string().into_bytes()));
        will.properties.payload_is_utf8 = Some(true);
        will.properties.content_type = Some(Arc::new(text.clone()));
        cn.last_will = Some(will);
        cn.username = Some(Arc::new(text.clone()));
        for p in [v5::Packet::Publish(pb), v5::Packet::Connect(cn)] {
            if let Err(v) = roundtrip::<V5>(&p, ctx) {
                return Err(Violation::new(format!("code point U+{:04X}: {}", cp, v.msg)));
            }
        }
        let mut c3 = v3::Connect::new(Arc::new(text.clone()), 9);
        c3.protocol = if cp % 2 == 0 { Protocol::V311 } else { Protocol::V310 };
        c3.username = Some(Arc::new(c.to_string()));
        if let Err(v) = roundtrip::<V3>(&v3::Packet::Connect(c3), ctx) {
            return Err(Violation::new(format!("code point U+{:04X}: {}", cp, v.msg)));
        }
    }
    ctx.label_n("code-points", chars);
    Ok(())
}

pub const SUB_CODEPOINTS: Sub = Sub { name: "c01.codepoints", f: case_codepoints };

pub const SUB_V3: Sub = Sub { name: "c01.roundtrip.v3", f: case::<V3> };
pub const SUB_V5: Sub = Sub { name: "c01.roundtrip.v5", f: case::<V5> };
pub const SUB_T3: Sub = Sub { name: "c01.typed.v3", f: case_typed::<V3> };
pub const SUB_T5: Sub = Sub { name: "c01.typed.v5", f: case_typed::<V5> };
pub const SUB_S3: Sub = Sub { name: "c01.sized.v3", f: case_sized::<V3> };
pub const SUB_S5: Sub = Sub { name: "c01.sized.v5", f: case_sized::<V5> };

pub fn subs() -> Vec<Sub> {
    vec![SUB_V3, SUB_V5, SUB_T3, SUB_T5, SUB_S3, SUB_S5, SUB_CODEPOINTS]
}

pub fn run(env: &mut Env) -> RunResult {
    let n = env.tier.sel(12_000, 300_000);
    env.run_tapes(SUB_V3, n, 96)?;
    env.run_tapes(SUB_V5, n * 2, 200)?;
    env.run_tapes(SUB_T3, n / 2, 96)?;
    env.run_tapes(SUB_T5, n, 200)?;
    env.run_enum(SUB_CODEPOINTS, 0x11_0000 / 1_024, env.thorough(), |i| Input::Nums(vec![i * 1_024, 1_024]))?;
    env.require("c01.codepoints", "code-points");
    // remaining lengths around every header-width boundary
    let mut sizes: Vec<u64> = vec![4, 5, 6, 126, 127, 128, 129, 16_382, 16_383, 16_384, 16_385];
    if env.thorough() {
        sizes.extend([2_097_150u64, 2_097_151, 2_097_152, 2_097_153, 268_435_455]);
    } else {
        sizes.extend([2_097_151u64, 2_097_152]);
    }
    let inputs: Vec<Input> = sizes.iter().map(|s| Input::Nums(vec![*s])).collect();
    env.run_inputs(SUB_S3, &inputs)?;
    env.run_inputs(SUB_S5, &inputs)?;
    // exact remaining-length and property-section lengths around every var-int width boundary
    let s3 = crate::sized::inputs(model::Fam::V3, env.thorough());
    let n3 = s3.len() as u64;
    env.run_enum(SUB_S3, n3, false, move |i| s3[i as usize].clone())?;
    let s5 = crate::sized::inputs(model::Fam::V5, env.thorough());
    let n5 = s5.len() as u64;
    env.run_enum(SUB_S5, n5, false, move |i| s5[i as usize].clone())?;
    env.require("c01.sized.v5", "sized-properties");
    env.require("c01.sized.v5", "sized-will-properties");
    env.require("c01.sized.v5", "utf8-flagged-payload");
    env.require("c01.sized.v5", "sized:2MiB-boundary");
    for t in ["CONNECT", "CONNACK", "PUBLISH", "PUBACK", "PUBREC", "PUBREL", "PUBCOMP", "SUBSCRIBE", "SUBACK", "UNSUBSCRIBE", "UNSUBACK", "PINGREQ", "PINGRESP", "DISCONNECT"] {
        env.require("c01.typed.v3", &format!("{}/h1", t));
        env.require("c01.typed.v5", &format!("{}/h1", t));
    }
    env.require("c01.typed.v5", "AUTH/h1");
    env.require("c01.roundtrip.v5", "ack-success-with-properties");
    env.require("c01.roundtrip.v5", "has-properties");
    Ok(())
}
