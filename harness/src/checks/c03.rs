//! C03 — decoders are total and memory-safe on arbitrary bytes.
//! Oracle: every entry point returns (packet | incomplete | error); a panic (including
//! overflow checks and debug assertions under the relcheck profile), an abort, or a transport
//! polled beyond its call bound is a violation. Runs under both build profiles with every
//! case parked for the abort handler. (ASan and Miri judge memory safety in the thorough tier.)

use crate::corpus;
use crate::fam::{self, Family, V3, V5};
use crate::model::{fnv, hex_short};
use crate::run::{CaseResult, Ctx, Env, Input, RunResult, Sub};
use crate::sio::Step;
use crate::tape::Tape;
use futures_lite::future::block_on;

pub fn outcome_class<P, E>(r: &Result<Option<P>, E>) -> &'static str {
    match r {
        Ok(Some(_)) => "outcome:packet",
        Ok(None) => "outcome:incomplete",
        Err(_) => "outcome:error",
    }
}

/// drives every decoder entry point of one family over the bytes
pub fn total<F: Family>(b: &[u8], ctx: &mut Ctx) -> CaseResult {
    let r = F::decode(b);
    ctx.label(outcome_class(&r));
    let _ = fam::dec_async::<F>(b);
    let _ = F::header_decode(b);
    let mut rd: &[u8] = b;
    let _ = block_on(F::header_decode_async(&mut rd));
    let mut rd: &[u8] = b;
    let _ = block_on(mqtt_proto::decode_raw_header(&mut rd));
    // the public per-type body decoders on the bytes after the header
    let _ = F::body_level_decode(b);
    let p1 = fam::dec_poll::<F>(b);
    if b.len() <= 2048 {
        // one byte per read, Pending before every read, future dropped at every Pending
        let steps: Vec<Step> = (0..b.len().min(600) * 2).map(|i| if i % 2 == 0 { Step::Pending } else { Step::Chunk(1) }).collect();
        // the transport's fill style and whether the decode continues from a clone of the state vary with the input
        let p2 = fam::dec_poll_styled::<F>(b, &steps, u64::MAX, None, false, (fnv(b) & 3) as u8);
        // two body reads with a Pending in between, continued from a cloned state
        let steps: Vec<Step> = (0..8).map(|i| if i == 5 { Step::Pending } else if i < 4 { Step::Chunk(1) } else { Step::Chunk(b.len() / 2) }).collect();
        let _ = fam::dec_poll_styled::<F>(b, &steps, u64::MAX, None, false, 2 | (fnv(b) >> 2 & 1) as u8);
        // termination under a real executor: a Pending that nobody is going to wake is a hang. The transport wakes
        // whenever it returns Pending; a Pending of the decoder in a poll in which the transport was ready (or failed:
        // the schedule contains transient failures of kind WouldBlock / Interrupted) has no wake-up coming.
        let steps: Vec<Step> = (0..b.len().min(64) * 2 + 6)
            .map(|i| match i % 5 {
                1 => Step::Fail(std::io::ErrorKind::WouldBlock),
                3 => Step::Fail(std::io::ErrorKind::Interrupted),
                4 => Step::Pending,
                _ => Step::Chunk(1 + i % 3),
            })
            .collect();
        // (the payload shape of those failures varies with the input: message, bare kind, empty message, nested errors ...)
        let p3 = fam::dec_poll_styled::<F>(b, &steps, 0, None, false, (((fnv(b) >> 5) % crate::sio::ERR_SHAPES as u64) as u8) << 4);
        for (r, how) in [(&p2, "one byte per read with Pending before every read"), (&p3, "a schedule with transient WouldBlock / Interrupted failures")] {
            if r.spurious_pending || r.lost_wakeup || matches!(&r.transient_not_surfaced, Some(x) if x == "Pending") {
                return Err(crate::run::Violation::new(format!(
                    "{} poll decoder on {} under {}: it returned Pending in a poll in which the transport was not pending, so no wake-up is registered and the decode never completes under an executor",
                    F::FAM.name(),
                    hex_short(b, 48),
                    how
                )));
            }
        }
        // (schedule independence is C05's business; here only the outcome kind is recorded)
        ctx.label(if p2.result.is_ok() == p1.result.is_ok() { "chunked:same-kind" } else { "chunked:different-kind" });
    }
    // a caller that polls the same state again after the decoder has reported an error (it logs the error and tries to
    // go on with what is left of the stream): anything may come back, but nothing panics and nothing spins
    if p1.result.is_err() && b.len() <= 4096 {
        let mut rd = crate::sio::ScriptedReader::new(b, &[]);
        let mut state: mqtt_proto::GenericPollPacketState<F::Header> = Default::default();
        for _ in 0..4 {
            let (r, _) = crate::sio::drive(mqtt_proto::GenericPollPacket::new(&mut state, &mut rd), b.len() + 16);
            if r.is_ok() {
                break;
            }
        }
    }
    if let Ok(ok) = &p1.result {
        // reading the handed-back buffer is what exposes uninitialised memory under Miri/ASan
        let s: u64 = ok.body.iter().map(|x| *x as u64).sum();
        std::hint::black_box(s);
    }
    Ok(())
}

fn both(b: &[u8], origin: &str, ctx: &mut Ctx) -> CaseResult {
    // (which family a thread decodes first varies with the input: state that the two families share per thread, and that
    // the first user fills, has to suit the other one too)
    if fnv(b) & 1 == 0 {
        total::<V3>(b, ctx)?;
        total::<V5>(b, ctx)?;
    } else {
        total::<V5>(b, ctx)?;
        total::<V3>(b, ctx)?;
    }
    ctx.label(&format!("origin:{}", origin));
    if corpus::reaches_body(crate::model::Fam::V5, b) {
        ctx.label("reaches-a-body-decoder");
        if ctx.nontrivial(fnv(b)) {
            ctx.sample(|| format!("{} [{}] -> v3 {} / v5 {}", hex_short(b, 48), origin, outcome_class(&V3::decode(b)), outcome_class(&V5::decode(b))));
        }
    }
    Ok(())
}

fn case_tape(input: &Input, ctx: &mut Ctx) -> CaseResult {
    let mut t = Tape::new(input.tape());
    let cfg = crate::gen::cfg_mix(&mut t, ctx.thorough);
    let (b, origin) = if t.flag() { corpus::gen_input::<V5>(&mut t, &cfg) } else { corpus::gen_input::<V3>(&mut t, &cfg) };
    both(&b, origin, ctx)
}

fn case_bytes(input: &Input, ctx: &mut Ctx) -> CaseResult {
    both(input.bytes(), "enumerated", ctx)
}

/// nums = [len, start, count]: all byte strings of that length in the index range
fn case_block(input: &Input, ctx: &mut Ctx) -> CaseResult {
    let n = input.nums();
    let (len, start, count) = (n[0] as usize, n[1], n[2]);
    let mut reach = 0u64;
    for i in start..start + count {
        let mut b = [0u8; 4];
        for k in 0..len {
            b[k] = (i >> (8 * (len - 1 - k))) as u8;
        }
        let s = &b[..len];
        if let Err(v) = total::<V3>(s, ctx).and_then(|_| total::<V5>(s, ctx)) {
            ctx.refine = Some(("c03.bytes", Input::Bytes(s.to_vec())));
            return Err(v);
        }
        reach += corpus::reaches_body(crate::model::Fam::V5, s) as u64;
    }
    ctx.more_evals(count.saturating_sub(1));
    ctx.count_distinct(reach);
    ctx.label_n("strings", count);
    ctx.label_n("reaches-a-body-decoder", reach);
    if start == 0 {
        ctx.sample(|| format!("all {}-byte strings with index {}..{}", len, start, start + count));
    }
    Ok(())
}

/// nums = [header (two bytes as u16), body index]: every 2-byte header followed by short bodies
fn case_header_body(input: &Input, ctx: &mut Ctx) -> CaseResult {
    let n = input.nums();
    let h = n[0] as u16;
    for (j, body) in SHORT_BODIES.iter().enumerate() {
        let mut b = vec![(h >> 8) as u8, h as u8];
        b.extend_from_slice(body);
        if let Err(v) = total::<V3>(&b, ctx).and_then(|_| total::<V5>(&b, ctx)) {
            ctx.refine = Some(("c03.bytes", Input::Bytes(b)));
            return Err(v);
        }
        let _ = j;
    }
    ctx.more_evals(SHORT_BODIES.len() as u64 - 1);
    ctx.count_distinct(SHORT_BODIES.len() as u64);
    ctx.label_n("header+body", SHORT_BODIES.len() as u64);
    if h == 0x3005 {
        ctx.sample(|| format!("header 3005 followed by each of {} short bodies, e.g. {}", SHORT_BODIES.len(), hex_short(SHORT_BODIES[5], 16)));
    }
    Ok(())
}

const SHORT_BODIES: &[&[u8]] = &[
    &[],
    &[0x00],
    &[0x00, 0x00],
    &[0x00, 0x01],
    &[0xFF, 0xFF],
    &[0x00, 0x01, 0x61],
    &[0x00, 0x01, 0x61, 0x00],
    &[0x00, 0x01, 0x00, 0x00],
    &[0x00, 0x0A, 0x00],
    &[0x00, 0x0A, 0x00, 0x00],
    &[0x00, 0x0A, 0x80, 0x80, 0x80, 0x80, 0x01],
    &[0x00, 0x04, b'M', b'Q', b'T', b'T', 0x04, 0x02, 0x00, 0x3C, 0x00, 0x00],
    &[0x00, 0x04, b'M', b'Q', b'T', b'T', 0x05, 0xFE, 0x00, 0x3C, 0x00, 0x00, 0x00],
    &[0x00, 0x04, b'M', b'Q', b'T', b'T', 0x05, 0x06, 0x00, 0x3C, 0xFF, 0xFF, 0xFF, 0x7F],
    &[0x00, 0x01, 0x00, 0x05, 0x26, 0x00, 0x00, 0x00, 0x00],
    &[0x00, 0x01, 0x00, 0x02, 0x0B, 0xFF, 0xFF, 0xFF, 0xFF, 0x7F],
    &[0x00, 0x01, 0xFF, 0xFF, 0xFF, 0xFF],
    &[0xFF, 0xFF, 0xFF, 0xFF, 0xFF, 0xFF, 0xFF, 0xFF],
];


// ---------------------------------------------------------------------------------------
// nothing observable about the caller-held poll state may depend on memory the transport never delivered

/// Leaves a freed heap chunk of `len` bytes filled with `pattern` at the head of this thread's free list, so that
/// the next allocation of that size is likely to get it back un-zeroed (glibc's per-thread cache is LIFO). If the
/// allocator does not reuse it the probe below is merely blind, never wrong.
#[inline(never)]
fn poison_free_chunk(len: usize, pattern: u8) {
    let v: Vec<u8> = vec![pattern; len];
    std::hint::black_box(&v);
    drop(v);
}

/// decodes the first `k` bytes of `data` with the poll decoder, stops at the Pending that follows, and renders the
/// caller-held state (and a clone of it) with `{:?}`
fn observed_state<F: Family>(data: &[u8], k: usize, hl: usize, rl: usize, pattern: u8) -> String {
    use std::future::Future;
    let mut steps: Vec<Step> = Vec::new();
    for _ in 0..k.min(hl) {
        steps.push(Step::Chunk(1));
    }
    if k > hl {
        steps.push(Step::Chunk(k - hl));
    }
    steps.push(Step::Pending);
    let mut reader = crate::sio::ScriptedReader::new(data, &steps);
    let mut state: mqtt_proto::GenericPollPacketState<F::Header> = Default::default();
    let waker = crate::sio::noop_waker();
    let mut cx = std::task::Context::from_waker(&waker);
    poison_free_chunk(rl, pattern);
    let r = {
        let mut fut = mqtt_proto::GenericPollPacket::new(&mut state, &mut reader);
        std::pin::Pin::new(&mut fut).poll(&mut cx)
    };
    let outcome = match r {
        std::task::Poll::Pending => "pending",
        std::task::Poll::Ready(Ok(_)) => "ready-ok",
        std::task::Poll::Ready(Err(_)) => "ready-err",
    };
    let cl = state.clone();
    format!("{} | {:?} | clone {:?}", outcome, state, cl)
}

/// nums = [family, stream index]: every cut position of one of the short streams (and of a few longer ones)
fn case_state_observation(input: &Input, ctx: &mut Ctx) -> CaseResult {
    let n = input.nums();
    let v5 = n[0] == 1;
    let mut streams: Vec<Vec<u8>> = if v5 { crate::checks::c05::short_streams::<V5>() } else { crate::checks::c05::short_streams::<V3>() };
    for rl in [40usize, 100, 200, 600, 1_000] {
        let p = if v5 { V5::encode(&V5::publish_with_payload(vec![0x42; rl])) } else { V3::encode(&V3::publish_with_payload(vec![0x42; rl])) };
        if let Ok(b) = p {
            streams.push(b.as_ref().to_vec());
        }
    }
    let data = match streams.get(n[1] as usize) {
        Some(d) => d,
        None => return Ok(()),
    };
    let (hl, rl) = match crate::refdec::frame_bounds(data) {
        Ok(x) => x,
        Err(_) => return Ok(()),
    };
    if rl == 0 || rl > 4_096 {
        return Ok(());
    }
    let mut probes = 0u64;
    for k in hl..(hl + rl).min(data.len()) {
        let (a, b) = if v5 { (observed_state::<V5>(data, k, hl, rl, 0xAA), observed_state::<V5>(data, k, hl, rl, 0x55)) } else { (observed_state::<V3>(data, k, hl, rl, 0xAA), observed_state::<V3>(data, k, hl, rl, 0x55)) };
        if a != b {
            let at = a.bytes().zip(b.bytes()).position(|(x, y)| x != y).unwrap_or(0);
            let from = at.saturating_sub(60);
            return Err(crate::run::Violation::new(format!(
                "after {} of the {} body bytes of {} were delivered, the {{:?}} rendering of the caller-held poll state depends on memory the transport never wrote (heap chunk pre-filled with 0xAA vs 0x55): ..{}.. vs ..{}..",
                k - hl,
                rl,
                hex_short(data, 24),
                &a[from..(at + 40).min(a.len())],
                &b[from..(at + 40).min(b.len())]
            )));
        }
        probes += 1;
    }
    ctx.more_evals(probes.saturating_sub(1));
    ctx.count_distinct(probes);
    ctx.label("state-observed-mid-body");
    if n[1] == 0 {
        ctx.sample(|| format!("{} stream {}: state rendered with {{:?}} after every partial body delivery, heap pre-filled with two patterns", if v5 { "v5" } else { "v3" }, hex_short(data, 16)));
    }
    Ok(())
}

/// Two decodes in flight on one thread (a connection task that multiplexes two sockets, a bridge that decodes what it
/// is about to forward while its own read is parked): decode A is an async (or poll) decode that is parked on a Pending
/// of its transport after `k` bytes; while it is parked, B is decoded with every front-end of its family; then A is
/// resumed. Nothing may panic, B's results are what they are without A, and A's result is what it is uninterrupted.
fn interleaved<FA: Family, FB: Family>(a: &[u8], b: &[u8], ctx: &mut Ctx) -> CaseResult {
    use std::future::Future;
    use std::task::{Context, Poll};
    let show_a = |r: &Result<FA::Packet, FA::Error>| format!("{:?}", r.as_ref().map(|q| fam::render(q)));
    let alone_a = fam::dec_async::<FA>(a).0;
    let alone_a_poll = fam::dec_poll::<FA>(a).result.map(|o| o.pkt);
    let alone_b = (FB::decode(b), fam::dec_async::<FB>(b).0, fam::dec_poll::<FB>(b).result.map(|o| (o.total, o.pkt)), FB::header_decode(b));
    let cuts: Vec<usize> = if a.len() <= 40 { (1..a.len()).collect() } else { (0..10u64).map(|i| 1 + (fnv(a).wrapping_mul(i * 2 + 1) >> 7) as usize % (a.len() - 1)).collect() };
    let waker = crate::sio::noop_waker();
    let mut cx = Context::from_waker(&waker);
    let mut parked = 0u64;
    for k in cuts {
        for poll_front_end in [false, true] {
            let mut rd = crate::sio::ScriptedReader::new(a, &[]);
            rd.pend_once_at = Some(k);
            let mut state: mqtt_proto::GenericPollPacketState<FA::Header> = Default::default();
            // (two futures of different types; the one not used is never created)
            let mut fut_async = None;
            let mut fut_poll = None;
            if poll_front_end {
                fut_poll = Some(Box::pin(mqtt_proto::GenericPollPacket::new(&mut state, &mut rd)));
            } else {
                fut_async = Some(Box::pin(FA::decode_async(&mut rd)));
            }
            let mut poll_a = |cx: &mut Context<'_>| -> Poll<Result<FA::Packet, FA::Error>> {
                match (&mut fut_async, &mut fut_poll) {
                    (Some(f), _) => f.as_mut().poll(cx),
                    (_, Some(f)) => f.as_mut().poll(cx).map(|r| r.map(|(_, _, p)| p)),
                    _ => unreachable!(),
                }
            };
            let how = if poll_front_end { "poll" } else { "async" };
            let want_a = if poll_front_end { &alone_a_poll } else { &alone_a };
            let first = poll_a(&mut cx);
            let done = match first {
                Poll::Ready(r) => r,
                Poll::Pending => {
                    parked += 1;
                    // B, with every front-end, while A is parked
                    let now_b = (FB::decode(b), fam::dec_async::<FB>(b).0, fam::dec_poll::<FB>(b).result.map(|o| (o.total, o.pkt)), FB::header_decode(b));
                    if now_b != alone_b {
                        return Err(crate::run::Violation::new(format!(
                            "while a {} {} decode of {} was parked after {} bytes, decoding {} as {} gave (blocking, async, poll, header) = {:?}; without the parked decode it gives {:?}",
                            FA::FAM.name(), how, hex_short(a, 48), k, hex_short(b, 48), FB::FAM.name(),
                            (now_b.0.as_ref().map(|o| o.as_ref().map(|q| fam::render(q))), now_b.1.as_ref().map(|q| fam::render(q)), now_b.2.as_ref().map(|q| (q.0, fam::render(&q.1))), &now_b.3),
                            (alone_b.0.as_ref().map(|o| o.as_ref().map(|q| fam::render(q))), alone_b.1.as_ref().map(|q| fam::render(q)), alone_b.2.as_ref().map(|q| (q.0, fam::render(&q.1))), &alone_b.3)
                        )));
                    }
                    let mut n = 0;
                    loop {
                        n += 1;
                        if n > 8 {
                            return Err(crate::run::Violation::new(format!("{} {} decode of {} parked after {} bytes does not complete when resumed (another decode ran in between)", FA::FAM.name(), how, hex_short(a, 48), k)));
                        }
                        if let Poll::Ready(r) = poll_a(&mut cx) {
                            break r;
                        }
                    }
                }
            };
            if done != *want_a {
                return Err(crate::run::Violation::new(format!(
                    "{} {} decode of {} parked after {} bytes while {} was decoded as {}: result {} but uninterrupted {}",
                    FA::FAM.name(), how, hex_short(a, 48), k, hex_short(b, 48), FB::FAM.name(), show_a(&done), show_a(want_a)
                )));
            }
        }
    }
    ctx.more_evals(parked);
    if parked > 0 {
        ctx.label("decode-while-another-is-parked");
        if matches!(&alone_b.0, Ok(Some(_))) && alone_a.is_ok() {
            ctx.label("both-inputs-accepted");
            if ctx.nontrivial(fnv(a) ^ fnv(b).rotate_left(17)) {
                ctx.sample(|| format!("A = {} {} parked at {} cut positions x 2 front-ends; B = {} {} decoded meanwhile", FA::FAM.name(), hex_short(a, 24), parked / 2, FB::FAM.name(), hex_short(b, 24)));
            }
        }
    }
    Ok(())
}

fn case_interleaved(input: &Input, ctx: &mut Ctx) -> CaseResult {
    let mut t = Tape::new(input.tape());
    let cfg = crate::gen::cfg_mix(&mut t, ctx.thorough);
    let fams = t.pick(4);
    // mostly accepted inputs with text in them: the interesting parked positions are inside fields
    let gen = |t: &mut Tape, v5: bool| -> Vec<u8> {
        if t.chance(1, 4) {
            if v5 { corpus::gen_input::<V5>(t, &cfg).0 } else { corpus::gen_input::<V3>(t, &cfg).0 }
        } else if v5 {
            V5::gen(t, &cfg).ok().and_then(|p| V5::encode(&p).ok()).map(|e| e.as_ref().to_vec()).unwrap_or_else(|| vec![0xC0, 0])
        } else {
            V3::gen(t, &cfg).ok().and_then(|p| V3::encode(&p).ok()).map(|e| e.as_ref().to_vec()).unwrap_or_else(|| vec![0xC0, 0])
        }
    };
    let a = gen(&mut t, fams & 1 == 1);
    let b = gen(&mut t, fams & 2 == 2);
    if a.len() < 2 || a.len() > 4096 || b.len() > 4096 {
        ctx.label("skipped:size");
        return Ok(());
    }
    match fams {
        0 => interleaved::<V3, V3>(&a, &b, ctx),
        1 => interleaved::<V5, V3>(&a, &b, ctx),
        2 => interleaved::<V3, V5>(&a, &b, ctx),
        _ => interleaved::<V5, V5>(&a, &b, ctx),
    }
}

/// Every decoder entry point called where applications call it: inside a task of a tokio runtime whose cooperative
/// budget is used up (the normal state of a busy connection task). The blocking and the poll decoders drive their body
/// decoders with a `block_on` of their own; if anything underneath answers Pending with a wake-up that only the runtime
/// can deliver, the thread parks for good. Inputs: strings of the shared corpus and PUBLISH frames with payloads around
/// and above 64 KiB / 1 MiB, complete or cut short. "Never returns" is decided by `tokioctx` (a thread that sleeps
/// without consuming CPU for five seconds with nothing that could wake it), never by a time budget.
fn case_in_tokio(input: &Input, ctx: &mut Ctx) -> CaseResult {
    let mut t = Tape::new(input.tape());
    let cfg = crate::gen::cfg_mix(&mut t, ctx.thorough);
    let v5 = t.flag();
    let (b, origin): (Vec<u8>, &str) = if t.chance(1, 4) {
        let rl = [65_530usize, 65_536, 65_600, 70_000, 131_072, 1_048_576 + 7][t.pick(6)] + t.pick(3);
        let mut e = if v5 {
            V5::encode(&crate::checks::c01::sized_publish::<V5>(rl)).map(|x| x.as_ref().to_vec()).unwrap_or_default()
        } else {
            V3::encode(&crate::checks::c01::sized_publish::<V3>(rl)).map(|x| x.as_ref().to_vec()).unwrap_or_default()
        };
        match t.pick(3) {
            0 => {}
            1 => e.truncate(e.len() - 1 - t.pick(200)),
            _ => e.extend_from_slice(&[0xC0, 0x00]),
        }
        (e, "large-publish")
    } else if v5 {
        corpus::gen_input::<V5>(&mut t, &cfg)
    } else {
        corpus::gen_input::<V3>(&mut t, &cfg)
    };
    fn all<F: Family>(b: &[u8]) -> (String, String, String) {
        let blocking = format!("{:?}", F::decode(b).map(|o| o.map(|q| fam::render(&q).len())));
        let asy = format!("{:?}", fam::dec_async::<F>(b).0.map(|q| fam::render(&q).len()));
        let poll = format!("{:?}", fam::dec_poll::<F>(b).result.map(|o| (o.total, fam::render(&o.pkt).len())));
        let _ = F::header_decode(b);
        let _ = F::body_level_decode(b);
        (blocking, asy, poll)
    }
    let outside = if v5 { all::<V5>(&b) } else { all::<V3>(&b) };
    let b2 = b.clone();
    let inside = crate::tokioctx::in_exhausted_task(move || if v5 { all::<V5>(&b2) } else { all::<V3>(&b2) });
    use crate::tokioctx::Outcome;
    match inside {
        Outcome::Done(r) => {
            if r != outside {
                return Err(crate::run::Violation::new(format!("decoding {} ({} bytes, {}) inside a tokio task whose budget is used up gives (blocking, async, poll) = {:?}; outside a runtime {:?}", hex_short(&b, 48), b.len(), origin, r, outside)));
            }
        }
        Outcome::Panicked(m) => return Err(crate::run::Violation::new(format!("decoding {} ({} bytes, {}) inside a tokio task panicked: {}", hex_short(&b, 48), b.len(), origin, m))),
        Outcome::Parked => {
            return Err(crate::run::Violation::new(format!(
                "decoding {} ({} bytes, {}) inside a tokio task whose cooperative budget is used up never returns: the thread is parked (asleep, no CPU consumed for 5 s) and nothing exists that could wake it; outside a runtime the same calls give {:?}",
                hex_short(&b, 48), b.len(), origin, outside
            )))
        }
        Outcome::Inconclusive => return Err(crate::run::Violation::new("MQV-INTERNAL a decode inside a tokio task was still consuming CPU after ten minutes")),
    }
    ctx.label("decoded-inside-a-tokio-task");
    ctx.label(&format!("in-task:{}", origin));
    ctx.count_distinct(1);
    if origin == "large-publish" {
        ctx.sample(|| format!("{} PUBLISH frame of {} bytes: {:?} inside a tokio task with its budget used up, as outside", if v5 { "v5" } else { "v3" }, b.len(), outside.0));
    }
    Ok(())
}

pub const SUB_TOKIO: Sub = Sub { name: "c03.inside-tokio-task", f: case_in_tokio };
pub const SUB_INTER: Sub = Sub { name: "c03.interleaved", f: case_interleaved };
pub const SUB_OBS: Sub = Sub { name: "c03.state-observation", f: case_state_observation };


// ---------------------------------------------------------------------------------------
// the public per-type body decoders with a length the caller declares (v3: a `usize` argument; v5 and PUBLISH: the
// `remaining_len` field of a `Header` anyone can build): a packet, incomplete or an error, whatever is declared

fn case_declared_lengths(_input: &Input, ctx: &mut Ctx) -> CaseResult {
    use mqtt_proto::{v3, v5, QoS};
    let mut calls = 0u64;
    let bodies: Vec<Vec<u8>> = vec![
        vec![],
        vec![0x00],
        vec![0x00, 0x01],
        vec![0x00, 0x01, 0x00],
        vec![0x00, 0x01, 0x00, 0x01, b'a', 0x01],
        vec![0x00, 0x01, 0x00, 0x00, 0x01, b'a', 0x00],
        vec![0x00, 0x01, 0x00, 0x01, 0x02, 0x80],
        vec![0x00, 0x01, b't', 0x00, 0x01, 0x00, b'p', b'q'],
        vec![0xFF; 9],
        // reason codes that are legal for one group of acks only, with and without a property section
        vec![0x00, 0x01, 0x92],
        vec![0x00, 0x01, 0x92, 0x00],
        vec![0x00, 0x01, 0x10, 0x00],
        vec![0x00, 0x01, 0x91, 0x00],
        vec![0x00, 0x01, 0x80],
        vec![0x18, 0x00],
        vec![0x8E, 0x00],
    ];
    let big: [usize; 9] = [1 << 16, (1 << 28) - 1, 1 << 28, 1 << 31, 1usize << 32, 1usize << 45, isize::MAX as usize, (isize::MAX as usize) + 3, usize::MAX];
    for b in &bodies {
        let mut declared: Vec<usize> = vec![0, 1, 2, 3, b.len(), b.len() + 1, b.len().saturating_sub(1)];
        declared.extend_from_slice(&big);
        for &d in &declared {
            let mut r: &[u8] = b;
            let _ = block_on(v3::Subscribe::decode_async(&mut r, d));
            let mut r: &[u8] = b;
            let _ = block_on(v3::Suback::decode_async(&mut r, d));
            let mut r: &[u8] = b;
            let _ = block_on(v3::Unsubscribe::decode_async(&mut r, d));
            calls += 3;
        }
        let mut rls: Vec<u32> = vec![0, 1, 2, 3, 4, 5, 127, 128, b.len() as u32, b.len() as u32 + 1, (1 << 28) - 1, 1 << 28, 1 << 31, u32::MAX - 1, u32::MAX];
        rls.dedup();
        for &rl in &rls {
            for qos in [QoS::Level0, QoS::Level1, QoS::Level2] {
                let mut r: &[u8] = b;
                let _ = block_on(v3::Publish::decode_async(&mut r, v3::Header::new(v3::PacketType::Publish, false, qos, false, rl)));
                let mut r: &[u8] = b;
                let _ = block_on(v5::Publish::decode_async(&mut r, v5::Header::new(v5::PacketType::Publish, false, qos, true, rl)));
                calls += 2;
            }
            use v5::PacketType as T;
            let h = |t: T| v5::Header::new(t, false, QoS::Level0, false, rl);
            let mut r: &[u8] = b;
            let _ = block_on(v5::Connect::decode_async(&mut r, h(T::Connect)));
            let mut r: &[u8] = b;
            let _ = block_on(v5::Connack::decode_async(&mut r, h(T::Connack)));
            let mut r: &[u8] = b;
            let _ = block_on(v5::Puback::decode_async(&mut r, h(T::Puback)));
            let mut r: &[u8] = b;
            let _ = block_on(v5::Pubrec::decode_async(&mut r, h(T::Pubrec)));
            let mut r: &[u8] = b;
            let _ = block_on(v5::Pubrel::decode_async(&mut r, h(T::Pubrel)));
            let mut r: &[u8] = b;
            let _ = block_on(v5::Pubcomp::decode_async(&mut r, h(T::Pubcomp)));
            let mut r: &[u8] = b;
            let _ = block_on(v5::Subscribe::decode_async(&mut r, h(T::Subscribe)));
            let mut r: &[u8] = b;
            let _ = block_on(v5::Suback::decode_async(&mut r, h(T::Suback)));
            let mut r: &[u8] = b;
            let _ = block_on(v5::Unsubscribe::decode_async(&mut r, h(T::Unsubscribe)));
            let mut r: &[u8] = b;
            let _ = block_on(v5::Unsuback::decode_async(&mut r, h(T::Unsuback)));
            let mut r: &[u8] = b;
            let _ = block_on(v5::Disconnect::decode_async(&mut r, h(T::Disconnect)));
            let mut r: &[u8] = b;
            let _ = block_on(v5::Auth::decode_async(&mut r, h(T::Auth)));
            // headers whose type does not match the decoder they are given to: every decoder with every header type
            // (for the two smallest and the exact remaining lengths; the others were run above with the matching type)
            if rl <= 5 || rl == b.len() as u32 {
                for t in [T::Connect, T::Connack, T::Publish, T::Puback, T::Pubrec, T::Pubrel, T::Pubcomp, T::Subscribe, T::Suback, T::Unsubscribe, T::Unsuback, T::Pingreq, T::Pingresp, T::Disconnect, T::Auth] {
                    macro_rules! with_foreign_header {
                        ($($d:ident),*) => {$(
                            let mut r: &[u8] = b;
                            let _ = block_on(v5::$d::decode_async(&mut r, h(t)));
                            calls += 1;
                        )*};
                    }
                    with_foreign_header!(Connect, Connack, Publish, Puback, Pubrec, Pubrel, Pubcomp, Subscribe, Suback, Unsubscribe, Unsuback, Disconnect, Auth);
                }
            }
            calls += 12;
        }
    }
    ctx.more_evals(calls.saturating_sub(1));
    ctx.count_distinct(calls);
    ctx.label("body-level-declared-lengths");
    ctx.sample(|| format!("{} calls of the body-level decoders with declared lengths 0 .. usize::MAX over 9 short bodies", calls));
    Ok(())
}

pub const SUB_DECL: Sub = Sub { name: "c03.declared-lengths", f: case_declared_lengths };

pub const SUB_TAPE: Sub = Sub { name: "c03.corrupted", f: case_tape };
pub const SUB_BYTES: Sub = Sub { name: "c03.bytes", f: case_bytes };
pub const SUB_BLOCK: Sub = Sub { name: "c03.short-strings", f: case_block };
pub const SUB_HB: Sub = Sub { name: "c03.header-body", f: case_header_body };

pub fn subs() -> Vec<Sub> {
    vec![SUB_TAPE, SUB_BYTES, SUB_BLOCK, SUB_HB, SUB_OBS, SUB_DECL, SUB_INTER, SUB_TOKIO]
}

/// maximal declared lengths and other hand-written vectors
pub fn vectors() -> Vec<Input> {
    [
        "",
        "30ffffff7f",
        "30ffffff7f0001",
        "10ffffff7f00044d515454",
        "82ffffff7f0001",
        "90ffffff7f000100",
        "30ffffffff",
        "c0ffffffff7f",
        "3003ffff61",
        "30050001610b",
        "1000",
        "e0ffffff7f",
        "f0ffffff7f00",
        "a2ffffff7f000100",
        "b0ffffff7f000100",
        "20ffffff7f0000ffffff7f",
    ]
    .iter()
    .filter_map(|h| crate::model::unhex(h).map(Input::Bytes))
    .collect()
}

pub fn run(env: &mut Env) -> RunResult {
    env.park = true;
    {
        let n3 = crate::checks::c05::short_streams::<V3>().len() as u64 + 5;
        let n5 = crate::checks::c05::short_streams::<V5>().len() as u64 + 5;
        env.run_enum(SUB_OBS, n3 + n5, false, move |i| if i < n3 { Input::Nums(vec![0, i]) } else { Input::Nums(vec![1, i - n3]) })?;
        env.require("c03.state-observation", "state-observed-mid-body");
    }
    // (one case, so that it runs on one thread: a declared length of 4 GiB is a 4 GiB virtual allocation)
    env.run_inputs(SUB_DECL, &[Input::Nums(vec![0])])?;
    env.require("c03.declared-lengths", "body-level-declared-lengths");
    env.run_inputs(SUB_BYTES, &vectors())?;
    let mut v: Vec<Input> = crate::checks::c04::vectors(crate::model::Fam::V3);
    v.extend(crate::checks::c04::vectors(crate::model::Fam::V5));
    env.run_inputs(SUB_BYTES, &v)?;
    // encodings of the boundary-size constructions (every length-field boundary, long lists of 255 .. 65,537 entries),
    // also cut off in the middle and with their last byte missing
    let lim = env.tier.sel(700_000usize, 40_000_000usize);
    let mut z: Vec<Input> = crate::sized::encoded_inputs::<V3>(env.thorough(), lim);
    z.extend(crate::sized::encoded_inputs::<V5>(env.thorough(), lim));
    let cut: Vec<Input> = z
        .iter()
        .filter(|i| i.bytes().len() <= 600_000)
        .flat_map(|i| {
            let b = i.bytes();
            vec![Input::Bytes(b[..b.len() / 2].to_vec()), Input::Bytes(b[..b.len() - 1].to_vec())]
        })
        .collect();
    z.extend(cut);
    let nz = z.len() as u64;
    env.run_enum(SUB_BYTES, nz, false, move |i| z[i as usize].clone())?;
    // exhaustive short strings
    let maxlen = env.tier.sel(2usize, 3usize);
    let mut blocks: Vec<Input> = Vec::new();
    for len in 1..=maxlen {
        let total = 1u64 << (8 * len);
        let bs = 4096u64.min(total);
        let mut s = 0;
        while s < total {
            blocks.push(Input::Nums(vec![len as u64, s, bs]));
            s += bs;
        }
    }
    let n = blocks.len() as u64;
    env.run_enum(SUB_BLOCK, n, true, move |i| blocks[i as usize].clone())?;
    env.run_enum(SUB_HB, 65_536, true, |i| Input::Nums(vec![i]))?;
    let n = env.tier.sel(40_000, 500_000);
    env.run_tapes(SUB_TAPE, n, 300)?;
    env.run_tapes(SUB_INTER, n / 8, 500)?;
    // (a failing case takes five seconds to be recognised as parked: few shrink attempts)
    env.shrink_iters = 6;
    let r = env.run_tapes(SUB_TOKIO, env.tier.sel(500, 8_000), 300);
    env.shrink_iters = 4096;
    r?;
    env.require("c03.inside-tokio-task", "decoded-inside-a-tokio-task");
    env.require("c03.inside-tokio-task", "in-task:large-publish");
    env.require("c03.interleaved", "decode-while-another-is-parked");
    env.require("c03.interleaved", "both-inputs-accepted");
    env.note(format!("exhaustive: all byte strings of length <= {} and every 2-byte header followed by {} short bodies", maxlen, SHORT_BODIES.len()));
    env.require("c03.corrupted", "reaches-a-body-decoder");
    for o in corpus::ORIGINS {
        env.require("c03.corrupted", &format!("origin:{}", o));
    }
    env.require("c03.corrupted", "outcome:packet");
    env.require("c03.corrupted", "outcome:incomplete");
    env.require("c03.corrupted", "outcome:error");
    Ok(())
}
