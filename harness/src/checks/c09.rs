//! C09 — all encoder entry points emit the same bytes.

use crate::checks::c01;
use crate::fam::{self, Family, V3, V5};
use crate::model::{fnv, hex_short, write_varint};
use crate::run::{CaseResult, Ctx, Env, Input, RunResult, Sub, Violation};
use crate::sio::{self, ScriptedWriter, WStep};
use crate::tape::Tape;
use crate::{ensure, viol};
use mqtt_proto::VarBytes;

fn gen_wsteps(t: &mut Tape, n: usize) -> Vec<WStep> {
    let mut v = Vec::new();
    let m = t.pick(n.min(40) + 2);
    for _ in 0..m {
        v.push(match t.pick(4) {
            0 => WStep::Pending,
            1 => WStep::Accept(1),
            2 => WStep::Accept(1 + t.pick(7)),
            _ => WStep::Accept(1 + t.pick(300)),
        });
    }
    v
}

fn async_into<F: Family>(p: &F::Packet, steps: &[WStep], one_byte: bool, len: usize) -> Result<(Vec<u8>, usize), String> {
    async_into_v::<F>(p, steps, one_byte, len, false)
}

fn async_into_v<F: Family>(p: &F::Packet, steps: &[WStep], one_byte: bool, len: usize, vectored: bool) -> Result<(Vec<u8>, usize), String> {
    let mut w = ScriptedWriter::new(steps, len);
    w.one_byte = one_byte;
    w.vectored = vectored;
    let (r, pend) = sio::drive(F::encode_async(p, &mut w), len + steps.len() + 16);
    match r {
        Ok(()) => Ok((w.out, pend)),
        Err(e) => Err(format!("{:?}", e)),
    }
}

pub fn entry_points<F: Family>(p: &F::Packet, t: &mut Tape, ctx: &mut Ctx) -> CaseResult {
    let enc = match F::encode(p) {
        Ok(b) => b,
        Err(e) => viol!("encode of a valid packet failed: {:?}; packet {}", e, fam::render(p)),
    };
    let bytes: Vec<u8> = enc.as_ref().to_vec();
    // the container exposes exactly its contents
    match &enc {
        VarBytes::Dynamic(v) => ensure!(v[..] == bytes[..], "VarBytes::Dynamic as_ref differs from its vector"),
        VarBytes::Fixed2(a) => {
            ctx.label("fixed2");
            ensure!(a[..] == bytes[..] && bytes.len() == 2, "VarBytes::Fixed2 as_ref differs from its array")
        }
        VarBytes::Fixed4(a) => {
            ctx.label("fixed4");
            ensure!(a[..] == bytes[..] && bytes.len() == 4, "VarBytes::Fixed4 as_ref differs from its array")
        }
    }
    // repeated invocation
    match F::encode(p) {
        Ok(b2) => ensure!(b2.as_ref() == &bytes[..], "two invocations of encode() emitted different bytes; packet {}", fam::render(p)),
        Err(e) => viol!("second encode failed: {:?}", e),
    }
    // async encoder into several sinks
    let mut v: Vec<u8> = Vec::new();
    let (r, _) = sio::drive(F::encode_async(p, &mut v), 8);
    match r {
        Ok(()) => ensure!(v == bytes, "encode_async into a Vec emitted {} instead of {}; packet {}", hex_short(&v, 48), hex_short(&bytes, 48), fam::render(p)),
        Err(e) => viol!("encode_async into a Vec failed: {:?}", e),
    }
    let mut arr = vec![0u8; bytes.len()];
    {
        let mut cur = std::io::Cursor::new(&mut arr[..]);
        let (r, _) = sio::drive(F::encode_async(p, &mut cur), 8);
        if let Err(e) = r {
            viol!("encode_async into an exactly sized Cursor failed: {:?}; packet {}", e, fam::render(p));
        }
    }
    ensure!(arr == bytes, "encode_async into a Cursor emitted different bytes");
    match async_into::<F>(p, &[], true, bytes.len()) {
        Ok((out, _)) => ensure!(out == bytes, "encode_async through a one-byte-per-write sink emitted {} instead of {}", hex_short(&out, 48), hex_short(&bytes, 48)),
        Err(e) => viol!("encode_async through a one-byte-per-write sink failed: {}", e),
    }
    let steps = gen_wsteps(t, bytes.len());
    // the same script on a sink that implements vectored writes (short vectored writes may end anywhere)
    match async_into_v::<F>(p, &steps, false, bytes.len(), true) {
        Ok((out, _)) => ensure!(out == bytes, "encode_async into a sink with vectored writes under script {:?} emitted {} instead of {}", steps, hex_short(&out, 48), hex_short(&bytes, 48)),
        Err(e) => viol!("encode_async into a sink with vectored writes failed: {}", e),
    }
    // sinks whose flush is not ready at first (TLS, a buffered writer over a slow socket): whether or not the encoder
    // flushes, what reaches the sink is the encoding, once
    for (fp, one_byte) in [(1u8, true), (2, false)] {
        let mut w = ScriptedWriter::new(&steps, bytes.len() * 4 + 64);
        w.one_byte = one_byte;
        w.flush_pending = fp;
        let (r, _) = sio::drive(F::encode_async(p, &mut w), bytes.len() * 6 + steps.len() + 64);
        match r {
            Ok(()) => ensure!(w.out == bytes, "encode_async into a sink whose flush is not ready at first (script {:?}) emitted {} ({} bytes) instead of {} ({} bytes)", steps, hex_short(&w.out, 48), w.out.len(), hex_short(&bytes, 48), bytes.len()),
            Err(e) => viol!("encode_async into a sink whose flush is not ready at first failed: {:?}", e),
        }
    }
    // an async sink that reports ErrorKind::Interrupted on a later write of the same call, after it has taken a part, and
    // works again afterwards (a signal arriving during a write on a file-backed or pipe sink): the encoder either hands
    // the interruption on (then it claims nothing) or completes - and a call that reports success has written the
    // encoding exactly once
    if bytes.len() >= 2 {
        let k = 1 + t.pick(bytes.len() - 1);
        let isteps = [WStep::Accept(k), WStep::Interrupt, WStep::Accept(1 + t.pick(5)), WStep::Interrupt];
        let mut w = ScriptedWriter::new(&isteps, bytes.len() * 3 + 16);
        let (r, _) = sio::drive(F::encode_async(p, &mut w), bytes.len() * 3 + 32);
        match r {
            Ok(()) => ensure!(w.out == bytes, "encode_async into a sink that took {} bytes, then reported Interrupted, then went on: success reported but the sink received {} ({} bytes) instead of {} ({} bytes)", k, hex_short(&w.out, 48), w.out.len(), hex_short(&bytes, 48), bytes.len()),
            Err(e) => {
                ensure!(matches!(F::common(&e), Some(mqtt_proto::Error::IoError(std::io::ErrorKind::Interrupted, _))), "encode_async into a sink that reports Interrupted returned {:?}", e);
                ensure!(bytes.starts_with(&w.out), "encode_async into a sink that reports Interrupted after {} bytes wrote {} which is not a prefix of the encoding {}", k, hex_short(&w.out, 48), hex_short(&bytes, 48));
            }
        }
        ctx.label("async-sink-interrupted-mid-call");
    }
    // a sink that dies after k bytes (the peer has gone: BrokenPipe, ConnectionReset, ...): whatever the packet, a call
    // that reports success has delivered the whole encoding
    {
        let k = t.pick(bytes.len());
        let kind = [std::io::ErrorKind::BrokenPipe, std::io::ErrorKind::ConnectionReset, std::io::ErrorKind::ConnectionAborted, std::io::ErrorKind::NotConnected, std::io::ErrorKind::TimedOut, std::io::ErrorKind::Other][t.pick(6)];
        let mut w = ScriptedWriter::new(&[], bytes.len() + 16);
        // (or, one time in three, the sink is full: it answers Ok(0) from there on, like a Cursor over a fixed buffer)
        let full = t.chance(1, 3);
        if full {
            w.zero_at = Some(k);
        } else {
            w.fault = Some((k, kind));
        }
        let (r, _) = sio::drive(F::encode_async(p, &mut w), bytes.len() + 32);
        if r.is_ok() {
            viol!("encode_async into a sink that fails with {:?} after {} of {} bytes reported success; the sink holds {}; packet {}", kind, k, bytes.len(), hex_short(&w.out, 48), fam::render(p));
        }
        ensure!(bytes.starts_with(&w.out), "encode_async into a sink that fails after {} bytes wrote {}, not a prefix of {}", k, hex_short(&w.out, 48), hex_short(&bytes, 48));
        ctx.label("sink-dies-mid-packet");
    }
    let partial = steps.iter().any(|s| matches!(s, WStep::Accept(k) if *k < bytes.len()));
    let pending = steps.iter().any(|s| *s == WStep::Pending);
    match async_into::<F>(p, &steps, false, bytes.len()) {
        Ok((out, pend)) => {
            ensure!(out == bytes, "encode_async under sink script {:?} emitted {} instead of {}", steps, hex_short(&out, 48), hex_short(&bytes, 48));
            if pend > 0 {
                ctx.label("sink-pending-observed");
            }
        }
        Err(e) => viol!("encode_async under sink script {:?} failed: {}", steps, e),
    }
    // packet-level encoding = fixed header ++ body's streaming encoder into any sink
    let w = F::project(p);
    if let Some(n) = F::body_encode_len(p) {
        let mut expect = vec![w.first];
        let mut body = Vec::new();
        match F::body_encode(p, &mut body) {
            Some(Ok(())) => {}
            other => viol!("body streaming encoder failed into a Vec: {:?}", other),
        }
        write_varint(&mut expect, body.len() as u32, 0);
        expect.extend_from_slice(&body);
        ensure!(expect == bytes, "packet encoding {} != control byte ++ var-int(len) ++ streamed body {}; packet {}", hex_short(&bytes, 48), hex_short(&expect, 48), fam::render(p));
        ensure!(n == body.len(), "body reports encode_len {} but streamed {} bytes", n, body.len());
        let wsteps: Vec<WStep> = steps.iter().copied().filter(|s| *s != WStep::Pending).collect();
        let mut sw = ScriptedWriter::new(&wsteps, body.len());
        match F::body_encode(p, &mut sw) {
            Some(Ok(())) => ensure!(sw.out == body, "body streaming encoder wrote different bytes under partial writes {:?}", wsteps),
            other => viol!("body streaming encoder failed under partial writes: {:?}", other),
        }
        for k in [1usize, 3, 7] {
            let vs: Vec<WStep> = if k == 7 { wsteps.clone() } else { Vec::new() };
            let mut vw = ScriptedWriter::new(&vs, body.len());
            vw.vectored = true;
            vw.one_byte = k == 1;
            if k == 3 {
                // three bytes per call: a short vectored write regularly ends inside a field
                let st: Vec<WStep> = (0..body.len() / 3 + 2).map(|_| WStep::Accept(3)).collect();
                let mut vw3 = ScriptedWriter::new(&st, body.len());
                vw3.vectored = true;
                match F::body_encode(p, &mut vw3) {
                    Some(Ok(())) => ensure!(vw3.out == body, "body streaming encoder into a sink with short vectored writes (3 bytes per call) wrote {} instead of {}", hex_short(&vw3.out, 48), hex_short(&body, 48)),
                    other => viol!("body streaming encoder failed into a vectored sink: {:?}", other),
                }
                continue;
            }
            match F::body_encode(p, &mut vw) {
                Some(Ok(())) => ensure!(vw.out == body, "body streaming encoder into a sink with short vectored writes wrote {} instead of {}", hex_short(&vw.out, 48), hex_short(&body, 48)),
                other => viol!("body streaming encoder failed into a vectored sink: {:?}", other),
            }
        }
        // a sink that is interrupted (ErrorKind::Interrupted: "try again") before every second write, plain and vectored
        if body.len() <= 70_000 {
            for vectored in [false, true] {
                let st: Vec<WStep> = (0..body.len() + 8).map(|i| if i % 2 == 0 { WStep::Interrupt } else { WStep::Accept(1 + (i * 5) % 11) }).collect();
                let mut iw = ScriptedWriter::new(&st, body.len());
                iw.vectored = vectored;
                iw.one_byte = true;
                match F::body_encode(p, &mut iw) {
                    Some(Ok(())) => ensure!(iw.out == body, "body streaming encoder into a sink that is interrupted every other call wrote {} instead of {}", hex_short(&iw.out, 48), hex_short(&body, 48)),
                    // handing the interruption on as an error claims nothing about the bytes written: acceptable
                    Some(Err(e)) if e.kind() == std::io::ErrorKind::Interrupted => {}
                    other => viol!("body streaming encoder on a sink that reports ErrorKind::Interrupted every other call: {:?}", other),
                }
            }
            ctx.label("interrupted-sinks");
        }
        ctx.label("vectored-sinks");
        ctx.label("has-body-struct");
    } else {
        ctx.label("no-body-struct");
    }
    c01::classify::<F>(p, &bytes, ctx);
    if bytes.len() > 4 && (partial || pending) {
        ctx.nontrivial(fnv(&bytes) ^ fnv(format!("{:?}", steps).as_bytes()));
        if partial {
            ctx.label("partial-writes");
        }
        if pending {
            ctx.label("sink-pending-scripted");
        }
        ctx.sample(|| format!("{} {} ({} bytes) under sink script {:?}", F::FAM.name(), fam::render(p), bytes.len(), steps));
    }
    Ok(())
}

fn case<F: Family>(input: &Input, ctx: &mut Ctx) -> CaseResult {
    let mut t = Tape::new(input.tape());
    let cfg = crate::gen::GenCfg::MEDIUM;
    let p = F::gen(&mut t, &cfg).map_err(|e| Violation::new(e.0))?;
    entry_points::<F>(&p, &mut t, ctx)
}

fn case_typed<F: Family>(input: &Input, ctx: &mut Ctx) -> CaseResult {
    let mut t = Tape::new(input.tape());
    let typ = t.pick(F::NTYPES);
    let p = F::gen_of_type(&mut t, &crate::gen::GenCfg::SMALL, typ).map_err(|e| Violation::new(e.0))?;
    entry_points::<F>(&p, &mut t, ctx)
}

/// boundary-size constructions of sized.rs through every encoder entry point
fn case_sized<F: Family>(input: &Input, ctx: &mut Ctx) -> CaseResult {
    let seed: Vec<u16> = input.nums().iter().map(|x| (*x as u16).wrapping_mul(40_503)).collect();
    let mut t = Tape::new(&seed);
    match crate::sized::from_input::<F>(input, ctx) {
        Some(p) => entry_points::<F>(&p, &mut t, ctx),
        None => Ok(()),
    }
}

/// Histories of encoder invocations on one thread: complete async encodes under random sink
/// scripts, blocking encodes, and async encodes that are abandoned (future dropped) while the
/// sink is Pending after a partial write. Every completed invocation must emit exactly encode().
fn history<F: Family>(input: &Input, ctx: &mut Ctx) -> CaseResult {
    let mut t = Tape::new(input.tape());
    let n = 2 + t.pick(5);
    let mut abandoned = 0;
    let mut after_abandon = false;
    let mut prev: Option<F::Packet> = None;
    for i in 0..n {
        let cfg = if t.chance(1, 8) { crate::gen::GenCfg::MEDIUM } else { crate::gen::GenCfg::SMALL };
        // PUBLISH more often: it is the hot path of real users
        let mut p = if t.flag() { F::gen_of_type(&mut t, &cfg, 2) } else { F::gen(&mut t, &cfg) }.map_err(|e| Violation::new(e.0))?;
        // one time in three the packet is *derived* from the previous one (a clone that shares its allocations, with one
        // thing changed): the next delivery of the same message to another subscriber, a retransmission, ...
        if let (Some(q), true) = (&prev, t.chance(1, 3)) {
            if let Some(d) = F::derive(q, &mut t) {
                p = d;
                ctx.label("derived-from-previous-packet");
            }
        }
        prev = Some(p.clone());
        let enc = match F::encode(&p) {
            Ok(b) => b.as_ref().to_vec(),
            Err(e) => viol!("encode of a valid packet failed: {:?}", e),
        };
        let op = if i + 1 == n { 0 } else { t.pick(5) };
        match op {
            4 => {
                // a connection: this packet, a DISCONNECT (half of the time) and one or two more packets written one after
                // the other into the *same* sink - encoding a packet leaves the sink as it found it, so the sink holds
                // the concatenation of the encodings and every call succeeds
                let mut seq: Vec<F::Packet> = vec![p.clone()];
                if t.flag() {
                    seq.push(F::gen_of_type(&mut t, &cfg, F::NTYPES - if F::FAM == crate::model::Fam::V5 { 2 } else { 1 }).map_err(|e| Violation::new(e.0))?);
                }
                for _ in 0..1 + t.pick(2) {
                    seq.push(F::gen(&mut t, &cfg).map_err(|e| Violation::new(e.0))?);
                }
                let mut want: Vec<u8> = Vec::new();
                let steps = gen_wsteps(&mut t, 64);
                let mut w = ScriptedWriter::new(&steps, 1 << 20);
                for (k, q) in seq.iter().enumerate() {
                    match F::encode(q) {
                        Ok(b) => want.extend_from_slice(b.as_ref()),
                        Err(e) => viol!("encode of a valid packet failed: {:?}", e),
                    }
                    let (r, _) = sio::drive(F::encode_async(q, &mut w), want.len() + steps.len() + 64);
                    if let Err(e) = r {
                        viol!("packet {} of {} written into one sink ({}): encode_async failed with {:?} although the sink itself never fails (the sink was shut down {} time(s) by earlier calls)", k + 1, seq.len(), fam::render(q).chars().take(60).collect::<String>(), e, w.shutdowns);
                    }
                }
                ensure!(w.out == want, "{} packets written one after the other into one sink: the sink holds {} bytes, the encodings add up to {}", seq.len(), w.out.len(), want.len());
                ensure!(w.shutdowns == 0, "encode_async shut the caller's sink down ({} time(s)) while writing {} packets", w.shutdowns, seq.len());
                ctx.label("connection-into-one-sink");
            }
            3 => {
                // two encodes in flight on this thread: A is parked on a sink that is not ready after k bytes; B (another
                // packet, its own sink) is started, parked as well, A is completed, then B. Each sink receives its own
                // packet's encoding.
                let p2 = if t.flag() { F::gen_of_type(&mut t, &cfg, 2) } else { F::gen(&mut t, &cfg) }.map_err(|e| Violation::new(e.0))?;
                let p2 = if t.chance(1, 3) { F::derive(&p, &mut t).unwrap_or(p2) } else { p2 };
                let enc2 = match F::encode(&p2) {
                    Ok(b) => b.as_ref().to_vec(),
                    Err(e) => viol!("encode of a valid packet failed: {:?}", e),
                };
                let script = |k: usize| -> Vec<WStep> {
                    let mut v = Vec::new();
                    if k > 0 {
                        v.push(WStep::Accept(k));
                    }
                    v.push(WStep::Pending);
                    v
                };
                let (ka, kb) = (t.pick(enc.len()), t.pick(enc2.len()));
                let (sa, sb) = (script(ka), script(kb));
                let mut wa = ScriptedWriter::new(&sa, enc.len() + 16);
                let mut wb = ScriptedWriter::new(&sb, enc2.len() + 16);
                let (ra, rb, parked_both);
                {
                    let mut fa = Box::pin(F::encode_async(&p, &mut wa));
                    let first_a = sio::poll_n(fa.as_mut(), 1);
                    let mut fb = Box::pin(F::encode_async(&p2, &mut wb));
                    let first_b = sio::poll_n(fb.as_mut(), 1);
                    // a blocking encode of either packet while both are parked
                    for (q, e) in [(&p, &enc), (&p2, &enc2)] {
                        match F::encode(q) {
                            Ok(b) => ensure!(b.as_ref() == &e[..], "blocking encode emitted different bytes while two async encodes were parked on this thread; packet {}", fam::render(q)),
                            Err(e) => viol!("blocking encode failed while two async encodes were parked: {:?}", e),
                        }
                    }
                    parked_both = first_a.is_none() && first_b.is_none();
                    ra = match first_a {
                        Some(r) => r,
                        None => sio::drive(fa.as_mut(), enc.len() + 16).0,
                    };
                    rb = match first_b {
                        Some(r) => r,
                        None => sio::drive(fb.as_mut(), enc2.len() + 16).0,
                    };
                }
                if let Err(e) = &ra {
                    viol!("encode_async (first of two in flight on one thread) failed: {:?}", e);
                }
                if let Err(e) = &rb {
                    viol!("encode_async (second of two in flight on one thread) failed: {:?}", e);
                }
                ensure!(
                    wa.out == enc && wb.out == enc2,
                    "two async encodes in flight on one thread (A parked after {} bytes, then B started and parked after {} bytes, A completed, B completed): sink A received {} ({} bytes) for {} ({} bytes), sink B received {} ({} bytes) for {} ({} bytes)",
                    ka, kb, hex_short(&wa.out, 40), wa.out.len(), hex_short(&enc, 40), enc.len(), hex_short(&wb.out, 40), wb.out.len(), hex_short(&enc2, 40), enc2.len()
                );
                if parked_both {
                    ctx.label("two-encodes-in-flight");
                }
            }
            2 => {
                // abandon: accept k bytes (possibly 0), then Pending for as long as we poll
                let k = t.pick(enc.len() + 1);
                let mut steps: Vec<WStep> = Vec::new();
                if k > 0 {
                    steps.push(WStep::Accept(k));
                }
                for _ in 0..8 {
                    steps.push(WStep::Pending);
                }
                let mut w = ScriptedWriter::new(&steps, enc.len());
                let polls = 1 + t.pick(3);
                let r = sio::poll_n(F::encode_async(&p, &mut w), polls);
                if let Some(Err(e)) = &r {
                    viol!("encode_async failed on a sink that is merely not ready: {:?}", e);
                }
                ensure!(enc.starts_with(&w.out), "abandoned encode_async wrote {} which is not a prefix of {}", hex_short(&w.out, 32), hex_short(&enc, 32));
                if r.is_none() {
                    abandoned += 1;
                    after_abandon = true;
                    ctx.label("abandoned-while-pending");
                }
            }
            1 => {
                // blocking encoder in between
                match F::encode(&p) {
                    Ok(b) => ensure!(b.as_ref() == &enc[..], "blocking encoder emitted different bytes on a repeated invocation (operation {} of the history)", i + 1),
                    Err(e) => viol!("repeated blocking encode failed: {:?}", e),
                }
            }
            _ => {
                let steps = gen_wsteps(&mut t, enc.len());
                match async_into::<F>(&p, &steps, false, enc.len()) {
                    Ok((out, _)) => {
                        ensure!(
                            out == enc,
                            "operation {} of an encoder history ({} earlier invocations were abandoned while the sink was Pending): encode_async emitted {} ({} bytes) instead of {} ({} bytes); packet {}",
                            i + 1,
                            abandoned,
                            hex_short(&out, 40),
                            out.len(),
                            hex_short(&enc, 40),
                            enc.len(),
                            fam::render(&p)
                        );
                        if after_abandon {
                            ctx.label("complete-after-abandon");
                        }
                    }
                    Err(e) => viol!("encode_async failed in a history: {}", e),
                }
            }
        }
    }
    if abandoned > 0 && ctx.nontrivial(fnv(format!("{:?}", input.tape()).as_bytes())) {
        ctx.sample(|| format!("{} history of {} encoder invocations, {} abandoned while the sink was Pending", F::FAM.name(), n, abandoned));
    }
    Ok(())
}

/// An async encode that starts on one OS thread and is finished on another (a work-stealing runtime moves a task while
/// its sink is not ready). Both threads are fresh and the second one has just encoded another packet itself, so whatever
/// per-thread bookkeeping the encoder keeps is in the same state on both. The sink receives the packet's own encoding.
macro_rules! migrate_impl {
    ($name:ident, $fam:ty, $pkt:ty) => {
        fn $name(input: &Input, ctx: &mut Ctx) -> CaseResult {
            let mut t = Tape::new(input.tape());
            let cfg = crate::gen::GenCfg::SMALL;
            let p: $pkt = <$fam>::gen_of_type(&mut t, &cfg, 2).map_err(|e| Violation::new(e.0))?;
            let q: $pkt = <$fam>::gen(&mut t, &cfg).map_err(|e| Violation::new(e.0))?;
            let enc = p.encode().map_err(|e| Violation::new(format!("{:?}", e)))?.as_ref().to_vec();
            let encq = q.encode().map_err(|e| Violation::new(format!("{:?}", e)))?.as_ref().to_vec();
            if enc.len() < 3 {
                return Ok(());
            }
            let k = 1 + t.pick(enc.len() - 2);
            let steps = [WStep::Accept(k), WStep::Pending];
            let mut w = ScriptedWriter::new(&steps, enc.len() + 16);
            let outcome: Result<(), String> = std::thread::scope(|sc| {
                // thread 1: start the encode, park it on the sink that is not ready, hand the future over
                let (tx, rx) = std::sync::mpsc::channel();
                let pref = &p;
                let wref = &mut w;
                let h1 = sc.spawn(move || {
                    let mut fut = Box::pin(pref.encode_async(wref));
                    let first = sio::poll_n(fut.as_mut(), 1);
                    let _ = tx.send((fut, first.is_some()));
                });
                let qref = &q;
                let encq_ref = &encq;
                let h2 = sc.spawn(move || -> Result<(), String> {
                    // thread 2: one complete encode of its own first, then the other thread's future
                    let mut own: Vec<u8> = Vec::new();
                    let (r, _) = sio::drive(qref.encode_async(&mut own), 8);
                    if r.is_err() || own != *encq_ref {
                        return Err("the second thread's own encode_async into a Vec did not produce encode()".to_string());
                    }
                    let (mut fut, done) = rx.recv().map_err(|_| "no future arrived".to_string())?;
                    if !done {
                        let (r, _) = sio::drive(fut.as_mut(), 64);
                        if let Err(e) = r {
                            return Err(format!("encode_async resumed on another thread failed: {:?}", e));
                        }
                    }
                    Ok(())
                });
                let _ = h1.join();
                h2.join().unwrap_or_else(|_| Err("a thread panicked while an encode moved between threads".to_string()))
            });
            outcome.map_err(Violation::new)?;
            ensure!(w.out == enc, "encode_async started on one thread (sink took {} bytes, then was not ready) and finished on another that had just encoded {}: the sink holds {} instead of {}", k, hex_short(&encq, 24), hex_short(&w.out, 48), hex_short(&enc, 48));
            ctx.label("encode-finished-on-another-thread");
            ctx.count_distinct(1);
            Ok(())
        }
    };
}
migrate_impl!(migrate_v3, V3, mqtt_proto::v3::Packet);
migrate_impl!(migrate_v5, V5, mqtt_proto::v5::Packet);
pub const SUB_M3: Sub = Sub { name: "c09.migrating.v3", f: migrate_v3 };
pub const SUB_M5: Sub = Sub { name: "c09.migrating.v5", f: migrate_v5 };

/// Packet values that came out of a decoder (re-spelled, leniently framed, mutated frames included) go through every
/// encoder entry point like constructed ones: whatever spelling a value was decoded from, all entry points agree on it.
fn case_decoded<F: Family>(input: &Input, ctx: &mut Ctx) -> CaseResult {
    let mut t = Tape::new(input.tape());
    let cfg = crate::gen::cfg_mix(&mut t, ctx.thorough);
    let (b, origin) = crate::corpus::gen_input::<F>(&mut t, &cfg);
    let q = match F::decode(&b) {
        Ok(Some(q)) => Some(q),
        _ => fam::dec_poll::<F>(&b).result.ok().map(|o| o.pkt),
    };
    match q {
        Some(q) => {
            entry_points::<F>(&q, &mut t, ctx).map_err(|v| Violation::new(format!("packet decoded from {} [{}]: {}", hex_short(&b, 96), origin, v.msg)))?;
            ctx.label("decoded-value-encoded");
            ctx.label(&format!("decoded-from:{}", origin));
        }
        None => ctx.label("not-accepted"),
    }
    Ok(())
}

pub const SUB_D3: Sub = Sub { name: "c09.decoded-values.v3", f: case_decoded::<V3> };
pub const SUB_D5: Sub = Sub { name: "c09.decoded-values.v5", f: case_decoded::<V5> };
pub const SUB_H3: Sub = Sub { name: "c09.history.v3", f: history::<V3> };
pub const SUB_H5: Sub = Sub { name: "c09.history.v5", f: history::<V5> };
pub const SUB_S3: Sub = Sub { name: "c09.sized.v3", f: case_sized::<V3> };
pub const SUB_S5: Sub = Sub { name: "c09.sized.v5", f: case_sized::<V5> };
pub const SUB_V3: Sub = Sub { name: "c09.entry.v3", f: case::<V3> };
pub const SUB_V5: Sub = Sub { name: "c09.entry.v5", f: case::<V5> };
pub const SUB_T3: Sub = Sub { name: "c09.typed.v3", f: case_typed::<V3> };
pub const SUB_T5: Sub = Sub { name: "c09.typed.v5", f: case_typed::<V5> };

pub fn subs() -> Vec<Sub> {
    vec![SUB_V3, SUB_V5, SUB_T3, SUB_T5, SUB_S3, SUB_S5, SUB_H3, SUB_H5, SUB_D3, SUB_D5, SUB_M3, SUB_M5]
}

pub fn run(env: &mut Env) -> RunResult {
    let n = env.tier.sel(12_000, 600_000);
    env.run_tapes(SUB_V3, n, 140)?;
    env.run_tapes(SUB_V5, n * 2, 240)?;
    env.run_tapes(SUB_T3, n / 2, 140)?;
    env.run_tapes(SUB_T5, n, 240)?;
    env.run_tapes(SUB_M3, env.tier.sel(40, 400), 200)?;
    env.run_tapes(SUB_M5, env.tier.sel(40, 400), 300)?;
    env.require("c09.migrating.v3", "encode-finished-on-another-thread");
    env.require("c09.migrating.v5", "encode-finished-on-another-thread");
    env.run_tapes(SUB_D3, n / 2, 260)?;
    env.run_tapes(SUB_D5, n, 360)?;
    for s in ["c09.decoded-values.v3", "c09.decoded-values.v5"] {
        env.require(s, "decoded-value-encoded");
        env.require(s, "decoded-from:respelled");
    }
    env.run_tapes(SUB_H3, n / 2, 400)?;
    env.run_tapes(SUB_H5, n / 2, 500)?;
    env.require("c09.history.v3", "connection-into-one-sink");
    env.require("c09.history.v5", "connection-into-one-sink");
    env.require("c09.history.v3", "two-encodes-in-flight");
    env.require("c09.history.v5", "two-encodes-in-flight");
    env.require("c09.history.v3", "complete-after-abandon");
    env.require("c09.history.v5", "complete-after-abandon");
    let s3 = crate::sized::inputs(crate::model::Fam::V3, env.thorough());
    let n3 = s3.len() as u64;
    env.run_enum(SUB_S3, n3, false, move |i| s3[i as usize].clone())?;
    let s5 = crate::sized::inputs(crate::model::Fam::V5, env.thorough());
    let n5 = s5.len() as u64;
    env.run_enum(SUB_S5, n5, false, move |i| s5[i as usize].clone())?;
    env.require("c09.sized.v5", "sized:2MiB-boundary");
    env.require("c09.sized.v3", "sized:2MiB-boundary");
    for s in ["c09.entry.v3", "c09.entry.v5"] {
        env.require(s, "partial-writes");
        env.require(s, "sink-pending-observed");
        env.require(s, "has-body-struct");
    }
    env.require("c09.typed.v3", "fixed2");
    env.require("c09.typed.v3", "fixed4");
    env.require("c09.typed.v5", "fixed2");
    Ok(())
}
