//! C14 — transport failures are surfaced as I/O errors of the same kind (fault enumeration).

use crate::checks::c07;
use crate::fam::{self, Family, V3, V5};
use crate::gen::GenCfg;
use crate::model::{self, fnv, hex_short};
use crate::run::{CaseResult, Ctx, Env, Input, RunResult, Sub, Violation};
use crate::sio::{self, ScriptedReader, ScriptedWriter, Step, WStep};
use crate::tape::Tape;
use crate::{ensure, viol};
use mqtt_proto::{v5, Error};
use std::io::{self, ErrorKind};

/// Every `io::ErrorKind` this toolchain knows except the two that mean "retry" by convention (Interrupted, WouldBlock):
/// the long-established ones first, then the ones std added later (HostUnreachable, NetworkDown, StorageFull, ...), then
/// whatever kind the operating system's error numbers 1..=200 map to that is not in the list yet (that includes std's
/// catch-all for numbers it does not classify). UnexpectedEof is included: a transport may report a torn connection
/// that way, and the decoders must hand it on as that kind.
pub fn kinds() -> &'static [ErrorKind] {
    static K: std::sync::OnceLock<Vec<ErrorKind>> = std::sync::OnceLock::new();
    K.get_or_init(|| {
        let mut v = vec![
            ErrorKind::ConnectionReset,
            ErrorKind::BrokenPipe,
            ErrorKind::TimedOut,
            ErrorKind::PermissionDenied,
            ErrorKind::Other,
            ErrorKind::UnexpectedEof,
            ErrorKind::ConnectionAborted,
            ErrorKind::InvalidData,
            ErrorKind::NotConnected,
            ErrorKind::InvalidInput,
            ErrorKind::WriteZero,
            ErrorKind::OutOfMemory,
            ErrorKind::Unsupported,
            ErrorKind::ConnectionRefused,
            ErrorKind::NotFound,
            ErrorKind::AddrInUse,
            ErrorKind::AlreadyExists,
            ErrorKind::HostUnreachable,
            ErrorKind::NetworkUnreachable,
            ErrorKind::NetworkDown,
            ErrorKind::AddrNotAvailable,
            ErrorKind::StorageFull,
            ErrorKind::ResourceBusy,
            ErrorKind::Deadlock,
            ErrorKind::NotSeekable,
            ErrorKind::FileTooLarge,
            ErrorKind::ReadOnlyFilesystem,
            ErrorKind::StaleNetworkFileHandle,
            ErrorKind::ArgumentListTooLong,
            ErrorKind::TooManyLinks,
            ErrorKind::IsADirectory,
            ErrorKind::NotADirectory,
            ErrorKind::DirectoryNotEmpty,
            ErrorKind::ExecutableFileBusy,
        ];
        for errno in 1..=200 {
            let k = io::Error::from_raw_os_error(errno).kind();
            if !v.contains(&k) && k != ErrorKind::Interrupted && k != ErrorKind::WouldBlock {
                v.push(k);
            }
        }
        v
    })
}

/// kinds for one-shot failures: the retryable ones first, then a few others
pub const ONE_SHOT_KINDS: &[ErrorKind] = &[ErrorKind::Interrupted, ErrorKind::WouldBlock, ErrorKind::TimedOut, ErrorKind::Interrupted, ErrorKind::ConnectionReset, ErrorKind::Other, ErrorKind::UnexpectedEof];

pub const SHAPE_LABELS: [&str; sio::ERR_SHAPES as usize] =
    ["error-shape:message", "error-shape:bare-kind", "error-shape:nested-io-error", "error-shape:source-chain", "error-shape:os-code", "error-shape:boxed-or-empty", "error-shape:codec-error-payload", "error-shape:codec-v5-error-payload", "error-shape:nested-os-error-of-another-kind", "error-shape:message-quoting-an-os-error"];

fn io_kind<F: Family>(e: &F::Error) -> Option<ErrorKind> {
    match F::common(e) {
        Some(Error::IoError(k, _)) => Some(*k),
        _ => None,
    }
}

fn faults<F: Family>(p: &F::Packet, t: &mut Tape, ctx: &mut Ctx) -> CaseResult {
    let enc = match F::encode(p) {
        Ok(b) => b.as_ref().to_vec(),
        Err(e) => viol!("encode of a valid packet failed: {:?}; packet {}", e, fam::render(p)),
    };
    let len = enc.len();
    let spans = c07::spans_of::<F>(p, &enc);
    let mut pos = c07::positions(len, &spans, t, 260, 16);
    if len > 200_000 {
        // large packets: field boundaries and a handful of positions spread over the whole encoding
        pos.retain(|k| *k < 64 || *k + 8 > len);
        for i in 1..10 {
            pos.push(len / 10 * i + t.pick(1000));
        }
        pos.push((1 << 20) + t.pick(4096));
        pos.retain(|k| *k < len);
        pos.sort_unstable();
        pos.dedup();
    }
    pos.push(len);
    let chunky: Vec<Step> = (0..t.pick(12)).map(|_| if t.flag() { Step::Pending } else { Step::Chunk(1 + t.pick(7)) }).collect();
    let mut inside = 0u64;
    // the payload shape of the injected error rotates independently of position and kind (17 kinds, 6 shapes)
    let mut shape_ctr = t.pick(sio::ERR_SHAPES as usize);
    for (i, &k) in pos.iter().enumerate() {
        let kind = kinds()[(i + k) % kinds().len()];
        let kinds: &[ErrorKind] = if i % 40 == 0 { kinds() } else { std::slice::from_ref(&kind) };
        for &kind in kinds {
            for delivery in 0..2 {
                if delivery == 1 && len > 200_000 && i % 4 != 0 {
                    continue;
                }
                let steps: &[Step] = if delivery == 0 { &[] } else { &chunky };
                shape_ctr += 1;
                let shape = (shape_ctr % sio::ERR_SHAPES as usize) as u8;
                // async decoder
                let mut rd = ScriptedReader::new(&enc, steps).with_fault(k, kind).with_fault_shape(shape);
                let (res, _) = sio::drive(F::decode_async(&mut rd), len + steps.len() + 8);
                // poll decoder
                let run = fam::dec_poll_styled::<F>(&enc, steps, (k as u64).wrapping_mul(0x9E37), Some((k, kind)), false, shape << 4);
                if k < len {
                    // an UnexpectedEof reported by the transport is still "the same kind", which is_eof() recognises
                    let same_kind = |e: &F::Error| io_kind::<F>(e) == Some(kind) && (kind != ErrorKind::UnexpectedEof || F::is_eof(e));
                    match &res {
                        Err(e) if same_kind(e) => {}
                        other => viol!(
                            "async decoder with a {:?} read error (payload shape {}: {:?}) injected at byte {} of {} returned {:?}; packet {}",
                            kind,
                            shape,
                            sio::make_err(kind, shape),
                            k,
                            len,
                            other.as_ref().map(|q| fam::render(q)),
                            fam::render(p)
                        ),
                    }
                    match &run.result {
                        Err(e) if same_kind(e) => {}
                        other => viol!(
                            "poll decoder with a {:?} read error (payload shape {}: {:?}) injected at byte {} of {} returned {:?}; packet {}",
                            kind,
                            shape,
                            sio::make_err(kind, shape),
                            k,
                            len,
                            other.as_ref().map(|q| fam::render(&q.pkt)),
                            fam::render(p)
                        ),
                    }
                    ctx.label(SHAPE_LABELS[shape as usize]);
                } else {
                    // fault right after the packet: the packet is returned and no further read is issued
                    match &res {
                        Ok(q) if q == p => {}
                        other => viol!("async decoder with a read error waiting right after the packet returned {:?}", other.as_ref().map(|q| fam::render(q))),
                    }
                    match &run.result {
                        Ok(ok) if ok.pkt == *p && ok.total == len => {}
                        other => viol!("poll decoder with a read error waiting right after the packet returned {:?}", other.as_ref().map(|q| fam::render(&q.pkt))),
                    }
                }
            }
        }
        // a one-shot failure: the transport fails once at this position (nothing consumed) and would deliver the rest
        // afterwards. Here every kind is used, also Interrupted and WouldBlock: whether to try again is the caller's
        // decision, so the decoders have to hand the error on; the poll decoder, polled again, then finishes the packet
        if k < len && (i % 4 == 0 || len <= 64) {
            let kind = ONE_SHOT_KINDS[(i / 4 + k) % ONE_SHOT_KINDS.len()];
            shape_ctr += 1;
            let shape = (shape_ctr % sio::ERR_SHAPES as usize) as u8;
            let steps: &[Step] = if i % 8 == 0 { &chunky } else { &[] };
            let run = fam::dec_poll_styled::<F>(&enc, steps, 0, Some((k, kind)), false, (shape << 4) | 8);
            if let Some(got) = &run.transient_not_surfaced {
                viol!("poll decoder: the transport failed once with {:?} at byte {} of {} and the decoder answered {} instead of that I/O error; packet {}", kind, k, len, got, fam::render(p));
            }
            match &run.result {
                Ok(ok) if ok.pkt == *p && ok.total == len && run.resumed_after_error == 1 => {}
                other => viol!("poll decoder polled again after a one-shot {:?} failure at byte {} of {} returned {:?} ({} resumptions); packet {}", kind, k, len, other.as_ref().map(|q| fam::render(&q.pkt)), run.resumed_after_error, fam::render(p)),
            }
            let mut rd = ScriptedReader::new(&enc, steps).with_fault_shape(shape);
            rd.fail_once_at = Some((k, kind));
            let (res, _) = sio::drive(F::decode_async(&mut rd), len + steps.len() + 8);
            ensure!(rd.pos <= k, "async decoder consumed {} bytes although the transport failed (once, {:?}) at byte {}", rd.pos, kind, k);
            match &res {
                Err(e) if io_kind::<F>(e) == Some(kind) => {}
                other => viol!("async decoder: the transport failed once with {:?} at byte {} of {} and the decoder returned {:?}; packet {}", kind, k, len, other.as_ref().map(|q| fam::render(q)), fam::render(p)),
            }
            ctx.label("one-shot-failure");
            if kind == ErrorKind::Interrupted || kind == ErrorKind::WouldBlock {
                ctx.label("one-shot-failure:retryable-kind");
            }
        }
        // the transport fails at that position and has nothing more afterwards (a reset connection: one error, then the
        // end of the stream): the error the decoders hand on is the transport's, not "end of stream"
        if k < len {
            let all_kinds = crate::checks::c14::kinds();
            let kind = all_kinds[(i + 2 * k) % all_kinds.len()];
            if kind != ErrorKind::UnexpectedEof {
                let mut rd = ScriptedReader::new(&enc[..k], &[]).with_fault_shape((shape_ctr % sio::ERR_SHAPES as usize) as u8);
                rd.fail_once_at = Some((k, kind));
                let mut state: mqtt_proto::GenericPollPacketState<F::Header> = Default::default();
                let (res, _) = sio::drive(mqtt_proto::GenericPollPacket::new(&mut state, &mut rd), k + 16);
                match &res {
                    Err(e) if io_kind::<F>(e) == Some(kind) => {}
                    other => viol!("poll decoder: the transport failed with {:?} at byte {} of {} and reports the end of the stream from then on; the decoder returned {:?}; packet {}", kind, k, len, other.as_ref().map(|q| fam::render(&q.2)), fam::render(p)),
                }
                let mut rd = ScriptedReader::new(&enc[..k], &[]);
                rd.fail_once_at = Some((k, kind));
                let (res, _) = sio::drive(F::decode_async(&mut rd), k + 16);
                match &res {
                    Err(e) if io_kind::<F>(e) == Some(kind) => {}
                    other => viol!("async decoder: the transport failed with {:?} at byte {} of {} and reports the end of the stream from then on; the decoder returned {:?}; packet {}", kind, k, len, other.as_ref().map(|q| fam::render(q)), fam::render(p)),
                }
                ctx.label("failure-then-end-of-stream");
            }
        }
        // end-of-stream at that position
        if k < len {
            let (r, _) = fam::dec_async::<F>(&enc[..k]);
            ensure!(matches!(&r, Err(e) if F::is_eof(e)), "async decoder with end-of-stream at byte {} of {} returned {:?}", k, len, r.map(|q| fam::render(&q)));
            let run = fam::dec_poll::<F>(&enc[..k]);
            ensure!(matches!(&run.result, Err(e) if F::is_eof(e)), "poll decoder with end-of-stream at byte {} of {} returned {:?}", k, len, run.result.map(|q| fam::render(&q.pkt)));
        }

        // async encoder: write error and zero-length write at position k
        if k < len {
            let wsteps: Vec<WStep> = (0..t.pick(6)).map(|_| if t.flag() { WStep::Pending } else { WStep::Accept(1 + t.pick(9)) }).collect();
            for zero in [false, true] {
                let mut w = ScriptedWriter::new(&wsteps, len);
                shape_ctr += 1;
                w.fault_shape = (shape_ctr % sio::ERR_SHAPES as usize) as u8;
                // every other time the sink's flush fails too once a write has failed, with another kind: the error the
                // caller gets is still that of the write
                if shape_ctr % 2 == 0 {
                    w.flush_fails_after_fault = Some(if kind == ErrorKind::BrokenPipe { ErrorKind::NotConnected } else { ErrorKind::BrokenPipe });
                    ctx.label("flush-fails-after-write-fault");
                }
                let want = if zero {
                    w.zero_at = Some(k);
                    ErrorKind::WriteZero
                } else {
                    w.fault = Some((k, kind));
                    kind
                };
                // every third time the sink recovers after the one failed call: the encoder still has to stop there
                w.fault_is_transient = shape_ctr % 3 == 0;
                let (res, _) = sio::drive(F::encode_async(p, &mut w), len + wsteps.len() + 16);
                match &res {
                    Err(e) if io_kind::<F>(e) == Some(want) => {}
                    other => viol!(
                        "async encoder with {} at byte {} of {} returned {:?}; packet {}",
                        if zero { "a zero-length write".to_string() } else { format!("a {:?} write error", kind) },
                        k,
                        len,
                        other,
                        fam::render(p)
                    ),
                }
                ensure!(w.out.len() <= k && enc.starts_with(&w.out), "async encoder wrote {} before failing at byte {}: not a prefix of the encoding {}", hex_short(&w.out, 32), k, hex_short(&enc, 32));
            }
            inside += (k > 0) as u64;
        }
    }

    // streaming body encoder into a failing io::Write
    if let Some(blen) = F::body_encode_len(p) {
        let mut body = Vec::new();
        let _ = F::body_encode(p, &mut body);
        let bpos = c07::positions(blen.max(1), &[], t, 200, 24);
        for (i, &k) in bpos.iter().enumerate() {
            if k >= blen {
                continue;
            }
            let kind = kinds()[(i + k) % kinds().len()];
            for (zero, transient) in [(false, false), (true, false), (false, true), (true, true)] {
                let ws = [WStep::Accept(3), WStep::Accept(1)];
                let mut w = ScriptedWriter::new(&ws, blen);
                // (transient: the sink fails that one call and accepts writes again - nothing may be written behind the hole)
                w.fault_is_transient = transient;
                if transient {
                    ctx.label("streaming-encoder-transient-faults");
                }
                shape_ctr += 1;
                w.fault_shape = (shape_ctr % sio::ERR_SHAPES as usize) as u8;
                if shape_ctr % 2 == 0 {
                    w.flush_fails_after_fault = Some(if kind == ErrorKind::BrokenPipe { ErrorKind::NotConnected } else { ErrorKind::BrokenPipe });
                }
                let want = if zero {
                    w.zero_at = Some(k);
                    ErrorKind::WriteZero
                } else {
                    w.fault = Some((k, kind));
                    kind
                };
                match F::body_encode(p, &mut w) {
                    Some(Err(e)) if e.kind() == want => {}
                    other => viol!("streaming body encoder with a failing sink ({:?}) at byte {} of {} returned {:?}", want, k, blen, other),
                }
                ensure!(w.out.len() <= k && body.starts_with(&w.out), "streaming body encoder into a sink that failed{} at byte {} of {} ({:?}): the sink holds {} ({} bytes), which is not a prefix of the body {} cut at the failure", if transient { " once (and would have accepted further writes)" } else { "" }, k, blen, want, hex_short(&w.out, 48), w.out.len(), hex_short(&body, 48));
            }
        }
        ctx.label("streaming-encoder-faults");
    }
    ctx.more_evals(pos.len() as u64);
    ctx.label_n("fault-positions", pos.len() as u64);
    ctx.label_n("fault-strictly-inside-packet", inside);
    if !spans.is_empty() {
        for &k in &pos {
            if k < len {
                ctx.label(c07::kind_label(model::region_at(&spans, k).1));
            }
        }
    }
    if inside > 0 {
        ctx.nontrivial(fnv(&enc));
        ctx.sample(|| format!("{} {} ({} bytes): {} fault positions x kinds {:?} x (async, poll) + encoder faults", F::FAM.name(), fam::render(p), len, pos.len(), &kinds()[..6]));
    }
    Ok(())
}

fn case<F: Family>(input: &Input, ctx: &mut Ctx) -> CaseResult {
    let mut t = Tape::new(input.tape());
    let cfg = crate::gen::cfg_mix(&mut t, ctx.thorough);
    let p = F::gen(&mut t, &cfg).map_err(|e| Violation::new(e.0))?;
    faults::<F>(&p, &mut t, ctx)
}

fn case_typed<F: Family>(input: &Input, ctx: &mut Ctx) -> CaseResult {
    let mut t = Tape::new(input.tape());
    let typ = t.pick(F::NTYPES);
    let p = F::gen_of_type(&mut t, &GenCfg::SMALL, typ).map_err(|e| Violation::new(e.0))?;
    faults::<F>(&p, &mut t, ctx)
}

/// conversions between the codec's error types and std::io::Error
fn conversions(_input: &Input, ctx: &mut Ctx) -> CaseResult {
    // every kind of the fault-injection list plus the two retry kinds
    let mut kinds: Vec<ErrorKind> = kinds().to_vec();
    kinds.push(ErrorKind::Interrupted);
    kinds.push(ErrorKind::WouldBlock);
    for k in kinds {
        // every payload shape a transport may give the error (message, bare kind, nested io::Error of another
        // kind, source chain leading to another io::Error, OS code, boxed / empty message)
        for shape in 0..sio::ERR_SHAPES {
            let shown = format!("{:?}", sio::make_err(k, shape));
            let e: Error = sio::make_err(k, shape).into();
            ensure!(matches!(&e, Error::IoError(kk, _) if *kk == k), "From<io::Error> for Error maps {} (kind {:?}) to {:?}", shown, k, e);
            ensure!(e.is_eof() == (k == ErrorKind::UnexpectedEof), "Error::is_eof() is {} for {} (kind {:?})", e.is_eof(), shown, k);
            let back: io::Error = e.into();
            ensure!(back.kind() == k, "From<Error> for io::Error maps IoError({:?}) (from {}) to kind {:?}", k, shown, back.kind());
            let e5: v5::ErrorV5 = sio::make_err(k, shape).into();
            ensure!(matches!(&e5, v5::ErrorV5::Common(Error::IoError(kk, _)) if *kk == k), "From<io::Error> for ErrorV5 maps {} (kind {:?}) to {:?}", shown, k, e5);
            ensure!(e5.is_eof() == (k == ErrorKind::UnexpectedEof), "ErrorV5::is_eof() is {} for {} (kind {:?})", e5.is_eof(), shown, k);
            // the common error wrapped into the v5 error and unwrapped again keeps the kind as well
            let wrapped: v5::ErrorV5 = Error::from(sio::make_err(k, shape)).into();
            ensure!(matches!(&wrapped, v5::ErrorV5::Common(Error::IoError(kk, _)) if *kk == k), "From<Error> for ErrorV5 maps IoError({:?}) to {:?}", k, wrapped);
            ctx.count_distinct(1);
            ctx.label(SHAPE_LABELS[shape as usize]);
        }
    }
    let protocol = vec![
        Error::InvalidRemainingLength,
        Error::EmptySubscription,
        Error::ZeroPid,
        Error::InvalidQos(3),
        Error::InvalidConnectFlags(1),
        Error::InvalidConnackFlags(2),
        Error::InvalidConnectReturnCode(6),
        Error::InvalidProtocol("x".into(), 9),
        Error::UnexpectedProtocol(mqtt_proto::Protocol::V500),
        Error::InvalidHeader,
        Error::InvalidVarByteInt,
        Error::InvalidTopicName("+".into()),
        Error::InvalidTopicFilter("".into()),
        Error::InvalidString,
    ];
    for e in protocol {
        ensure!(!e.is_eof(), "{:?} is reported as EOF", e);
        let shown = format!("{:?}", e);
        let io: io::Error = e.into();
        ensure!(io.kind() == ErrorKind::InvalidData, "protocol error {} converts to io kind {:?} instead of InvalidData", shown, io.kind());
        ctx.count_distinct(1);
    }
    ctx.label("conversion-table");
    ctx.sample(|| "every listed io::ErrorKind through From<io::Error> for Error/ErrorV5 and back; every protocol error variant -> InvalidData".to_string());
    Ok(())
}

/// boundary-size constructions (sized.rs): faults and EOF inside large payloads / property sections
fn case_sized<F: Family>(input: &Input, ctx: &mut Ctx) -> CaseResult {
    let seed: Vec<u16> = input.nums().iter().map(|x| (*x as u16).wrapping_mul(40_503)).chain((0..40u16).map(|i| i.wrapping_mul(25_173).wrapping_add(13_849))).collect();
    let mut t = Tape::new(&seed);
    match crate::sized::from_input::<F>(input, ctx) {
        Some(p) => faults::<F>(&p, &mut t, ctx),
        None => Ok(()),
    }
}

pub const SUB_S3: Sub = Sub { name: "c14.sized.v3", f: case_sized::<V3> };
pub const SUB_S5: Sub = Sub { name: "c14.sized.v5", f: case_sized::<V5> };
pub const SUB_V3: Sub = Sub { name: "c14.faults.v3", f: case::<V3> };
pub const SUB_V5: Sub = Sub { name: "c14.faults.v5", f: case::<V5> };
pub const SUB_T3: Sub = Sub { name: "c14.typed.v3", f: case_typed::<V3> };
pub const SUB_T5: Sub = Sub { name: "c14.typed.v5", f: case_typed::<V5> };
pub const SUB_CONV: Sub = Sub { name: "c14.conversions", f: conversions };

pub fn subs() -> Vec<Sub> {
    vec![SUB_V3, SUB_V5, SUB_T3, SUB_T5, SUB_CONV, SUB_S3, SUB_S5]
}

pub fn run(env: &mut Env) -> RunResult {
    let n = env.tier.sel(2_500, 40_000);
    env.run_tapes(SUB_V3, n, 120)?;
    env.run_tapes(SUB_V5, n * 2, 220)?;
    env.run_tapes(SUB_T3, n, 120)?;
    env.run_tapes(SUB_T5, n, 220)?;
    env.run_inputs(SUB_CONV, &[Input::Nums(vec![0])])?;
    for s in ["c14.faults.v3", "c14.faults.v5", "c14.typed.v3", "c14.typed.v5"] {
        env.require(s, "one-shot-failure:retryable-kind");
        env.require(s, "flush-fails-after-write-fault");
        for l in SHAPE_LABELS {
            env.require(s, l);
        }
    }
    let lim = env.tier.sel(3_000_000u64, 21_000_000u64);
    for (sub, fam) in [(SUB_S3, model::Fam::V3), (SUB_S5, model::Fam::V5)] {
        let cs: Vec<Input> = crate::sized::cases(fam, env.thorough())
            .into_iter()
            .filter(|c| c[2] <= lim && (c[2] >= 16_000 || c[0] >= crate::sized::K_MANY) && !(c[0] == crate::sized::K_PROPS && c[2] >= 2_000_000 && !matches!(c[1], 1 | 2 | 13)))
            .filter(|c| c[0] < crate::sized::K_MANY || c[2] <= 1_000)
            .filter(|c| env.thorough() || c[2] < 100_000 || c[2] % 2 == 0)
            .map(|c| Input::Nums(c.to_vec()))
            .collect();
        let n = cs.len() as u64;
        env.run_enum(sub, n, false, move |i| cs[i as usize].clone())?;
    }
    env.require("c14.sized.v3", "sized:2MiB-boundary");
    env.require("c14.sized.v5", "sized:2MiB-boundary");
    for s in ["c14.faults.v3", "c14.faults.v5"] {
        env.require(s, "fault-strictly-inside-packet");
        env.require(s, "streaming-encoder-faults");
        env.require(s, "streaming-encoder-transient-faults");
        env.require(s, "cut:remaining-length");
        env.require(s, "cut:string-or-binary-data");
    }
    Ok(())
}
