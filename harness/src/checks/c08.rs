//! C08 — back-to-back packets on a stream are framed without loss or overlap.

use crate::checks::c01;
use crate::fam::{self, Family, V3, V5};
use crate::gen::GenCfg;
use crate::model::{fnv, hex_short};
use crate::refdec;
use crate::run::{CaseResult, Ctx, Env, Input, RunResult, Sub, Violation};
use crate::sio::{self, ScriptedReader, Step};
use crate::tape::Tape;
use crate::{ensure, viol};
use mqtt_proto::{GenericPollPacket, GenericPollPacketState};

pub fn gen_steps(t: &mut Tape, len: usize, max: usize) -> Vec<Step> {
    let n = t.pick(len.min(max) + 2);
    (0..n)
        .map(|_| match t.pick(5) {
            0 | 1 => Step::Pending,
            2 => Step::Chunk(1),
            3 => Step::Chunk(1 + t.pick(9)),
            _ => Step::Chunk(1 + t.pick(200)),
        })
        .collect()
}

// nums = [remaining length, wide?]: a body-less packet, a PUBLISH of exactly that remaining length and a
// small packet back to back (the 2 MiB header-width boundary in the middle of a stream)
thread_local! {
    /// set by `sized_sequence` for inputs whose second number is 1: some frames get a wider header than necessary
    static WIDE_HEADERS: std::cell::Cell<bool> = const { std::cell::Cell::new(false) };
}

fn sized_sequence<F: Family>(input: &Input, ctx: &mut Ctx) -> CaseResult {
    let wide = input.nums().get(1).copied() == Some(1);
    WIDE_HEADERS.with(|c| c.set(wide));
    let r = sized_sequence_inner::<F>(input, ctx);
    WIDE_HEADERS.with(|c| c.set(false));
    r
}

fn sized_sequence_inner<F: Family>(input: &Input, ctx: &mut Ctx) -> CaseResult {
    let rl = input.nums().first().copied().unwrap_or(4) as usize;
    let seed: Vec<u16> = vec![(rl as u16).wrapping_mul(31), 0x9000, 0x2000, 0xE000, 0x5000, 0xB000, 0x1000, 0xF000, 0x7000, 0x3000];
    let mut t = Tape::new(&seed);
    let mut e = Tape::new(&[]);
    let first = F::gen_of_type(&mut e, &GenCfg::SMALL, 11).map_err(|e| Violation::new(e.0))?;
    let last = F::gen_of_type(&mut e, &GenCfg::SMALL, 3).map_err(|e| Violation::new(e.0))?;
    let pkts = vec![first, c01::sized_publish::<F>(rl), last];
    ctx.label("sized-sequence");
    check_sequence::<F>(pkts, rl >= 2_097_152, &mut t, ctx)
}

fn sequence<F: Family>(input: &Input, ctx: &mut Ctx) -> CaseResult {
    let mut t = Tape::new(input.tape());
    let n = 1 + t.weighted(&[2, 5, 5, 4, 3, 2, 1, 1]);
    let mut pkts: Vec<F::Packet> = Vec::new();
    let mut big = false;
    for _ in 0..n {
        let p = if ctx.thorough && !big && t.chance(1, 400) {
            big = true;
            // a packet with a 4-byte remaining length in the middle of the stream
            c01::sized_publish::<F>([2_097_150usize, 2_097_151, 2_097_152, 2_097_153, 2_097_154, 2_097_155, 2_097_156, 2_098_000][t.pick(8)])
        } else {
            let cfg = if t.chance(1, 8) { GenCfg::MEDIUM } else { GenCfg::SMALL };
            F::gen(&mut t, &cfg).map_err(|e| Violation::new(e.0))?
        };
        pkts.push(p);
    }
    check_sequence::<F>(pkts, big, &mut t, ctx)
}

fn check_sequence<F: Family>(pkts: Vec<F::Packet>, big: bool, t: &mut Tape, ctx: &mut Ctx) -> CaseResult {
    check_sequence_spelled::<F>(pkts, big, false, t, ctx)
}

/// a sequence in which every packet is written in another spelling the grammar allows (long ack / DISCONNECT / AUTH
/// forms with an explicit empty property section, reason-only forms, shuffled properties; var-ints stay minimal)
fn respelled_sequence<F: Family>(input: &Input, ctx: &mut Ctx) -> CaseResult {
    let mut t = Tape::new(input.tape());
    let n = 2 + t.weighted(&[5, 5, 4, 3, 2, 1]);
    let mut pkts: Vec<F::Packet> = Vec::new();
    for _ in 0..n {
        // the types with more than one spelling are drawn more often
        let p = if t.chance(2, 3) {
            let typ = [3usize, 4, 5, 6, 13, 14, 1, 2][t.pick(8)] % F::NTYPES;
            F::gen_of_type(&mut t, &GenCfg::SMALL, typ).map_err(|e| Violation::new(e.0))?
        } else {
            F::gen(&mut t, &GenCfg::SMALL).map_err(|e| Violation::new(e.0))?
        };
        pkts.push(p);
    }
    check_sequence_spelled::<F>(pkts, false, true, &mut t, ctx)
}

fn check_sequence_spelled<F: Family>(pkts: Vec<F::Packet>, big: bool, spelled: bool, t: &mut Tape, ctx: &mut Ctx) -> CaseResult {
    let n = pkts.len();
    let mut encs: Vec<Vec<u8>> = Vec::new();
    for p in &pkts {
        let e = match F::encode(p) {
            Ok(b) => b.as_ref().to_vec(),
            Err(e) => viol!("encode of a valid packet failed: {:?}; packet {}", e, fam::render(p)),
        };
        if spelled {
            let mut w = crate::model::normalize(&F::project(p));
            let orig = w.clone();
            let mut tags = crate::mutate::respell(&mut w, t, false);
            // variable byte integers wider than necessary, where every front-end takes them: the remaining length of any
            // packet, and the property length of the types that count it at its wire width (all but PUBLISH, SUBSCRIBE,
            // SUBACK and UNSUBACK, which size what follows from the canonical width - DESIGN.md §10)
            if t.chance(1, 4) {
                w.rl_width = 2 + t.pick(3) as u8;
                tags.push("non-minimal:remaining-length");
            }
            if !matches!(w.typ(), 3 | 8 | 9 | 11) && t.chance(1, 3) {
                if let Some(ps) = crate::mutate::main_props_mut(&mut w) {
                    ps.width = 2 + t.pick(3) as u8;
                    tags.push("non-minimal:property-length");
                }
            }
            // the order of the user properties among themselves is part of the packet's value: put them back into
            // their original order in whatever slots the shuffle gave to user properties
            for will in [false, true] {
                let src: Vec<crate::model::Prop> = match if will { crate::mutate::will_props(&orig) } else { crate::mutate::main_props(&orig) } {
                    Some(ps) => ps.items.iter().filter(|x| x.id == 0x26).cloned().collect(),
                    None => continue,
                };
                if let Some(ps) = if will { crate::mutate::will_props_mut(&mut w) } else { crate::mutate::main_props_mut(&mut w) } {
                    let mut it = src.into_iter();
                    for slot in ps.items.iter_mut().filter(|x| x.id == 0x26) {
                        if let Some(u) = it.next() {
                            *slot = u;
                        }
                    }
                }
            }
            match crate::model::serialize(&w) {
                Some(b) => {
                    if b != e {
                        ctx.label("respelled-frame");
                        for tg in tags {
                            ctx.label(&format!("spelling:{}", tg));
                        }
                    }
                    encs.push(b);
                }
                None => encs.push(e),
            }
            continue;
        }
        encs.push(e);
    }
    // wide headers: the remaining length of some frames is written in more bytes than necessary (accepted by every
    // front-end, grammar L9); everything that is computed from the header's width has to follow
    if WIDE_HEADERS.with(|c| c.get()) {
        for (i, e) in encs.iter_mut().enumerate() {
            if let Ok((hl, rl)) = crate::refdec::frame_bounds(e) {
                let extra = if i == 1 || t.flag() { 1 + t.pick(4 - (hl - 1)).min(2) } else { 0 };
                if hl - 1 < 4 && extra > 0 {
                    let mut f = vec![e[0]];
                    crate::model::write_varint(&mut f, rl as u32, ((hl - 1 + extra).min(4)) as u8);
                    f.extend_from_slice(&e[hl..]);
                    *e = f;
                    ctx.label("wide-header-frame");
                }
            }
        }
    }
    let spelled = spelled || WIDE_HEADERS.with(|c| c.get());
    let stream: Vec<u8> = encs.concat();

    // blocking, advancing by encode_len() and, independently, by the header's remaining length
    let mut off = 0usize;
    let mut off2 = 0usize;
    for (i, p) in pkts.iter().enumerate() {
        ensure!(off == off2, "packet {}: advancing by encode_len gives offset {}, advancing by the header gives {}", i, off, off2);
        match F::decode(&stream[off..]) {
            Ok(Some(q)) if q == *p => {}
            other => viol!(
                "blocking decoder at offset {} (packet {} of {}) returned {:?}, expected {}; stream {}",
                off,
                i + 1,
                n,
                other.map(|o| o.map(|q| fam::render(&q))),
                fam::render(p),
                hex_short(&stream, 64)
            ),
        }
        // a slice decoder fed from a growing buffer must report "incomplete" while a byte is missing
        let plen = encs[i].len();
        if plen >= 2 {
            for miss in [1usize, 2] {
                if plen > miss && (plen < 100_000 || miss == 1) {
                    match F::decode(&stream[off..off + plen - miss]) {
                        Ok(None) => {}
                        other => viol!(
                            "blocking decoder on packet {} of {} with its last {} byte(s) not yet delivered returned {:?} instead of Ok(None); packet is {} bytes",
                            i + 1,
                            n,
                            miss,
                            other.map(|o| o.map(|q| fam::render(&q))),
                            plen
                        ),
                    }
                }
            }
        }
        off += if spelled {
            plen
        } else {
            match F::encode_len(p) {
                Ok(x) => x,
                Err(e) => viol!("encode_len failed: {}", e),
            }
        };
        let (hl, rl) = refdec::frame_bounds(&stream[off2..]).map_err(|e| Violation::new(format!("stream has no header at {}: {:?}", off2, e)))?;
        match mqtt_proto::total_len(rl) {
            // (total_len speaks about the minimal spelling of the header)
            Ok(tl) => ensure!(tl == hl + rl || hl - 1 > crate::model::varint_min_width(rl as u32), "total_len({}) = {} but the frame is {} bytes", rl, tl, hl + rl),
            Err(e) => viol!("total_len({}) failed: {:?}", rl, e),
        }
        off2 += hl + rl;
    }
    ensure!(off == stream.len(), "encoded lengths add up to {} but the stream has {} bytes", off, stream.len());
    match F::decode(&stream[off..]) {
        Ok(None) => {}
        other => viol!("blocking decoder at the end of the stream returned {:?} instead of Ok(None)", other.map(|o| o.map(|q| fam::render(&q)))),
    }

    // async on one shared slice reader
    let mut r: &[u8] = &stream;
    for (i, p) in pkts.iter().enumerate() {
        let before = r.len();
        match futures_lite::future::block_on(F::decode_async(&mut r)) {
            Ok(q) if q == *p => {}
            other => viol!("async decoder, packet {} of {} on a shared reader: {:?}, expected {}", i + 1, n, other.map(|q| fam::render(&q)), fam::render(p)),
        }
        ensure!(before - r.len() == encs[i].len(), "async decoder consumed {} bytes for packet {} of {} which is {} bytes long", before - r.len(), i + 1, n, encs[i].len());
    }
    ensure!(r.is_empty(), "async decoder left {} bytes", r.len());
    match futures_lite::future::block_on(F::decode_async(&mut r)) {
        Err(e) if F::is_eof(&e) => {}
        other => viol!("async decoder at the end of the stream returned {:?} instead of an EOF error", other.map(|q| fam::render(&q))),
    }

    // async and poll over a chunked transport with Pending
    let steps = gen_steps(t, stream.len(), 48);
    {
        let mut rd = ScriptedReader::new(&stream, &steps);
        for (i, p) in pkts.iter().enumerate() {
            let before = rd.pos;
            let (res, _) = sio::drive(F::decode_async(&mut rd), stream.len() + steps.len() + 8);
            match res {
                Ok(q) if q == *p => {}
                other => viol!("async decoder over chunked delivery {:?}, packet {} of {}: {:?}, expected {}", steps, i + 1, n, other.map(|q| fam::render(&q)), fam::render(p)),
            }
            ensure!(rd.pos - before == encs[i].len(), "async decoder over chunked delivery consumed {} bytes for a packet of {}", rd.pos - before, encs[i].len());
        }
        let (res, _) = sio::drive(F::decode_async(&mut rd), steps.len() + 8);
        match res {
            Err(e) if F::is_eof(&e) => {}
            other => viol!("async decoder over chunked delivery at the end of the stream: {:?}", other.map(|q| fam::render(&q))),
        }
    }
    {
        let mut rd = ScriptedReader::new(&stream, &steps);
        let mut sum = 0usize;
        for (i, p) in pkts.iter().enumerate() {
            // a fresh state per packet, as in the library's documented usage
            let mut state: GenericPollPacketState<F::Header> = GenericPollPacketState::default();
            let (res, _) = sio::drive(GenericPollPacket::new(&mut state, &mut rd), stream.len() + steps.len() + 8);
            match res {
                Ok((total, body, q)) => {
                    ensure!(q == *p, "poll decoder over chunked delivery {:?}, packet {} of {}: {}, expected {}", steps, i + 1, n, fam::render(&q), fam::render(p));
                    ensure!(total == encs[i].len(), "poll decoder reports total {} for packet {} of {} which is {} bytes long", total, i + 1, n, encs[i].len());
                    sum += total;
                    ensure!(rd.pos == sum, "poll decoder has consumed {} bytes after packet {} of {} but the totals add up to {}", rd.pos, i + 1, n, sum);
                    let b = fam::body_bytes(body);
                    ensure!(encs[i].ends_with(&b), "poll decoder returned a body that is not the packet's body");
                }
                Err(e) => viol!("poll decoder over chunked delivery {:?}, packet {} of {}: {:?}, expected {}", steps, i + 1, n, e, fam::render(p)),
            }
        }
        ensure!(sum == stream.len(), "poll totals add up to {} but the stream has {} bytes", sum, stream.len());
        let mut state: GenericPollPacketState<F::Header> = GenericPollPacketState::default();
        let (res, _) = sio::drive(GenericPollPacket::new(&mut state, &mut rd), steps.len() + 8);
        match res {
            Err(e) if F::is_eof(&e) => {}
            other => viol!("poll decoder at the end of the stream returned {:?} instead of an EOF error", other.map(|(t, _, q)| (t, fam::render(&q)))),
        }
    }

    // the public header-first path over one slice that holds the whole stream: decode_raw_header, Header::new_with, then
    // build_empty_packet or PollHeader::block_decode on what follows. It has to take its own frame and leave the rest.
    {
        use mqtt_proto::PollHeader;
        let mut rd: &[u8] = &stream;
        for (i, p) in pkts.iter().enumerate() {
            let before = rd.len();
            let (ctl, rl) = match futures_lite::future::block_on(mqtt_proto::decode_raw_header(&mut rd)) {
                Ok(x) => x,
                Err(e) => viol!("decode_raw_header at packet {} of {} failed: {:?}", i + 1, n, e),
            };
            let h = match <F::Header as PollHeader>::new_with(ctl, rl) {
                Ok(h) => h,
                Err(e) => viol!("Header::new_with({:#04x}, {}) failed on packet {} of {}: {:?}", ctl, rl, i + 1, n, e),
            };
            let q = match h.build_empty_packet() {
                Some(q) => q,
                None => match h.block_decode(&mut rd) {
                    Ok(q) => q,
                    Err(e) => viol!("Header::block_decode on packet {} of {} (followed by the rest of the stream) failed: {:?}; expected {}", i + 1, n, e, fam::render(p)),
                },
            };
            ensure!(q == *p, "header-first decoding (block_decode over the whole stream slice) returned {} for packet {} of {}, expected {}", fam::render(&q), i + 1, n, fam::render(p));
            ensure!(before - rd.len() == encs[i].len(), "header-first decoding (block_decode over the whole stream slice) consumed {} bytes for packet {} of {}, which is {} bytes long", before - rd.len(), i + 1, n, encs[i].len());
        }
        ensure!(rd.is_empty(), "header-first decoding left {} bytes of the stream", rd.len());
        ctx.label("header-first-block-decode");
    }

    // the other public header-first path, as a server that sniffs the protocol version uses it: Header::decode_async,
    // then the per-type `X::decode_async` on the stream itself (for CONNECT alternately `Connect::decode_async` and
    // `Protocol::decode_async` + `Connect::decode_with_protocol`); packet types without a body decoder go through
    // build_empty_packet / block_decode. Each call takes its own frame and leaves the following packets alone.
    {
        use mqtt_proto::PollHeader;
        let mut rd: &[u8] = &stream;
        for (i, p) in pkts.iter().enumerate() {
            let before = rd.len();
            let h = match futures_lite::future::block_on(F::header_decode_async(&mut rd)) {
                Ok(h) => h,
                Err(e) => viol!("Header::decode_async at packet {} of {} failed: {:?}", i + 1, n, e),
            };
            let variant = ((i + n) & 1) as u8;
            let q = match F::body_level_decode_stream(h, &mut rd, variant) {
                Some(Ok(q)) => q,
                Some(Err(e)) => viol!("the body-level decoder of packet {} of {} (variant {}, reading from the stream with the following packets behind it) failed: {:?}; expected {}", i + 1, n, variant, e, fam::render(p)),
                None => match h.build_empty_packet() {
                    Some(q) => q,
                    None => match h.block_decode(&mut rd) {
                        Ok(q) => q,
                        Err(e) => viol!("Header::block_decode on packet {} of {} failed: {:?}", i + 1, n, e),
                    },
                },
            };
            ensure!(q == *p, "header-first decoding through the body-level decoders (variant {}) returned {} for packet {} of {}, expected {}", variant, fam::render(&q), i + 1, n, fam::render(p));
            ensure!(before - rd.len() == encs[i].len(), "header-first decoding through the body-level decoder (variant {}) consumed {} bytes for packet {} of {} ({}), which is {} bytes long", variant, before - rd.len(), i + 1, n, fam::render(p).chars().take(60).collect::<String>(), encs[i].len());
        }
        ensure!(rd.is_empty(), "header-first decoding through the body-level decoders left {} bytes of the stream", rd.len());
        ctx.label("header-first-body-level-decoders");
    }

    let mut types: Vec<usize> = pkts.iter().map(|p| F::type_index(p)).collect();
    types.sort_unstable();
    types.dedup();
    ctx.label(&format!("sequence-length:{}", n));
    if encs.iter().any(|e| e.len() == 2) {
        ctx.label("contains-body-less-packet");
    }
    if big {
        ctx.label("contains-4-byte-header");
    }
    if n >= 2 && types.len() >= 2 {
        ctx.nontrivial(fnv(&stream));
        ctx.sample(|| {
            format!(
                "{} stream of {} packets ({} bytes): {} ; delivery {:?}",
                F::FAM.name(),
                n,
                stream.len(),
                pkts.iter().map(|p| fam::render(p).chars().take(60).collect::<String>()).collect::<Vec<_>>().join(" | "),
                &steps[..steps.len().min(12)]
            )
        });
    }
    Ok(())
}

/// nums = [type a, type b, content seed]: every ordered pair of packet types back to back (twice: a b a b)
fn pair_sequence<F: Family>(input: &Input, ctx: &mut Ctx) -> CaseResult {
    let n = input.nums();
    let (a, b, seed) = (n[0] as usize, n[1] as usize, n[2]);
    let tape: Vec<u16> = (0..80u64).map(|i| ((seed.wrapping_add(i).wrapping_mul(0x9E37_79B9_7F4A_7C15)) >> 41) as u16).collect();
    let mut t = Tape::new(if seed == 0 { &[] } else { &tape });
    let pa = F::gen_of_type(&mut t, &GenCfg::SMALL, a).map_err(|e| Violation::new(e.0))?;
    let pb = F::gen_of_type(&mut t, &GenCfg::SMALL, b).map_err(|e| Violation::new(e.0))?;
    let pkts = vec![pa.clone(), pb.clone(), pa, pb];
    ctx.label("pair");
    let sched: [u16; 12] = [0xF000, 0x3000, 0x9000, 0x6000, 0xC000, 0x1000, 0xA000, 0x5000, 0xE000, 0x2000, 0x8000, 0x4000];
    let mut st = Tape::new(&sched);
    check_sequence::<F>(pkts, false, &mut st, ctx)
}

/// Histories on one thread: decodes that are abandoned half-way (future and state dropped while the
/// transport is Pending, or the connection given up) interleaved with complete decodes of unrelated
/// streams. A complete decode must not depend on what was abandoned before it.
fn decode_history<F: Family>(input: &Input, ctx: &mut Ctx) -> CaseResult {
    let mut t = Tape::new(input.tape());
    let n = 2 + t.pick(5);
    let mut abandoned = 0;
    // one history in sixty-four starts with connections that announce the largest possible packet and then stall: six
    // poll decodes are abandoned (state and reader dropped) right after a five-byte header declaring 268,435,455 body
    // bytes - whatever the decoder reserved for them goes away with the state, and later packets decode as usual
    if t.chance(1, 64) {
        for k in 0..6u8 {
            let hdr = [0x30 | (k & 1), 0xFF, 0xFF, 0xFF, 0x7F, 0x00];
            // (the header stage reads one byte at a time: five ready reads, then the transport is not ready)
            let steps = [Step::Chunk(1), Step::Chunk(1), Step::Chunk(1), Step::Chunk(1), Step::Chunk(1), Step::Pending, Step::Pending, Step::Pending];
            let mut rd = ScriptedReader::new(&hdr[..5 + (k as usize % 2)], &steps);
            let mut state: GenericPollPacketState<F::Header> = GenericPollPacketState::default();
            let r = sio::poll_n(GenericPollPacket::new(&mut state, &mut rd), 2);
            ensure!(r.is_none(), "poll decoder finished after a bare header that declares 268,435,455 body bytes: {:?}", r.map(|x| x.map(|y| y.0)));
            ensure!(matches!(&state, GenericPollPacketState::Body(_)), "MQV-INTERNAL: the abandoned decode did not reach the body stage");
        }
        abandoned += 6;
        ctx.label("abandoned-maximal-declared-lengths");
    }
    for i in 0..n {
        let cfg = if t.chance(1, 8) { GenCfg::MEDIUM } else { GenCfg::SMALL };
        let p = F::gen(&mut t, &cfg).map_err(|e| Violation::new(e.0))?;
        let enc = match F::encode(&p) {
            Ok(b) => b.as_ref().to_vec(),
            Err(e) => viol!("encode of a valid packet failed: {:?}", e),
        };
        let op = if i + 1 == n { 0 } else { t.pick(4) };
        if op >= 2 && enc.len() > 2 {
            // deliver k bytes, then Pending for as long as we poll; drop everything
            // (a stall at a stream position: the decoders size their own reads, so "after k bytes" cannot be scripted per call)
            let k = 1 + t.pick(enc.len() - 1);
            let steps: Vec<Step> = Vec::new();
            let polls = 1 + t.pick(3);
            if op == 2 {
                let mut rd = ScriptedReader::new(&enc, &steps);
                rd.stall_at = Some(k);
                let r = sio::poll_n(F::decode_async(&mut rd), polls);
                ensure!(r.is_none() || matches!(&r, Some(Ok(q)) if *q == p), "async decoder finished with a different result although only {} of {} bytes were delivered", k, enc.len());
            } else {
                let mut rd = ScriptedReader::new(&enc, &steps);
                rd.stall_at = Some(k);
                let mut state: GenericPollPacketState<F::Header> = GenericPollPacketState::default();
                let r = sio::poll_n(GenericPollPacket::new(&mut state, &mut rd), polls);
                ensure!(r.is_none(), "poll decoder finished although only {} of {} bytes were delivered", k, enc.len());
                ensure!(rd.pos == k, "MQV-INTERNAL: the abandoned poll decode consumed {} bytes instead of {}", rd.pos, k);
            }
            abandoned += 1;
            ctx.label("abandoned-decode");
            continue;
        }
        // complete decodes on all three front-ends
        match F::decode(&enc) {
            Ok(Some(q)) if q == p => {}
            other => viol!("operation {} of a decoder history ({} abandoned before): blocking decoder returned {:?}, expected {}", i + 1, abandoned, other.map(|o| o.map(|q| fam::render(&q))), fam::render(&p)),
        }
        let steps = gen_steps(&mut t, enc.len(), 24);
        let mut rd = ScriptedReader::new(&enc, &steps);
        let (res, _) = sio::drive(F::decode_async(&mut rd), enc.len() + steps.len() + 8);
        match res {
            Ok(q) if q == p => {}
            other => viol!("operation {} of a decoder history ({} abandoned before): async decoder returned {:?}, expected {}", i + 1, abandoned, other.map(|q| fam::render(&q)), fam::render(&p)),
        }
        let mask = t.u16() as u64;
        let style = t.pick(4) as u8;
        let run = fam::dec_poll_styled::<F>(&enc, &steps, mask, None, false, style);
        match run.result {
            Ok(ok) if ok.pkt == p && ok.total == enc.len() => {}
            other => viol!("operation {} of a decoder history ({} abandoned before): poll decoder returned {:?}, expected {}", i + 1, abandoned, other.map(|q| fam::render(&q.pkt)), fam::render(&p)),
        }
        if abandoned > 0 {
            ctx.label("complete-after-abandon");
        }
    }
    if abandoned > 0 && ctx.nontrivial(fnv(format!("{:?}", input.tape()).as_bytes())) {
        ctx.sample(|| format!("{} history of {} decode operations, {} abandoned", F::FAM.name(), n, abandoned));
    }
    Ok(())
}

pub const SUB_DH3: Sub = Sub { name: "c08.history.v3", f: decode_history::<V3> };
pub const SUB_DH5: Sub = Sub { name: "c08.history.v5", f: decode_history::<V5> };
pub const SUB_P3: Sub = Sub { name: "c08.pairs.v3", f: pair_sequence::<V3> };
pub const SUB_P5: Sub = Sub { name: "c08.pairs.v5", f: pair_sequence::<V5> };
pub const SUB_Z3: Sub = Sub { name: "c08.sized.v3", f: sized_sequence::<V3> };
pub const SUB_Z5: Sub = Sub { name: "c08.sized.v5", f: sized_sequence::<V5> };
pub const SUB_R3: Sub = Sub { name: "c08.respelled.v3", f: respelled_sequence::<V3> };
pub const SUB_R5: Sub = Sub { name: "c08.respelled.v5", f: respelled_sequence::<V5> };
pub const SUB_V3: Sub = Sub { name: "c08.sequence.v3", f: sequence::<V3> };
pub const SUB_V5: Sub = Sub { name: "c08.sequence.v5", f: sequence::<V5> };

pub fn subs() -> Vec<Sub> {
    vec![SUB_V3, SUB_V5, SUB_Z3, SUB_Z5, SUB_P3, SUB_P5, SUB_DH3, SUB_DH5, SUB_R3, SUB_R5]
}

pub fn run(env: &mut Env) -> RunResult {
    let n = env.tier.sel(40_000, 300_000);
    env.run_tapes(SUB_V3, n, 400)?;
    env.run_tapes(SUB_V5, n, 700)?;
    env.run_tapes(SUB_R3, n / 8, 400)?;
    env.run_tapes(SUB_R5, n / 2, 700)?;
    env.require("c08.respelled.v5", "respelled-frame");
    env.require("c08.respelled.v5", "spelling:ack:explicit-empty-properties");
    env.require("c08.respelled.v5", "spelling:ack:reason-only");
    env.require("c08.respelled.v5", "spelling:properties:shuffled");
    env.require("c08.respelled.v5", "spelling:non-minimal:property-length");
    env.require("c08.respelled.v5", "spelling:non-minimal:remaining-length");
    env.require("c08.respelled.v3", "spelling:non-minimal:remaining-length");
    let sizes: Vec<Input> = [126u64, 127, 128, 129, 16_382, 16_383, 16_384, 16_385, 16_386, 2_097_150, 2_097_151, 2_097_152, 2_097_153, 2_097_154, 2_097_155, 2_097_156]
        .iter()
        .map(|x| Input::Nums(vec![*x]))
        .chain([100u64, 127, 128, 16_383, 16_384, 65_535, 65_536, 66_000, 70_000, 131_072, 1_048_577, 2_097_151].iter().map(|x| Input::Nums(vec![*x, 1])))
        .collect();
    let k = sizes.len() as u64;
    let z = sizes.clone();
    env.run_enum(SUB_Z3, k, false, move |i| z[i as usize].clone())?;
    env.run_enum(SUB_Z5, k, false, move |i| sizes[i as usize].clone())?;
    env.require("c08.sized.v3", "wide-header-frame");
    env.require("c08.sized.v5", "wide-header-frame");
    env.run_tapes(SUB_DH3, n / 4, 400)?;
    env.require("c08.history.v3", "abandoned-maximal-declared-lengths");
    env.run_tapes(SUB_DH5, n / 4, 600)?;
    env.require("c08.history.v3", "complete-after-abandon");
    env.require("c08.history.v5", "complete-after-abandon");
    // every ordered pair of packet types, with minimal and with generated contents
    let seeds = env.tier.sel(4u64, 24u64);
    let n3 = (V3::NTYPES * V3::NTYPES) as u64 * seeds;
    env.run_enum(SUB_P3, n3, true, move |i| Input::Nums(vec![(i / seeds) / V3::NTYPES as u64, (i / seeds) % V3::NTYPES as u64, i % seeds]))?;
    let n5 = (V5::NTYPES * V5::NTYPES) as u64 * seeds;
    env.run_enum(SUB_P5, n5, true, move |i| Input::Nums(vec![(i / seeds) / V5::NTYPES as u64, (i / seeds) % V5::NTYPES as u64, i % seeds]))?;
    env.require("c08.sized.v3", "contains-4-byte-header");
    env.require("c08.sized.v5", "contains-4-byte-header");
    for s in ["c08.sequence.v3", "c08.sequence.v5"] {
        env.require(s, "contains-body-less-packet");
        env.require(s, "header-first-block-decode");
        env.require(s, "header-first-body-level-decoders");
        env.require(s, "sequence-length:1");
        env.require(s, "sequence-length:5");
        if env.thorough() {
            env.require(s, "contains-4-byte-header");
        }
    }
    Ok(())
}
