//! C04 — the strict (poll) decoder accepts a complete, minimally encoded frame iff the
//! reference decoder (MQTT grammar + pinned leniencies) does, and then returns the values the
//! specification assigns to the bytes.

use crate::fam::{self, Family, V3, V5};
use crate::gen::GenCfg;
use crate::model::{self, fnv, hex_short, normalize, serialize};
use crate::mutate;
use crate::refdec::{self, Reject};
use crate::run::{CaseResult, Ctx, Env, Input, RunResult, Sub, Violation};
use crate::tape::Tape;
use crate::{ensure, viol};

/// Decides one frame. Returns the class label.
pub fn decide<F: Family>(bytes: &[u8], ctx: &mut Ctx) -> Result<Option<String>, Violation> {
    // only complete frames are in the property's domain
    let frame: &[u8] = match refdec::frame_bounds(bytes) {
        Ok((hl, rl)) => {
            if bytes.len() < hl + rl {
                ctx.label("skipped:incomplete");
                return Ok(None);
            }
            &bytes[..hl + rl]
        }
        Err(Reject::VarIntTooLong) => bytes,
        Err(_) => {
            ctx.label("skipped:incomplete");
            return Ok(None);
        }
    };
    let reference = refdec::refdec(F::FAM, frame);
    if let Ok(d) = &reference {
        if !d.minimal {
            ctx.label("skipped:non-minimal");
            return Ok(None);
        }
    }
    let run = fam::dec_poll::<F>(frame);
    match (&reference, &run.result) {
        (Ok(d), Ok(ok)) => {
            let got = normalize(&F::project(&ok.pkt));
            let exp = normalize(&d.pkt);
            ensure!(
                got == exp,
                "accepted frame {}: the returned packet does not carry the values the specification assigns.\n  library : {:?}\n  spec    : {:?}",
                hex_short(frame, 96),
                got,
                exp
            );
            ensure!(ok.total == frame.len(), "accepted frame of {} bytes: reported total {}", frame.len(), ok.total);
            ensure!(ok.body == frame[d.header_len..], "accepted frame: body bytes handed back differ from the frame's body");
            Ok(Some("accept".to_string()))
        }
        (Err(r), Err(_)) => Ok(Some(format!("reject:{:?}", r))),
        (Ok(d), Err(e)) => viol!(
            "well-formed {} frame rejected by the poll decoder with {:?}: {} (reference decoder reads {})",
            F::FAM.name(),
            e,
            hex_short(frame, 96),
            fam::render(&d.pkt)
        ),
        (Err(r), Ok(ok)) => viol!(
            "malformed {} frame accepted by the poll decoder (grammar violation: {:?}): {} -> {}",
            F::FAM.name(),
            r,
            hex_short(frame, 96),
            fam::render(&ok.pkt)
        ),
    }
}

fn case<F: Family>(input: &Input, ctx: &mut Ctx) -> CaseResult {
    let mut t = Tape::new(input.tape());
    let cfg = crate::gen::cfg_mix(&mut t, ctx.thorough);
    let p = F::gen(&mut t, &cfg).map_err(|e| Violation::new(e.0))?;
    let mut w = F::project(&p);
    let tags = mutate::respell(&mut w, &mut t, false);
    for tg in &tags {
        ctx.label(&format!("spelling:{}", tg));
    }
    let mode = t.weighted(&[3, 6, 3]);
    let mut bytes = serialize(&w).ok_or_else(|| Violation::new("MQV-INTERNAL: cannot serialise"))?;
    let mut origin = "well-formed".to_string();
    match mode {
        0 => {}
        1 => {
            // one to three catalogue malformations (the later ones at byte level)
            let sites = mutate::sites(&w);
            if !sites.is_empty() {
                let s = &sites[t.pick(sites.len())];
                if let Some(m) = mutate::apply(&w, s, &mut t) {
                    bytes = m.bytes;
                    origin = format!("catalogue:{}", s.entry.name());
                    let extra = t.weighted(&[6, 2, 1]);
                    for _ in 0..extra {
                        mutate::byte_mutate(&mut bytes, &[], &mut t);
                        origin.push_str("+bytes");
                    }
                    if extra > 0 && !bytes.is_empty() {
                        if let Ok((hl, _)) = refdec::frame_bounds(&bytes) {
                            if hl <= bytes.len() {
                                bytes = mutate::reframe(bytes[0], &bytes[hl..].to_vec());
                            }
                        }
                    }
                }
            }
        }
        _ => {
            // byte-level mutations of the body with the header re-synthesised
            let (hl, _) = refdec::frame_bounds(&bytes).map_err(|_| Violation::new("MQV-INTERNAL: own frame has no header"))?;
            let mut body = bytes[hl..].to_vec();
            let mut first = bytes[0];
            let n = 1 + t.weighted(&[6, 3, 1]);
            for _ in 0..n {
                if t.chance(1, 8) {
                    first = t.u8();
                } else {
                    mutate::byte_mutate(&mut body, &[], &mut t);
                }
            }
            bytes = mutate::reframe(first, &body);
            origin = "byte-mutated".to_string();
        }
    }
    let class = decide::<F>(&bytes, ctx)?;
    if let Some(c) = class {
        ctx.label(&c);
        ctx.label(&format!("origin:{}", origin.split(':').next().unwrap_or("")));
        if ctx.nontrivial(fnv(&bytes)) && (c != "accept" || !tags.is_empty()) {
            ctx.sample(|| format!("{} frame {} [{}] -> {}", F::FAM.name(), hex_short(&bytes, 48), origin, c));
        }
    }
    Ok(())
}

fn case_bytes<F: Family>(input: &Input, ctx: &mut Ctx) -> CaseResult {
    let class = decide::<F>(input.bytes(), ctx)?;
    if let Some(c) = class {
        ctx.label(&c);
        ctx.nontrivial(fnv(input.bytes()));
        ctx.sample(|| format!("{} frame {} -> {}", F::FAM.name(), hex_short(input.bytes(), 48), c));
    }
    Ok(())
}

/// Histories: a valid packet A is decoded first, then a frame B in which one string field was
/// replaced by a string taken from A (so a filter with wildcards may turn up as a topic name or
/// response topic, a topic name as a filter, ...). Both must be decided like the reference decoder
/// decides them: acceptance must not depend on what the thread decoded before.
fn case_history<F: Family>(input: &Input, ctx: &mut Ctx) -> CaseResult {
    history_core::<F>(input, ctx, 1)
}

/// oracles: 1 = C04 (reference decoder), 2 = C06 (front-ends agree), 4 = C12 (type invariants)
pub fn history_core<F: Family>(input: &Input, ctx: &mut Ctx, oracles: u8) -> CaseResult {
    let mut t = Tape::new(input.tape());
    // A: a packet that carries topic strings
    let ta = [2usize, 7, 9, 0][t.pick(4)];
    let a = F::gen_of_type(&mut t, &GenCfg::SMALL, ta).map_err(|e| Violation::new(e.0))?;
    let wa = F::project(&a);
    let a_bytes = serialize(&wa).ok_or_else(|| Violation::new("MQV-INTERNAL: cannot serialise"))?;
    let mut strings: Vec<Vec<u8>> = Vec::new();
    {
        let mut wa2 = wa.clone();
        for (path, kind) in mutate::fields(&wa) {
            if kind != mutate::SKind::Binary && kind != mutate::SKind::ProtoName {
                if let Some(f) = mutate::field_mut(&mut wa2, &path) {
                    strings.push(f.clone());
                }
            }
        }
    }
    // B: another packet with one string replaced by one of A's
    let tb = [2usize, 0, 7, 9, 2, 0][t.pick(6)];
    let b = F::gen_of_type(&mut t, &GenCfg::SMALL, tb).map_err(|e| Violation::new(e.0))?;
    let mut wb = F::project(&b);
    let fields: Vec<(mutate::FPath, mutate::SKind)> = mutate::fields(&wb).into_iter().filter(|(_, k)| *k != mutate::SKind::Binary && *k != mutate::SKind::ProtoName).collect();
    let mut swapped = "none";
    if !fields.is_empty() && !strings.is_empty() {
        // prefer the topic-like fields of B
        let topicish: Vec<&(mutate::FPath, mutate::SKind)> = fields.iter().filter(|(_, k)| matches!(k, mutate::SKind::TopicName | mutate::SKind::ResponseTopic | mutate::SKind::Filter)).collect();
        let (path, kind) = if !topicish.is_empty() && t.chance(3, 4) { topicish[t.pick(topicish.len())].clone() } else { fields[t.pick(fields.len())].clone() };
        let src = strings[t.pick(strings.len())].clone();
        if let Some(f) = mutate::field_mut(&mut wb, &path) {
            *f = src;
            swapped = match kind {
                mutate::SKind::TopicName => "into-topic-name",
                mutate::SKind::ResponseTopic => "into-response-topic",
                mutate::SKind::Filter => "into-filter",
                _ => "into-plain-string",
            };
        }
    }
    let b_bytes = serialize(&wb).ok_or_else(|| Violation::new("MQV-INTERNAL: cannot serialise"))?;
    // decode A on every front-end (this is what primes any per-thread state), then decide B, then A again
    let _ = F::decode(&a_bytes);
    let _ = fam::dec_async::<F>(&a_bytes);
    let _ = fam::dec_poll::<F>(&a_bytes);
    let after = |v: Violation| Violation::new(format!("after decoding {} on the same thread: {}", hex_short(&a_bytes, 48), v.msg));
    let mut cb: Option<String> = Some(if refdec::refdec(F::FAM, &b_bytes).is_ok() { "accept".to_string() } else { "reject".to_string() });
    if oracles & 1 != 0 {
        decide::<F>(&a_bytes, ctx)?;
        cb = decide::<F>(&b_bytes, ctx).map_err(after)?;
        ctx.more_evals(1);
    }
    if oracles & 2 != 0 {
        crate::checks::c06::agree::<F>(&b_bytes, "history", ctx).map_err(after)?;
    }
    if oracles & 4 != 0 {
        crate::checks::c12::all_fronts::<F>(&b_bytes, "history", ctx).map_err(after)?;
    }
    if let Some(c) = cb {
        ctx.label(&format!("history:{}:{}", swapped, if c == "accept" { "accept" } else { "reject" }));
        if ctx.nontrivial(fnv(&b_bytes) ^ fnv(&a_bytes)) {
            ctx.sample(|| format!("{} first {} then {} [{}] -> {}", F::FAM.name(), hex_short(&a_bytes, 24), hex_short(&b_bytes, 32), swapped, c));
        }
    }
    Ok(())
}


// ---------------------------------------------------------------------------------------
// byte sequences as string content: "valid UTF-8 strings" decided for every short sequence

const U3_THIRD: [u8; 8] = [0x80, 0xBF, 0x7F, 0xC0, 0x00, 0xFF, 0xA0, 0x9F];
const U4_THIRD: [u8; 7] = [0x80, 0xBF, 0x7F, 0xC0, 0x00, 0x90, 0x8F];
const U4_FOURTH: [u8; 4] = [0x80, 0xBF, 0x7F, 0xC0];

/// number of sequences in the sweep: all 1- and 2-byte sequences; 3-byte sequences with lead E0..EF, any second byte
/// and (full: any / reduced: 8 boundary) third bytes; 4-byte sequences with lead F0..F7, any second byte and boundary
/// third / fourth bytes
pub fn utf8_seq_count(full: bool) -> u64 {
    256 + 65_536 + 16 * 256 * if full { 256 } else { U3_THIRD.len() as u64 } + 8 * 256 * (U4_THIRD.len() * U4_FOURTH.len()) as u64
}

pub fn utf8_seq(full: bool, mut i: u64) -> Vec<u8> {
    if i < 256 {
        return vec![i as u8];
    }
    i -= 256;
    if i < 65_536 {
        return vec![(i >> 8) as u8, i as u8];
    }
    i -= 65_536;
    let thirds = if full { 256 } else { U3_THIRD.len() as u64 };
    if i < 16 * 256 * thirds {
        let third = i % thirds;
        let rest = i / thirds;
        return vec![0xE0 + (rest / 256) as u8, (rest % 256) as u8, if full { third as u8 } else { U3_THIRD[third as usize] }];
    }
    i -= 16 * 256 * thirds;
    let f = i % U4_FOURTH.len() as u64;
    let r = i / U4_FOURTH.len() as u64;
    let t = r % U4_THIRD.len() as u64;
    let r = r / U4_THIRD.len() as u64;
    vec![0xF0 + ((r / 256) % 8) as u8, (r % 256) as u8, U4_THIRD[t as usize], U4_FOURTH[f as usize]]
}

/// frames that carry `seq` inside text fields: a v3.1.1 CONNECT whose client id is 'a' seq 'b', and a v5 PUBLISH
/// with a user property whose name is seq and whose value is 'v' seq
/// building blocks of ill- and well-formed UTF-8: sequences of up to three (thorough: four) of them are tried
pub const UTF8_ATOMS: [&[u8]; 14] = [
    b"a",
    b"\xC3\xA9",         // é
    b"\xE2\x82\xAC",     // €
    b"\xF0\x9F\x98\x80", // 😀
    b"\x80",             // lone continuation byte
    b"\xC3",             // truncated 2-byte sequence
    b"\xE2\x82",         // truncated 3-byte sequence
    b"\xF0\x9F\x98",     // truncated 4-byte sequence
    b"\xED\xA1\x82",     // high surrogate (CESU-8 first half)
    b"\xED\xBE\xB7",     // low surrogate (CESU-8 second half)
    b"\xC0\x80",         // overlong NUL ("modified UTF-8")
    b"\xF4\x90\x80\x80", // beyond U+10FFFF
    b"\xFF",
    b"\x00",
];

pub fn utf8_atom_seq_count(max_atoms: u32) -> u64 {
    (1..=max_atoms).map(|k| (UTF8_ATOMS.len() as u64).pow(k)).sum()
}

pub fn utf8_atom_seq(mut i: u64, max_atoms: u32) -> Vec<u8> {
    let n = UTF8_ATOMS.len() as u64;
    let mut k = 1;
    while k <= max_atoms && i >= n.pow(k) {
        i -= n.pow(k);
        k += 1;
    }
    let mut out = Vec::new();
    for _ in 0..k {
        out.extend_from_slice(UTF8_ATOMS[(i % n) as usize]);
        i /= n;
    }
    out
}

/// CONNECT frames of the v3 family under both protocol levels (MQIsdp/3 and MQTT/4) that carry `seq` as client id,
/// as user name and as will topic (one field at a time; the other fields are plain)
pub fn utf8_connect_frames(seq: &[u8]) -> Vec<(&'static str, Vec<u8>)> {
    let mut v = Vec::new();
    for (name, level, lab) in [(&b"MQIsdp"[..], 3u8, ["v3.1 CONNECT client id", "v3.1 CONNECT user name", "v3.1 CONNECT will topic"]), (&b"MQTT"[..], 4u8, ["v3.1.1 CONNECT client id", "v3.1.1 CONNECT user name", "v3.1.1 CONNECT will topic"])] {
        for field in 0..3 {
            let f = |k: usize, plain: &[u8]| -> Vec<u8> {
                let d: &[u8] = if k == field { seq } else { plain };
                let mut o = vec![(d.len() >> 8) as u8, d.len() as u8];
                o.extend_from_slice(d);
                o
            };
            let mut body = vec![0, name.len() as u8];
            body.extend_from_slice(name);
            body.push(level);
            body.push(0b1000_0110); // user name, will (QoS 0), clean session
            body.extend_from_slice(&[0, 30]);
            body.extend_from_slice(&f(0, b"cid"));
            body.extend_from_slice(&f(2, b"w/t"));
            body.extend_from_slice(&[0, 1, b'm']);
            body.extend_from_slice(&f(1, b"user"));
            let mut fr = vec![0x10];
            crate::model::write_varint(&mut fr, body.len() as u32, 0);
            fr.extend_from_slice(&body);
            v.push((lab[field], fr));
        }
    }
    v
}

pub fn utf8_frames(seq: &[u8]) -> (Vec<u8>, Vec<u8>) {
    let mut cid = vec![b'a'];
    cid.extend_from_slice(seq);
    cid.push(b'b');
    let mut body = vec![0, 4, b'M', b'Q', b'T', b'T', 4, 2, 0, 0, 0, cid.len() as u8];
    body.extend_from_slice(&cid);
    let mut f3 = vec![0x10, body.len() as u8];
    f3.extend_from_slice(&body);
    let mut prop = vec![0x26, 0, seq.len() as u8];
    prop.extend_from_slice(seq);
    prop.extend_from_slice(&[0, seq.len() as u8 + 1, b'v']);
    prop.extend_from_slice(seq);
    let mut body = vec![0, 1, b't', prop.len() as u8];
    body.extend_from_slice(&prop);
    let mut f5 = vec![0x30, body.len() as u8];
    f5.extend_from_slice(&body);
    (f3, f5)
}

/// nums = [full (0/1), start, count]
fn case_utf8(input: &Input, ctx: &mut Ctx) -> CaseResult {
    let n = input.nums();
    let full = n[0] == 1;
    let (mut good, mut bad) = (0u64, 0u64);
    for i in n[1]..n[1] + n[2] {
        let seq = utf8_seq(full, i);
        let (f3, f5) = utf8_frames(&seq);
        let want = std::str::from_utf8(&seq).is_ok();
        for (k, lab) in [(decide::<V3>(&f3, ctx), "v3 CONNECT client id"), (decide::<V5>(&f5, ctx), "v5 PUBLISH user property")] {
            let lab = match k {
                Ok(Some(l)) => l,
                Ok(None) => viol!("MQV-INTERNAL: the UTF-8 sweep built a frame outside the domain ({} with {})", lab, hex_short(&seq, 8)),
                Err(v) => {
                    ctx.refine = Some((if lab.starts_with("v3") { "c04.frame.v3" } else { "c04.frame.v5" }, Input::Bytes(if lab.starts_with("v3") { f3.clone() } else { f5.clone() })));
                    return Err(Violation::new(format!("{} containing the bytes {}: {}", lab, hex_short(&seq, 8), v.msg)));
                }
            };
            ensure!((lab == "accept") == want, "MQV-INTERNAL: reference decoder and std disagree on the bytes {} ({})", hex_short(&seq, 8), lab);
        }
        if want {
            good += 1;
        } else {
            bad += 1;
        }
    }
    ctx.more_evals((n[2] * 2).saturating_sub(1));
    ctx.count_distinct(n[2] * 2);
    ctx.label_n("utf8:well-formed", good);
    ctx.label_n("utf8:ill-formed", bad);
    if n[1] == 0 {
        ctx.sample(|| "every 1- and 2-byte sequence, 3-byte sequences with lead E0..EF, 4-byte sequences with lead F0..F7 as string content of a v3 CONNECT client id and a v5 user property".to_string());
    }
    Ok(())
}

/// nums = [max atoms, start, count]: sequences of UTF-8 atoms in the v3 CONNECT text fields under both protocol levels
/// and in a v5 user property
fn case_utf8_atoms(input: &Input, ctx: &mut Ctx) -> CaseResult {
    let n = input.nums();
    let (mut good, mut bad) = (0u64, 0u64);
    for i in n[1]..n[1] + n[2] {
        let seq = utf8_atom_seq(i, n[0] as u32);
        let want = std::str::from_utf8(&seq).is_ok();
        let mut frames = utf8_connect_frames(&seq);
        frames.push(("v5 PUBLISH user property", utf8_frames(&seq).1));
        for (lab, fr) in frames {
            let r = if lab.starts_with("v5") { decide::<V5>(&fr, ctx) } else { decide::<V3>(&fr, ctx) };
            match r {
                Ok(Some(_)) => {}
                Ok(None) => viol!("MQV-INTERNAL: the UTF-8 atom sweep built a frame outside the domain ({} with {})", lab, hex_short(&seq, 16)),
                Err(v) => {
                    ctx.refine = Some((if lab.starts_with("v5") { "c04.frame.v5" } else { "c04.frame.v3" }, Input::Bytes(fr.clone())));
                    return Err(Violation::new(format!("{} containing the bytes {}: {}", lab, hex_short(&seq, 16), v.msg)));
                }
            }
        }
        if want {
            good += 1;
        } else {
            bad += 1;
        }
    }
    ctx.more_evals((n[2] * 7).saturating_sub(1));
    ctx.count_distinct(n[2] * 7);
    ctx.label_n("utf8:well-formed", good);
    ctx.label_n("utf8:ill-formed", bad);
    Ok(())
}

/// nums = [first code point, count]: every Unicode scalar value as the content of text fields (v3 CONNECT client id under
/// both protocol levels, v5 user property name and value): all of them are well-formed UTF-8 and must be accepted with the
/// value the bytes spell
fn case_codepoints(input: &Input, ctx: &mut Ctx) -> CaseResult {
    let n = input.nums();
    let mut chars = 0u64;
    for cp in n[0]..n[0] + n[1] {
        let c = match char::from_u32(cp as u32) {
            Some(c) => c,
            None => continue,
        };
        chars += 1;
        let mut buf = [0u8; 4];
        let seq = c.encode_utf8(&mut buf).as_bytes().to_vec();
        let (f3, f5) = utf8_frames(&seq);
        let mut frames: Vec<(&str, Vec<u8>, bool)> = vec![("v3.1.1 CONNECT client id", f3, false), ("v5 PUBLISH user property", f5, true)];
        if cp % 16 == 0 || cp < 0x3000 || (cp & 0xFFFF) >= 0xFFF0 || (0xFDD0..=0xFDEF).contains(&cp) {
            for (lab, fr) in utf8_connect_frames(&seq) {
                if lab.starts_with("v3.1 ") && !(c == '\0' || c == '+' || c == '#') {
                    frames.push((lab, fr, false));
                }
            }
        }
        for (lab, fr, v5) in frames {
            let r = if v5 { decide::<V5>(&fr, ctx) } else { decide::<V3>(&fr, ctx) };
            match r {
                Ok(Some(l)) if l == "accept" => {}
                Ok(other) => viol!("MQV-INTERNAL: the reference decoder does not accept {} containing U+{:04X}: {:?}", lab, cp, other),
                Err(v) => {
                    ctx.refine = Some((if v5 { "c04.frame.v5" } else { "c04.frame.v3" }, Input::Bytes(fr.clone())));
                    return Err(Violation::new(format!("{} containing U+{:04X}: {}", lab, cp, v.msg)));
                }
            }
        }
    }
    ctx.more_evals((chars * 2).saturating_sub(1));
    ctx.count_distinct(chars * 2);
    ctx.label_n("code-points", chars);
    Ok(())
}


/// v5 PUBLISH frames whose payload is flagged as UTF-8, is `n` bytes long and carries one ill-formed sequence exactly at
/// offset `o`: block-wise validators change blocks at powers of two. nums = [n, o, shape]
fn case_payload_boundary(input: &Input, ctx: &mut Ctx) -> CaseResult {
    let v = input.nums();
    let (n, o, shape) = (v[0] as usize, v[1] as usize, v[2] as usize);
    let shapes: [&[u8]; 9] = [b"\xFF", b"\x80", b"\xC3", b"\xE2\x82", b"\xF0\x9F\x98", b"\xED\xA0\x80", b"\xC0\x80", b"\xE0\x80\x80", b"\xF4\x90\x80\x80"];
    let bad = shapes[shape % shapes.len()];
    // filler: ASCII, or two-byte characters (then the defect goes between two of them)
    let two = v.get(3).copied().unwrap_or(0) == 1;
    let mut payload: Vec<u8> = Vec::with_capacity(n + 4);
    if two {
        while payload.len() + 2 <= o {
            payload.extend_from_slice("\u{e9}".as_bytes());
        }
        while payload.len() < o {
            payload.push(b'a');
        }
    } else {
        payload.resize(o, b'a');
    }
    payload.extend_from_slice(bad);
    while payload.len() < n {
        payload.push(b'b');
    }
    for will in [false, true] {
        let w = if will {
            if payload.len() > 65_535 {
                continue;
            }
            model::WPacket::new(
                model::Fam::V5,
                0x10,
                model::Body::Connect {
                    name: b"MQTT".to_vec(),
                    level: 5,
                    flags: 0b0000_0110,
                    keep_alive: 1,
                    props: Some(model::Props::default()),
                    client_id: b"c".to_vec(),
                    will: Some(model::Will { props: Some(model::Props { items: vec![model::Prop { id: 0x01, val: model::PVal::Byte(1) }], declared: None, width: 0 }), topic: b"w".to_vec(), payload: payload.clone() }),
                    username: None,
                    password: None,
                },
            )
        } else {
            model::WPacket::new(model::Fam::V5, 0x30, model::Body::Publish { topic: b"t".to_vec(), pid: None, props: Some(model::Props { items: vec![model::Prop { id: 0x01, val: model::PVal::Byte(1) }], declared: None, width: 0 }), payload: payload.clone() })
        };
        let frame = model::serialize(&w).ok_or_else(|| Violation::new("MQV-INTERNAL: cannot serialise"))?;
        match decide::<V5>(&frame, ctx) {
            Ok(Some(l)) => ensure!(l.starts_with("reject"), "MQV-INTERNAL: the reference decoder accepts a flagged payload with the ill-formed bytes {} at offset {}", hex_short(bad, 8), o),
            Ok(None) => viol!("MQV-INTERNAL: frame outside the domain"),
            Err(e) => return Err(Violation::new(format!("{} payload of {} bytes flagged as UTF-8 with the ill-formed bytes {} at offset {}: {}", if will { "will" } else { "PUBLISH" }, payload.len(), hex_short(bad, 8), o, e.msg))),
        }
    }
    ctx.count_distinct(1);
    ctx.label("payload-defect-at-block-boundary");
    Ok(())
}

pub const SUB_PAYLOAD_BOUNDARY: Sub = Sub { name: "c04.flagged-payload-boundaries", f: case_payload_boundary };

pub const SUB_CODEPOINTS: Sub = Sub { name: "c04.codepoints", f: case_codepoints };
pub const SUB_UTF8_ATOMS: Sub = Sub { name: "c04.utf8-atom-sequences", f: case_utf8_atoms };
pub const SUB_UTF8: Sub = Sub { name: "c04.utf8-sequences", f: case_utf8 };

pub const SUB_H3: Sub = Sub { name: "c04.history.v3", f: case_history::<V3> };
pub const SUB_H5: Sub = Sub { name: "c04.history.v5", f: case_history::<V5> };
/// nums = [first byte, remaining length, start, count]: a block of exhaustively enumerated short frames
fn case_short<F: Family>(input: &Input, ctx: &mut Ctx) -> CaseResult {
    let n = input.nums();
    let (first, rl, start, count) = (n[0] as u8, n[1] as usize, n[2], n[3]);
    for i in start..start + count {
        let fr = crate::shortframes::frame(first, rl, i);
        if let Err(v) = decide::<F>(&fr, ctx).map(|c| { if let Some(c) = c { ctx.label(&c); } }) {
            ctx.refine = Some((if F::FAM == crate::model::Fam::V3 { "c04.frame.v3" } else { "c04.frame.v5" }, Input::Bytes(fr)));
            return Err(v);
        }
    }
    ctx.more_evals(count.saturating_sub(1));
    ctx.label_n("short-frames", count);
    Ok(())
}

pub const SUB_X3: Sub = Sub { name: "c04.short-frames.v3", f: case_short::<V3> };
pub const SUB_X5: Sub = Sub { name: "c04.short-frames.v5", f: case_short::<V5> };
pub const SUB_V3: Sub = Sub { name: "c04.grammar.v3", f: case::<V3> };
pub const SUB_V5: Sub = Sub { name: "c04.grammar.v5", f: case::<V5> };
pub const SUB_B3: Sub = Sub { name: "c04.frame.v3", f: case_bytes::<V3> };
pub const SUB_B5: Sub = Sub { name: "c04.frame.v5", f: case_bytes::<V5> };

pub fn subs() -> Vec<Sub> {
    vec![SUB_V3, SUB_V5, SUB_B3, SUB_B5, SUB_H3, SUB_H5, SUB_X3, SUB_X5, SUB_UTF8, SUB_UTF8_ATOMS, SUB_CODEPOINTS, SUB_PAYLOAD_BOUNDARY]
}

/// hand-assembled frames: the defects repaired by 284f652 / 2d36388 and the pinned leniencies
pub fn vectors(fam: model::Fam) -> Vec<Input> {
    let mut v: Vec<&str> = vec![
        "c0050102030405", // PINGREQ with a body (D4)
        "d00100",
        "c000",
        "d000",
        "8206000100022b7800", // SUBSCRIBE "+x" (D3) (v3 layout)
        "3802000030",         // QoS 0 with DUP (L1)
        "20020100",
        "900200010001",
    ];
    if fam == model::Fam::V3 {
        v.extend(["e000", "e00100", "101000044d5154540402003c000474657374", "100e00044d515454042200000002696400", "b0020001", "a2050001000161"]);
    } else {
        v.extend(["e000", "e00100", "e0020000", "f000", "f00100", "f0021800", "4002000a", "4003000a10", "4004000a1000", "4004000a0000", "82070001000002612b01"]);
    }
    v.into_iter().filter_map(|h| model::unhex(h).map(Input::Bytes)).collect()
}

pub fn run(env: &mut Env) -> RunResult {
    env.run_inputs(SUB_B3, &vectors(model::Fam::V3))?;
    env.run_inputs(SUB_B5, &vectors(model::Fam::V5))?;
    // encodings of the boundary-size constructions (every length-field boundary, lists of 255 .. 65,537 entries): complete,
    // well-formed frames that must be accepted with the values the bytes spell
    let lim = env.tier.sel(3_000_000usize, 40_000_000usize);
    let z3 = crate::sized::encoded_inputs::<V3>(env.thorough(), lim);
    let k3 = z3.len() as u64;
    env.run_enum(SUB_B3, k3, false, move |i| z3[i as usize].clone())?;
    let z5 = crate::sized::encoded_inputs::<V5>(env.thorough(), lim);
    let k5 = z5.len() as u64;
    env.run_enum(SUB_B5, k5, false, move |i| z5[i as usize].clone())?;
    // every frame with a body of 0..=2 bytes and bodies of 3..=4 (thorough: 5) bytes over a reduced alphabet
    let sb = crate::shortframes::blocks(env.thorough(), env.tier.sel(4usize, 5usize));
    let kb = sb.len() as u64;
    let sb2 = sb.clone();
    env.run_enum(SUB_X3, kb, true, move |i| sb2[i as usize].clone())?;
    env.run_enum(SUB_X5, kb, true, move |i| sb[i as usize].clone())?;
    let full = env.thorough();
    let total = utf8_seq_count(full);
    env.run_enum(SUB_UTF8, total.div_ceil(4_096), true, move |i| Input::Nums(vec![full as u64, i * 4_096, 4_096.min(total - i * 4_096)]))?;
    {
        // every offset within 4 of each power of two from 2^6 to 2^16 (thorough: 2^22), nine ill-formed shapes, two fillers
        let mut cases: Vec<Input> = Vec::new();
        let top = env.tier.sel(16u32, 22u32);
        for e in 6..=top {
            let pw = 1u64 << e;
            for d in 0..8u64 {
                let o = pw + 2 - d;
                for shape in 0..9u64 {
                    if e > 16 && shape % 3 != (d % 3) {
                        continue;
                    }
                    cases.push(Input::Nums(vec![pw + 40, o, shape, (shape + d) % 2]));
                }
            }
        }
        let nc = cases.len() as u64;
        env.run_enum(SUB_PAYLOAD_BOUNDARY, nc, false, move |i| cases[i as usize].clone())?;
        env.require("c04.flagged-payload-boundaries", "payload-defect-at-block-boundary");
    }
    env.run_enum(SUB_CODEPOINTS, 0x11_0000 / 2_048, true, |i| Input::Nums(vec![i * 2_048, 2_048]))?;
    env.require("c04.codepoints", "code-points");
    let atoms = env.tier.sel(3u64, 4u64);
    let at = utf8_atom_seq_count(atoms as u32);
    env.run_enum(SUB_UTF8_ATOMS, at.div_ceil(512), true, move |i| Input::Nums(vec![atoms, i * 512, 512.min(at - i * 512)]))?;
    env.require("c04.utf8-atom-sequences", "utf8:well-formed");
    env.require("c04.utf8-atom-sequences", "utf8:ill-formed");
    env.require("c04.utf8-sequences", "utf8:well-formed");
    env.require("c04.utf8-sequences", "utf8:ill-formed");
    let n = env.tier.sel(40_000, 500_000);
    env.run_tapes(SUB_V3, n, 160)?;
    env.run_tapes(SUB_V5, n * 2, 260)?;
    env.run_tapes(SUB_H3, n / 4, 300)?;
    env.run_tapes(SUB_H5, n / 2, 400)?;
    env.require("c04.history.v5", "history:into-response-topic:reject");
    env.require("c04.history.v5", "history:into-topic-name:reject");
    env.require("c04.history.v5", "history:into-filter:reject");
    env.require("c04.history.v3", "history:into-topic-name:reject");
    env.require("c04.history.v3", "history:into-filter:accept");
    use Reject::*;
    let v3_classes = [HeaderType, HeaderFlags, PublishQos, VarIntTooLong, Truncated, Trailing, BodyLength, ProtocolNameLevel, ConnectFlags, WillQos, ConnackFlags, ReturnCode, ZeroPid, RequestedQos, EmptyList, Utf8, TopicName, TopicFilter];
    for c in v3_classes {
        env.require("c04.grammar.v3", &format!("reject:{:?}", c));
    }
    for c in refdec::ALL_REJECTS {
        if matches!(c, ReturnCode | RequestedQos) {
            continue;
        }
        if matches!(c, MultipleSubscriptionId | PayloadFormat) && !env.thorough() {
            continue;
        }
        env.require("c04.grammar.v5", &format!("reject:{:?}", c));
    }
    env.require("c04.grammar.v3", "accept");
    env.require("c04.grammar.v5", "accept");
    env.require("c04.grammar.v5", "spelling:ack:reason-only");
    env.require("c04.grammar.v5", "spelling:properties:shuffled");
    Ok(())
}
