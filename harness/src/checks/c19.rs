//! C19 — packet identifiers cycle through 1..=65535: all 65,535 x 65,536 pairs, exhaustively.

use crate::run::{CaseResult, Ctx, Env, Input, RunResult, Sub};
use crate::{ensure, viol};
use mqtt_proto::{Error, Pid};
use std::convert::TryFrom;

fn model_add(p: u16, u: u16) -> u16 {
    ((p as i64 - 1 + u as i64).rem_euclid(65_535) + 1) as u16
}
fn model_sub(p: u16, u: u16) -> u16 {
    ((p as i64 - 1 - u as i64).rem_euclid(65_535) + 1) as u16
}

fn check_pair(p: u16, u: u16) -> Result<bool, String> {
    let pid = match Pid::try_from(p) {
        Ok(x) => x,
        Err(e) => return Err(format!("Pid::try_from({}) failed: {:?}", p, e)),
    };
    let a = pid + u;
    let s = pid - u;
    if a.value() == 0 || s.value() == 0 {
        return Err(format!("Pid({}) +/- {} produced 0 (add {}, sub {})", p, u, a.value(), s.value()));
    }
    if a.value() != model_add(p, u) {
        return Err(format!("Pid({}) + {} = {} but stepping {} times around the cycle gives {}", p, u, a.value(), u, model_add(p, u)));
    }
    if s.value() != model_sub(p, u) {
        return Err(format!("Pid({}) - {} = {} but stepping back {} times around the cycle gives {}", p, u, s.value(), u, model_sub(p, u)));
    }
    if (a - u) != pid {
        return Err(format!("(Pid({}) + {}) - {} = {} (subtraction does not undo addition)", p, u, u, (a - u).value()));
    }
    if (s + u) != pid {
        return Err(format!("(Pid({}) - {}) + {} = {} (addition does not undo subtraction)", p, u, u, (s + u).value()));
    }
    let mut x = pid;
    x += u;
    let mut y = pid;
    y -= u;
    if x != a || y != s {
        return Err(format!("in-place operators disagree with the pure ones for Pid({}) and {}: += {} vs {}, -= {} vs {}", p, u, x.value(), a.value(), y.value(), s.value()));
    }
    // non-trivial: the sum or the difference crosses the wrap
    Ok(p as u32 + u as u32 > 65_535 || (u as u32) >= p as u32)
}

/// nums = [pid] : all 65,536 amounts for that identifier; nums = [pid, amount]: a single pair
fn case(input: &Input, ctx: &mut Ctx) -> CaseResult {
    let n = input.nums();
    let p = n.first().copied().unwrap_or(1) as u16;
    if p == 0 {
        // construction from a raw integer fails exactly for 0
        match Pid::try_from(0u16) {
            Err(Error::ZeroPid) => {}
            other => viol!("Pid::try_from(0) returned {:?} instead of Err(ZeroPid)", other),
        }
        ensure!(Pid::default().value() != 0, "Pid::default() is 0");
        ctx.label("zero-rejected");
        return Ok(());
    }
    match Pid::try_from(p) {
        Ok(x) => ensure!(x.value() == p, "Pid::try_from({}).value() = {}", p, x.value()),
        Err(e) => viol!("Pid::try_from({}) failed: {:?}", p, e),
    }
    if let Some(u) = n.get(1) {
        return match check_pair(p, *u as u16) {
            Ok(_) => Ok(()),
            Err(m) => Err(crate::run::Violation::new(m)),
        };
    }
    let mut wraps = 0u64;
    for u in 0..=u16::MAX {
        match check_pair(p, u) {
            Ok(w) => wraps += w as u64,
            Err(m) => {
                ctx.refine = Some(("c19.pairs", Input::Nums(vec![p as u64, u as u64])));
                return Err(crate::run::Violation::new(m));
            }
        }
    }
    ctx.more_evals(65_535);
    ctx.count_distinct(wraps);
    ctx.label_n("pairs-crossing-the-wrap", wraps);
    ctx.label_n("pairs", 65_536);
    if p == 1 || p == 65_535 || p == 32_768 {
        ctx.sample(|| format!("Pid({}): +1 = {}, -1 = {}, +65535 = {}, -65535 = {}, +40000 = {}", p, (Pid::try_from(p).unwrap() + 1).value(), (Pid::try_from(p).unwrap() - 1).value(), (Pid::try_from(p).unwrap() + 65_535).value(), (Pid::try_from(p).unwrap() - 65_535).value(), (Pid::try_from(p).unwrap() + 40_000).value()));
    }
    Ok(())
}

pub const SUB: Sub = Sub { name: "c19.pairs", f: case };

pub fn subs() -> Vec<Sub> {
    vec![SUB]
}

pub fn run(env: &mut Env) -> RunResult {
    // index 0 is the zero-construction case, 1..=65535 the identifiers
    env.run_enum(SUB, 65_536, true, |i| Input::Nums(vec![i]))?;
    env.require("c19.pairs", "zero-rejected");
    env.require("c19.pairs", "pairs-crossing-the-wrap");
    Ok(())
}
