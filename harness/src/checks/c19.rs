//! C19 — packet identifiers cycle through 1..=65535: all 65,535 x 65,536 pairs, exhaustively.

use crate::run::{CaseResult, Ctx, Env, Input, RunResult, Sub};
use crate::{ensure, viol};
use mqtt_proto::{Error, Pid};
use std::convert::{TryFrom, TryInto};

fn model_add(p: u16, u: u16) -> u16 {
    ((p as i64 - 1 + u as i64).rem_euclid(65_535) + 1) as u16
}
fn model_sub(p: u16, u: u16) -> u16 {
    ((p as i64 - 1 - u as i64).rem_euclid(65_535) + 1) as u16
}

fn check_pair(p: u16, u: u16) -> Result<bool, String> {
    let pid = match Pid::try_from(p) {
        Ok(x) => x,
        Err(e) => return Err(format!("Pid::try_from({}) failed: {:?}", p, e)),
    };
    let a = pid + u;
    let s = pid - u;
    if a.value() == 0 || s.value() == 0 {
        return Err(format!("Pid({}) +/- {} produced 0 (add {}, sub {})", p, u, a.value(), s.value()));
    }
    if a.value() != model_add(p, u) {
        return Err(format!("Pid({}) + {} = {} but stepping {} times around the cycle gives {}", p, u, a.value(), u, model_add(p, u)));
    }
    if s.value() != model_sub(p, u) {
        return Err(format!("Pid({}) - {} = {} but stepping back {} times around the cycle gives {}", p, u, s.value(), u, model_sub(p, u)));
    }
    if (a - u) != pid {
        return Err(format!("(Pid({}) + {}) - {} = {} (subtraction does not undo addition)", p, u, u, (a - u).value()));
    }
    if (s + u) != pid {
        return Err(format!("(Pid({}) - {}) + {} = {} (addition does not undo subtraction)", p, u, u, (s + u).value()));
    }
    let mut x = pid;
    x += u;
    let mut y = pid;
    y -= u;
    if x != a || y != s {
        return Err(format!("in-place operators disagree with the pure ones for Pid({}) and {}: += {} vs {}, -= {} vs {}", p, u, x.value(), a.value(), y.value(), s.value()));
    }
    // the same operations spelled the other ways application code spells them: method-call syntax and type-qualified
    // paths with the operator traits in scope (whatever these resolve to, they are "adding" and "subtracting")
    {
        use std::ops::{Add, AddAssign, Sub, SubAssign};
        let forms: [(&str, Pid, Pid); 6] = [
            ("pid.add(n)", pid.add(u), a),
            ("Pid::add(pid, n)", Pid::add(pid, u), a),
            ("<Pid as Add<u16>>::add(pid, n)", <Pid as Add<u16>>::add(pid, u), a),
            ("pid.sub(n)", pid.sub(u), s),
            ("Pid::sub(pid, n)", Pid::sub(pid, u), s),
            ("<Pid as Sub<u16>>::sub(pid, n)", <Pid as Sub<u16>>::sub(pid, u), s),
        ];
        for (how, got, want) in forms {
            if got != want || got.value() == 0 {
                return Err(format!("{} with pid = Pid({}), n = {} gives {} but the operator form gives {}", how, p, u, got.value(), want.value()));
            }
        }
        let mut x2 = pid;
        x2.add_assign(u);
        let mut y2 = pid;
        y2.sub_assign(u);
        let mut x3 = pid;
        Pid::add_assign(&mut x3, u);
        let mut y3 = pid;
        Pid::sub_assign(&mut y3, u);
        if x2 != a || y2 != s || x3 != a || y3 != s {
            return Err(format!("add_assign / sub_assign called as methods disagree with + / - for Pid({}) and {}: {} {} {} {} vs {} {}", p, u, x2.value(), y2.value(), x3.value(), y3.value(), a.value(), s.value()));
        }
    }
    // non-trivial: the sum or the difference crosses the wrap
    Ok(p as u32 + u as u32 > 65_535 || (u as u32) >= p as u32)
}

/// nums = [pid] : all 65,536 amounts for that identifier; nums = [pid, amount]: a single pair
fn case(input: &Input, ctx: &mut Ctx) -> CaseResult {
    let n = input.nums();
    let p = n.first().copied().unwrap_or(1) as u16;
    if p == 0 {
        // construction from a raw integer fails exactly for 0
        match Pid::try_from(0u16) {
            Err(Error::ZeroPid) => {}
            other => viol!("Pid::try_from(0) returned {:?} instead of Err(ZeroPid)", other),
        }
        ensure!(Pid::default().value() != 0, "Pid::default() is 0");
        // construction written the way application code writes it, from bare integer literals (whatever integer type the
        // literal ends up with, it names an identifier of 1..=65535 or 0)
        macro_rules! from_lit {
            ($($n:literal),*) => {$(
                match Pid::try_from($n) {
                    Ok(x) => ensure!(x.value() as u64 == $n as u64 && $n != 0, "Pid::try_from({}) (a bare literal) gives Pid({})", $n, x.value()),
                    Err(e) => ensure!($n == 0 && matches!(e, Error::ZeroPid), "Pid::try_from({}) (a bare literal) fails with {:?}", $n, e),
                }
                let r: Result<Pid, _> = $n.try_into();
                match r {
                    Ok(x) => ensure!(x.value() as u64 == $n as u64 && $n != 0, "{}.try_into() gives Pid({})", $n, x.value()),
                    Err(e) => ensure!($n == 0 && matches!(e, Error::ZeroPid), "{}.try_into() fails with {:?}", $n, e),
                }
            )*};
        }
        from_lit!(0, 1, 2, 127, 128, 255, 256, 32767, 32768, 65534, 65535);
        // ... however often it is called (more often than there are identifiers), from this thread and from another one,
        // and what it returns takes part in the arithmetic like any other identifier
        let many = |who: &str| -> Result<(), String> {
            for i in 0..200_000u32 {
                let d = Pid::default();
                if d.value() == 0 || Pid::try_from(d.value()) != Ok(d) || (d + 0).value() == 0 || (d + 1).value() != model_add(d.value(), 1) || (d - 1).value() != model_sub(d.value(), 1) {
                    return Err(format!("call #{} of Pid::default() ({}) returned identifier {} (+1 -> {}, -1 -> {})", i + 1, who, d.value(), (d + 1).value(), (d - 1).value()));
                }
            }
            Ok(())
        };
        if let Err(m) = many("on this thread") {
            viol!("{}", m);
        }
        match std::thread::spawn(move || many("on a second thread")).join() {
            Ok(Ok(())) => {}
            Ok(Err(m)) => viol!("{}", m),
            Err(_) => viol!("Pid::default() panicked on a second thread"),
        }
        ctx.label("zero-rejected");
        return Ok(());
    }
    match Pid::try_from(p) {
        Ok(x) => ensure!(x.value() == p, "Pid::try_from({}).value() = {}", p, x.value()),
        Err(e) => viol!("Pid::try_from({}) failed: {:?}", p, e),
    }
    if let Some(u) = n.get(1) {
        return match check_pair(p, *u as u16) {
            Ok(_) => Ok(()),
            Err(m) => Err(crate::run::Violation::new(m)),
        };
    }
    // the in-place operators written the way application code writes them, with bare integer literals (whatever type the
    // literal ends up with, the result is the identifier that many steps around the cycle)
    {
        let pid = match Pid::try_from(p) {
            Ok(x) => x,
            Err(e) => viol!("Pid::try_from({}) failed: {:?}", p, e),
        };
        macro_rules! lit {
            ($($n:literal),*) => {$(
                let mut a = pid;
                a += $n;
                let mut b = pid;
                b -= $n;
                ensure!(a.value() == model_add(p, $n as u16) && a == pid + ($n as u16), "Pid({}) += {} (a bare literal) gives {} but Pid({}) + {} is {}", p, $n, a.value(), p, $n, (pid + ($n as u16)).value());
                ensure!(b.value() == model_sub(p, $n as u16) && b == pid - ($n as u16), "Pid({}) -= {} (a bare literal) gives {} but Pid({}) - {} is {}", p, $n, b.value(), p, $n, (pid - ($n as u16)).value());
            )*};
        }
        lit!(0, 1, 2, 3, 4, 7, 100, 255, 256, 32767, 32768, 65534, 65535);
    }
    let mut wraps = 0u64;
    for u in 0..=u16::MAX {
        match check_pair(p, u) {
            Ok(w) => wraps += w as u64,
            Err(m) => {
                ctx.refine = Some(("c19.pairs", Input::Nums(vec![p as u64, u as u64])));
                return Err(crate::run::Violation::new(m));
            }
        }
    }
    ctx.more_evals(65_535);
    ctx.count_distinct(wraps);
    ctx.label_n("pairs-crossing-the-wrap", wraps);
    ctx.label_n("pairs", 65_536);
    if p == 1 || p == 65_535 || p == 32_768 {
        ctx.sample(|| format!("Pid({}): +1 = {}, -1 = {}, +65535 = {}, -65535 = {}, +40000 = {}", p, (Pid::try_from(p).unwrap() + 1).value(), (Pid::try_from(p).unwrap() - 1).value(), (Pid::try_from(p).unwrap() + 65_535).value(), (Pid::try_from(p).unwrap() - 65_535).value(), (Pid::try_from(p).unwrap() + 40_000).value()));
    }
    Ok(())
}


/// Long chains of operations on one identifier: however the value is represented inside, after any number of steps it
/// must still be where stepping around the cycle puts it. nums = [start, kind]: kind 0 = `+= 65535` (a full lap)
/// 70,000 times, 1 = `-= 65535` 70,000 times, 2 = 300,000 pseudo-random `+=` / `-=` / `+` / `-` steps, 3 = `+= 1`
/// 140,000 times (twice round), 4 = alternating `+= 65535`, `-= 1`.
fn chain(input: &Input, ctx: &mut Ctx) -> CaseResult {
    let n = input.nums();
    let start = (n[0] as u16).max(1);
    let kind = n.get(1).copied().unwrap_or(0);
    let mut pid = match Pid::try_from(start) {
        Ok(p) => p,
        Err(e) => viol!("Pid::try_from({}) failed: {:?}", start, e),
    };
    let mut model = start;
    let steps: u64 = match kind {
        2 => 300_000,
        3 => 140_000,
        _ => 70_000,
    };
    let mut x = 0x2545_F491_4F6C_DD1Du64 ^ (start as u64) << 17;
    for i in 0..steps {
        let (add, amount): (bool, u16) = match kind {
            0 => (true, 65_535),
            1 => (false, 65_535),
            3 => (true, 1),
            4 => (i % 2 == 0, if i % 2 == 0 { 65_535 } else { 1 }),
            _ => {
                x ^= x << 13;
                x ^= x >> 7;
                x ^= x << 17;
                ((x >> 40) & 1 == 0, if (x >> 41) & 3 == 0 { 65_535 - ((x >> 20) & 3) as u16 } else { (x >> 16) as u16 })
            }
        };
        if add {
            model = model_add(model, amount);
            if i % 3 == 0 {
                pid = pid + amount;
            } else {
                pid += amount;
            }
        } else {
            model = model_sub(model, amount);
            if i % 3 == 0 {
                pid = pid - amount;
            } else {
                pid -= amount;
            }
        }
        if pid.value() != model || pid.value() == 0 {
            viol!("after {} steps of a chain starting at Pid({}) (last step {} {}) the identifier is {} but stepping around the cycle gives {}", i + 1, start, if add { "+" } else { "-" }, amount, pid.value(), model);
        }
    }
    // the identifier reached through the chain is the same value as one constructed directly
    match Pid::try_from(model) {
        Ok(direct) => ensure!(direct == pid && pid == direct && direct.value() == pid.value(), "Pid({}) reached through a chain of {} steps is not equal to Pid::try_from({})", pid.value(), steps, model),
        Err(e) => viol!("Pid::try_from({}) failed: {:?}", model, e),
    }
    ctx.more_evals(steps);
    ctx.count_distinct(steps);
    ctx.label("chains");
    if start == 1 {
        ctx.sample(|| format!("chain kind {} from Pid(1): {} steps, ends at {}", kind, steps, pid.value()));
    }
    Ok(())
}

pub const SUB_CHAIN: Sub = Sub { name: "c19.chains", f: chain };

pub const SUB: Sub = Sub { name: "c19.pairs", f: case };

pub fn subs() -> Vec<Sub> {
    vec![SUB, SUB_CHAIN]
}

pub fn run(env: &mut Env) -> RunResult {
    // index 0 is the zero-construction case, 1..=65535 the identifiers
    env.run_enum(SUB, 65_536, true, |i| Input::Nums(vec![i]))?;
    let chains: Vec<Input> = [1u64, 2, 255, 256, 32_768, 65_534, 65_535].iter().flat_map(|s| (0..5u64).map(move |k| Input::Nums(vec![*s, k]))).collect();
    let nc = chains.len() as u64;
    env.run_enum(SUB_CHAIN, nc, false, move |i| chains[i as usize].clone())?;
    env.require("c19.chains", "chains");
    env.require("c19.pairs", "zero-rejected");
    env.require("c19.pairs", "pairs-crossing-the-wrap");
    Ok(())
}
