//! C15 — variable-byte-integer and length helpers obey their arithmetic laws.
//! Thorough: all 2^28 values. Quick: every value below 70,000, windows of +-70,000 around each
//! width boundary, and a stride-97 sample of the rest.

use crate::fam::{Family, V3, V5};
use crate::model::hex;
use crate::run::{CaseResult, Ctx, Env, Input, RunResult, Sub, Violation};
use crate::sio::{ScriptedReader, Step};
use crate::{ensure, viol};
use futures_lite::future::block_on;
use mqtt_proto::{
    decode_raw_header, header_len, remaining_len, total_len, v5, var_int_len, Encodable, Error, GenericPollPacketState,
};
use std::convert::TryFrom;

const MAX: u64 = 268_435_455;

fn model_width(v: u64) -> usize {
    1 + (v >= 1 << 7) as usize + (v >= 1 << 14) as usize + (v >= 1 << 21) as usize
}

fn model_bytes(v: u64) -> Vec<u8> {
    let w = model_width(v);
    (0..w).map(|i| (((v >> (7 * i)) & 0x7F) as u8) | if i + 1 < w { 0x80 } else { 0 }).collect()
}

fn check_value(v: u64, with_poll: bool) -> Result<(), String> {
    let w = model_width(v);
    let mb = model_bytes(v);
    // encoded size
    match var_int_len(v as usize) {
        Ok(n) if n == w => {}
        other => return Err(format!("var_int_len({}) = {:?}, expected {}", v, other, w)),
    }
    // writer, reached through the SUBSCRIBE property set (property length, id 0x0B, var-int)
    let vb = match v5::VarByteInt::try_from(v as u32) {
        Ok(x) => x,
        Err(e) => return Err(format!("VarByteInt::try_from({}) failed: {:?}", v, e)),
    };
    if vb.value() as u64 != v {
        return Err(format!("VarByteInt::try_from({}).value() = {}", v, vb.value()));
    }
    let props = v5::SubscribeProperties { subscription_id: Some(vb), user_properties: Vec::new() };
    let mut out = Vec::with_capacity(8);
    if let Err(e) = props.encode(&mut out) {
        return Err(format!("writer failed for {}: {:?}", v, e));
    }
    let mut expect = vec![(1 + w) as u8, 0x0B];
    expect.extend_from_slice(&mb);
    if out != expect {
        return Err(format!("var-int writer emitted {} for {} (minimal form is {})", hex(&out), v, hex(&expect)));
    }
    if props.encode_len() != out.len() {
        return Err(format!("encoded size {} reported for value {} but {} bytes written", props.encode_len(), v, out.len()));
    }
    if with_poll {
        // the same through sinks that accept one or two bytes per write (boundary and sampled values)
        for k in [1usize, 2, 3] {
            let steps = [crate::sio::WStep::Accept(k); 12];
            let mut w = crate::sio::ScriptedWriter::new(&steps, 16);
            match props.encode(&mut w) {
                Ok(()) if w.out == out => {}
                other => return Err(format!("var-int writer for {} through a sink accepting {} byte(s) per write: {:?}, wrote {} instead of {}", v, k, other, hex(&w.out), hex(&out))),
            }
        }
    }
    // reader inverts the writer and reports what it consumed
    let mut r: &[u8] = &out;
    match block_on(v5::SubscribeProperties::decode_async(&mut r, v5::PacketType::Subscribe)) {
        Ok(p) if p == props && r.is_empty() => {}
        other => return Err(format!("reader does not invert the writer for {}: {:?} (left {} bytes)", v, other, r.len())),
    }
    let mut hdr = vec![0x30u8];
    hdr.extend_from_slice(&mb);
    hdr.push(0xEE); // a following byte that must not be consumed
    let mut r: &[u8] = &hdr;
    match block_on(decode_raw_header(&mut r)) {
        Ok((0x30, x)) if x as u64 == v && r.len() == 1 => {}
        other => return Err(format!("decode_raw_header on {} gives {:?} with {} bytes left (expected value {}, 1 left)", hex(&hdr), other, r.len(), v)),
    }
    // length helpers
    let total = v as usize + 1 + w;
    match total_len(v as usize) {
        Ok(t) if t == total => {}
        other => return Err(format!("total_len({}) = {:?}, expected {}", v, other, total)),
    }
    if header_len(total) != 1 + w {
        return Err(format!("header_len({}) = {}, expected {}", total, header_len(total), 1 + w));
    }
    if remaining_len(total) != v as usize {
        return Err(format!("remaining_len({}) = {}, expected {}", total, remaining_len(total), v));
    }
    if with_poll && v > 0 {
        let _ = poll_header::<V3>(&mb, Some((v, w)))?;
        let _ = poll_header::<V5>(&mb, Some((v, w)))?;
    }
    Ok(())
}

/// Feeds `0x30 ++ varint` (a PUBLISH header) and nothing else to the poll decoder and inspects the state it built.
/// The header is delivered in one read, one byte per read with a Pending before every byte, and the
/// same with the future dropped and re-created at every Pending; all three must agree.
/// `expect`: Some((v, w)) = var-int is complete with value v in w bytes; None = caller checks the error itself.
fn poll_header<F: Family>(varint: &[u8], expect: Option<(u64, usize)>) -> Result<Result<(), F::Error>, String> {
    let first = poll_header_mode::<F>(varint, expect, 0)?;
    for mode in 1..5 {
        let other = poll_header_mode::<F>(varint, expect, mode)?;
        if other != first {
            return Err(format!(
                "{} poll header machine on 30{}: result {:?} when the header arrives byte by byte with {} in between, {:?} in one read",
                F::FAM.name(),
                hex(varint),
                other,
                ["", "Pending (same future)", "Pending (future re-created at every Pending)", "a transient transport failure (Interrupted / WouldBlock / TimedOut), polled again with the same state,", "the first byte already taken by the caller (state built as PollHeaderState { control_byte: Some(first), ..Default::default() })"][mode as usize],
                first
            ));
        }
    }
    Ok(first)
}

fn poll_header_mode<F: Family>(varint: &[u8], expect: Option<(u64, usize)>, mode: u8) -> Result<Result<(), F::Error>, String> {
    use std::future::Future;
    let mut data = vec![0x30u8];
    data.extend_from_slice(varint);
    let transient = [std::io::ErrorKind::Interrupted, std::io::ErrorKind::WouldBlock, std::io::ErrorKind::TimedOut];
    let steps: Vec<Step> = match mode {
        0 => Vec::new(),
        3 => (0..data.len() * 2 + 2).map(|i| if i % 2 == 0 { Step::Fail(transient[(i / 2) % 3]) } else { Step::Chunk(1) }).collect(),
        _ => (0..data.len() * 2 + 2).map(|i| if i % 2 == 0 { Step::Pending } else { Step::Chunk(1) }).collect(),
    };
    // mode 4: the caller has looked at the first byte of the connection itself (to tell protocols apart) and hands the
    // decoder a state that says so - the public fields of the header state, everything else at its default
    let peeked = mode == 4;
    let mut reader = ScriptedReader::new(if peeked { &data[1..] } else { &data }, &steps);
    let transients = reader.transients.clone();
    let last_transient = reader.last_transient.clone();
    let mut seen = 0u64;
    let mut state: GenericPollPacketState<F::Header> = if peeked {
        GenericPollPacketState::Header(mqtt_proto::PollHeaderState { control_byte: Some(data[0]), ..Default::default() })
    } else {
        GenericPollPacketState::default()
    };
    let waker = crate::sio::noop_waker();
    let mut cx = std::task::Context::from_waker(&waker);
    let mut polls = 0;
    let res = 'outer: loop {
        let mut fut = mqtt_proto::GenericPollPacket::new(&mut state, &mut reader);
        loop {
            polls += 1;
            if polls > 64 {
                return Err(format!("{} poll header machine on 30{} does not finish", F::FAM.name(), hex(varint)));
            }
            match std::pin::Pin::new(&mut fut).poll(&mut cx) {
                std::task::Poll::Ready(r) => {
                    if transients.get() > seen {
                        // the transport failed in this poll: the decoder has to say so, and is then polled again
                        seen = transients.get();
                        let surfaced = matches!(&r, Err(e) if matches!(F::common(e), Some(Error::IoError(k, _)) if *k == last_transient.get()));
                        if !surfaced {
                            return Err(format!("{} poll header machine on 30{}: the transport failed with {:?} and the decoder answered {:?} instead of that I/O error", F::FAM.name(), hex(varint), last_transient.get(), r.map(|x| x.0)));
                        }
                        continue 'outer;
                    }
                    break 'outer r;
                }
                std::task::Poll::Pending => {
                    if transients.get() > seen {
                        return Err(format!("{} poll header machine on 30{}: the transport failed with {:?} and the decoder answered Pending", F::FAM.name(), hex(varint), last_transient.get()));
                    }
                    if mode == 2 {
                        continue 'outer;
                    }
                }
            }
        }
    };
    let res = res.map(|_| ());
    if let Some((v, w)) = expect {
        match &state {
            GenericPollPacketState::Body(b) => {
                let rl = mqtt_proto::PollHeader::remaining_len(&b.header);
                if b.total != v as usize + 1 + w || b.buf.len() != v as usize || rl != v as usize || b.idx != 0 {
                    return Err(format!(
                        "{} poll header machine on {} (delivery mode {}): total {}, buffer {}, remaining_len {}, idx {}; expected total {}, buffer {}",
                        F::FAM.name(),
                        hex(&data),
                        mode,
                        b.total,
                        b.buf.len(),
                        rl,
                        b.idx,
                        v as usize + 1 + w,
                        v
                    ));
                }
            }
            GenericPollPacketState::Header(h) => {
                return Err(format!("{} poll header machine on {} (delivery mode {}) stayed in the header state {:?} (result {:?})", F::FAM.name(), hex(&data), mode, h, res));
            }
        }
        match &res {
            Err(e) if F::is_eof(e) => {}
            other => return Err(format!("{} poll decoder with only a header {} returned {:?} instead of an EOF error", F::FAM.name(), hex(&data), other)),
        }
    }
    Ok(res)
}

/// nums = [start, end, stride]: checks start, start+stride, .. < end
fn case_block(input: &Input, ctx: &mut Ctx) -> CaseResult {
    let n = input.nums();
    let (start, end, stride) = (n.first().copied().unwrap_or(0), n.get(1).copied().unwrap_or(0), n.get(2).copied().unwrap_or(1).max(1));
    let mut v = start;
    let mut count = 0u64;
    let mut boundary = 0u64;
    while v < end && v <= MAX {
        let near = [1u64 << 7, 1 << 14, 1 << 21, 1 << 28].iter().any(|b| v + 2 >= *b && v <= *b + 1);
        let with_poll = near || (v % 4099 == 0);
        if let Err(m) = check_value(v, with_poll) {
            ctx.refine = Some(("c15.values", Input::Nums(vec![v, v + 1, 1])));
            return Err(Violation::new(m));
        }
        if near {
            boundary += 1;
        }
        if with_poll {
            ctx.label("poll-header-state-inspected");
        }
        count += 1;
        v += stride;
    }
    if count > 0 {
        ctx.more_evals(count - 1);
        ctx.count_distinct(count);
        ctx.label_n("values", count);
        ctx.label_n("width-boundary-neighbourhood", boundary);
        if start == 0 || start >= MAX - 70_000 {
            ctx.sample(|| format!("values {}..{} step {}: e.g. {} -> {}", start, end, stride, start, hex(&model_bytes(start))));
        }
    }
    Ok(())
}

/// the first invalid values: every helper must refuse them
fn case_invalid(input: &Input, ctx: &mut Ctx) -> CaseResult {
    let v = input.nums().first().copied().unwrap_or(MAX + 1);
    ensure!(v > MAX, "MQV-INTERNAL: c15.invalid needs a value above the maximum");
    ensure!(var_int_len(v as usize) == Err(Error::InvalidVarByteInt), "var_int_len({}) = {:?}", v, var_int_len(v as usize));
    ensure!(total_len(v as usize) == Err(Error::InvalidVarByteInt), "total_len({}) = {:?}", v, total_len(v as usize));
    if v <= u32::MAX as u64 {
        ensure!(v5::VarByteInt::try_from(v as u32).is_err(), "VarByteInt::try_from({}) succeeded", v);
    }
    ctx.count_distinct(1);
    ctx.label("rejected-value");
    ctx.sample(|| format!("value {} refused by var_int_len, total_len, VarByteInt::try_from", v));
    Ok(())
}

/// bytes = a continuation-bit pattern of up to five bytes
fn case_pattern(input: &Input, ctx: &mut Ctx) -> CaseResult {
    let s = input.bytes();
    // model: Ok((value, width)) / Err(true) over-long / Err(false) incomplete
    let mut model: Result<(u64, usize), bool> = Err(false);
    let mut acc = 0u64;
    for (i, b) in s.iter().enumerate() {
        if i == 4 {
            break;
        }
        acc |= ((*b & 0x7F) as u64) << (7 * i);
        if b & 0x80 == 0 {
            model = Ok((acc, i + 1));
            break;
        }
        if i == 3 {
            model = Err(true);
        }
    }
    let mut hdr = vec![0x30u8];
    hdr.extend_from_slice(s);
    // standalone reader
    let mut r: &[u8] = &hdr;
    let got = block_on(decode_raw_header(&mut r));
    let used = hdr.len() - r.len();
    match (&model, &got) {
        (Ok((v, w)), Ok((0x30, x))) => ensure!(*x as u64 == *v && used == 1 + w, "decode_raw_header({}) = {} using {} bytes; model {} using {}", hex(&hdr), x, used, v, 1 + w),
        (Err(true), Err(Error::InvalidVarByteInt)) => ensure!(used == 5, "over-long var-int {}: {} bytes consumed before the error, expected 5", hex(&hdr), used),
        (Err(false), Err(e)) if e.is_eof() => {}
        _ => viol!("decode_raw_header({}) = {:?}; model {:?}", hex(&hdr), got, model),
    }
    // the standalone async readers over a transport that is not ready before every byte (and delivers one byte at a time):
    // the same value, the same number of bytes consumed, the same rejection as from a slice
    {
        let steps: Vec<Step> = (0..hdr.len() * 2 + 4).map(|i| if i % 2 == 0 { Step::Pending } else { Step::Chunk(1) }).collect();
        let mut rd = ScriptedReader::new(&hdr, &steps);
        let (got2, _) = crate::sio::drive(decode_raw_header(&mut rd), hdr.len() * 3 + 16);
        let same = match (&got, &got2) {
            (Ok(a), Ok(b)) => a == b && rd.pos == used,
            (Err(a), Err(b)) => format!("{:?}", a) == format!("{:?}", b) || (a.is_eof() && b.is_eof()),
            _ => false,
        };
        ensure!(same, "decode_raw_header({}) over a transport that is Pending before every byte returned {:?} after {} bytes; from a slice it returns {:?} after {} bytes", hex(&hdr), got2, rd.pos, got, used);
        let mut rd3 = ScriptedReader::new(&hdr, &steps);
        let (h3p, _) = crate::sio::drive(V3::header_decode_async(&mut rd3), hdr.len() * 3 + 16);
        let mut rd5 = ScriptedReader::new(&hdr, &steps);
        let (h5p, _) = crate::sio::drive(V5::header_decode_async(&mut rd5), hdr.len() * 3 + 16);
        let h3s = V3::header_decode(&hdr);
        let h5s = V5::header_decode(&hdr);
        ensure!(h3p == h3s || matches!((&h3p, &h3s), (Err(a), Err(b)) if a.is_eof() && b.is_eof()), "v3 Header::decode_async({}) over a transport that is Pending before every byte returned {:?}; Header::decode returns {:?}", hex(&hdr), h3p, h3s);
        ensure!(h5p == h5s || matches!((&h5p, &h5s), (Err(a), Err(b)) if a.is_eof() && b.is_eof()), "v5 Header::decode_async({}) over a transport that is Pending before every byte returned {:?}; Header::decode returns {:?}", hex(&hdr), h5p, h5s);
    }
    // the standalone reader over a transport that fails once (Interrupted) before byte j: the error comes back as such;
    // never a value assembled from the wrong bytes, never one byte too many consumed
    if let Ok((_, w)) = &model {
        for j in 0..=*w {
            let mut rd = ScriptedReader::new(&hdr, &[]);
            rd.fail_once_at = Some((j, std::io::ErrorKind::Interrupted));
            let (got, _) = crate::sio::drive(decode_raw_header(&mut rd), 16);
            match &got {
                Err(Error::IoError(k, _)) if *k == std::io::ErrorKind::Interrupted => {}
                other => viol!("decode_raw_header({}) over a transport that is interrupted once before byte {} returned {:?} after consuming {} bytes, instead of the I/O error", hex(&hdr), j, other, rd.pos),
            }
            ensure!(rd.pos == j, "decode_raw_header({}) consumed {} bytes although the transport failed before byte {}", hex(&hdr), rd.pos, j);
        }
    }
    // Header::decode of both families
    let h3 = V3::header_decode(&hdr);
    let h5 = V5::header_decode(&hdr);
    match &model {
        Ok((v, _)) => {
            ensure!(matches!(&h3, Ok(h) if h.remaining_len as u64 == *v), "v3 Header::decode({}) = {:?}; model value {}", hex(&hdr), h3, v);
            ensure!(matches!(&h5, Ok(h) if h.remaining_len as u64 == *v), "v5 Header::decode({}) = {:?}; model value {}", hex(&hdr), h5, v);
        }
        Err(true) => {
            ensure!(h3 == Err(Error::InvalidVarByteInt), "v3 Header::decode({}) = {:?} for an over-long var-int", hex(&hdr), h3);
            ensure!(h5 == Err(v5::ErrorV5::Common(Error::InvalidVarByteInt)), "v5 Header::decode({}) = {:?} for an over-long var-int", hex(&hdr), h5);
        }
        Err(false) => {
            ensure!(matches!(&h3, Err(e) if e.is_eof()), "v3 Header::decode({}) = {:?} for an incomplete var-int", hex(&hdr), h3);
            ensure!(matches!(&h5, Err(e) if e.is_eof()), "v5 Header::decode({}) = {:?} for an incomplete var-int", hex(&hdr), h5);
        }
    }
    // poll decoder's header state machine (pattern cut after the var-int so that nothing is a body byte)
    let cut = match &model {
        Ok((_, w)) => &s[..*w],
        Err(true) => &s[..s.len().min(5)],
        Err(false) => s,
    };
    for fam in 0..2 {
        let (res, name): (Result<Result<(), String>, String>, &str) = if fam == 0 {
            (poll_header::<V3>(cut, model.ok().filter(|(v, _)| *v > 0)).map(|r| r.map_err(|e| format!("{:?}", e))), "v3")
        } else {
            (poll_header::<V5>(cut, model.ok().filter(|(v, _)| *v > 0)).map(|r| r.map_err(|e| format!("{:?}", e))), "v5")
        };
        let res = res.map_err(Violation::new)?;
        match &model {
            Ok((0, _)) => ensure!(matches!(&res, Err(e) if e.contains("InvalidRemainingLength")), "{} poll decoder on PUBLISH header {} with remaining length 0 returned {:?}", name, hex(cut), res),
            Ok(_) => {}
            Err(true) => ensure!(matches!(&res, Err(e) if e.contains("InvalidVarByteInt")), "{} poll header machine on over-long var-int {} returned {:?}", name, hex(cut), res),
            Err(false) => ensure!(matches!(&res, Err(e) if e.contains("UnexpectedEof")), "{} poll header machine on incomplete var-int {} returned {:?}", name, hex(cut), res),
        }
    }
    // the same header state machine in front of a packet type without a body (PINGREQ, PINGRESP, v3 DISCONNECT): a
    // remaining length of 0 in any width is the packet, with the bytes actually read reported; anything else is refused
    // in the same way as for any other type (too long: InvalidVarByteInt; cut off: EOF; non-zero: a length error)
    for (ctl, v3_only) in [(0xC0u8, false), (0xD0, false), (0xE0, true)] {
        let mut frame = vec![ctl];
        frame.extend_from_slice(match &model {
            Ok((_, w)) => &s[..*w],
            Err(true) => &s[..s.len().min(5)],
            Err(false) => s,
        });
        let flen = frame.len();
        frame.push(0xC0); // a following packet that must not be touched
        frame.push(0x00);
        for fam in 0..2 {
            if fam == 1 && v3_only {
                continue;
            }
            let (res, total, pos): (Result<(), String>, usize, usize) = if fam == 0 {
                let r = crate::fam::dec_poll::<V3>(if matches!(model, Err(false)) { &frame[..flen] } else { &frame });
                (r.result.as_ref().map(|_| ()).map_err(|e| format!("{:?}", e)), r.result.as_ref().map(|o| o.total).unwrap_or(0), r.pos)
            } else {
                let r = crate::fam::dec_poll::<V5>(if matches!(model, Err(false)) { &frame[..flen] } else { &frame });
                (r.result.as_ref().map(|_| ()).map_err(|e| format!("{:?}", e)), r.result.as_ref().map(|o| o.total).unwrap_or(0), r.pos)
            };
            let name = if fam == 0 { "v3" } else { "v5" };
            match &model {
                Ok((0, w)) => ensure!(res.is_ok() && total == 1 + w && pos == 1 + w, "{} poll decoder on the body-less packet {} (remaining length 0 written in {} byte(s)) returned {:?}, total {}, {} bytes consumed", name, hex(&frame[..flen]), w, res, total, pos),
                Ok(_) => ensure!(matches!(&res, Err(e) if e.contains("InvalidRemainingLength")), "{} poll decoder on the body-less packet type {:#04x} with a non-zero remaining length ({}) returned {:?}", name, ctl, hex(&frame[..flen]), res),
                Err(true) => ensure!(matches!(&res, Err(e) if e.contains("InvalidVarByteInt")), "{} poll decoder on {} (over-long remaining length in front of a body-less packet type) returned {:?} instead of InvalidVarByteInt", name, hex(&frame[..flen]), res),
                Err(false) => ensure!(matches!(&res, Err(e) if e.contains("UnexpectedEof")), "{} poll decoder on {} (remaining length cut off) returned {:?} instead of an EOF error", name, hex(&frame[..flen]), res),
            }
        }
    }
    ctx.count_distinct(1);
    ctx.label(match model {
        Ok((_, w)) => ["", "pattern:1-byte", "pattern:2-byte", "pattern:3-byte", "pattern:4-byte"][w],
        Err(true) => "pattern:over-long",
        Err(false) => "pattern:incomplete",
    });
    if s.len() == 5 {
        ctx.sample(|| format!("pattern {} -> model {:?}", hex(s), model));
    }
    Ok(())
}

/// The var-int readers inside packet bodies (property length of every v5 packet type and of the will,
/// Subscription Identifier values): a generated valid packet is serialised by the harness with those
/// var-ints written in a chosen width of 1-4 bytes (padded with continuation bytes where that is wider than
/// the minimal form). The value does not change, so every front-end must return the original packet, and
/// "reports the bytes consumed" is observed as: the poll decoder's total and the async decoder's reader
/// position equal the frame length exactly, also when another packet follows.
/// Asserted for the packet types in which the reader's count is observable: UNSUBSCRIBE (whose decoder
/// uses the reported count for its length accounting) and the types whose property section is followed by
/// nothing or by self-delimiting fields (CONNECT incl. the will, CONNACK, PUBACK/PUBREC/PUBREL/PUBCOMP,
/// DISCONNECT, AUTH). PUBLISH, SUBSCRIBE, SUBACK and UNSUBACK size what follows the properties from the
/// canonical size of the decoded property set, so a padded prefix is a remaining-length mismatch there by
/// construction; that is a framing decision C15 does not speak about (DESIGN.md §10) and only totality
/// (an error or exactly the original packet, never a different packet) is demanded for them.
/// nums = [type index, width of the main property length, width of the will property length,
///         width of subscription identifiers, seed]
fn case_inbody(input: &Input, ctx: &mut Ctx) -> CaseResult {
    use crate::model::{normalize, serialize, PVal};
    use crate::mutate::{main_props_mut, will_props_mut};
    let n = input.nums();
    let get = |i: usize| n.get(i).copied().unwrap_or(1);
    let (typ, wm, ww, ws, seed) = (get(0) as usize % crate::gen::V5_TYPES, get(1) as u8, get(2) as u8, get(3) as u8, get(4));
    let mut x = seed.wrapping_mul(0x9E37_79B9_7F4A_7C15).wrapping_add(typ as u64);
    let tape: Vec<u16> = (0..600)
        .map(|_| {
            x = x.wrapping_mul(6_364_136_223_846_793_005).wrapping_add(1_442_695_040_888_963_407);
            (x >> 40) as u16
        })
        .collect();
    let mut t = crate::tape::Tape::new(&tape);
    let cfg = if seed % 3 == 0 { crate::gen::GenCfg::MEDIUM } else { crate::gen::GenCfg::SMALL };
    let p = crate::gen::gen_v5_of_type(&mut t, &cfg, typ).map_err(|e| Violation::new(e.0))?;
    let mut w = normalize(&crate::project::project_v5(&p));
    let mut padded = 0u32;
    let widen = |ps: &mut crate::model::Props, width: u8, padded: &mut u32| {
        let min = crate::model::varint_min_width(ps.body_len() as u32) as u8;
        if width > min {
            ps.width = width;
            *padded += 1;
        }
        for it in ps.items.iter_mut() {
            if let PVal::VarInt(v, wd) = &mut it.val {
                if ws as usize > crate::model::varint_min_width(*v) {
                    *wd = ws;
                    *padded += 1;
                }
            }
        }
    };
    if let Some(ps) = main_props_mut(&mut w) {
        widen(ps, wm, &mut padded);
    }
    if let Some(ps) = will_props_mut(&mut w) {
        widen(ps, ww, &mut padded);
    }
    let frame = match serialize(&w) {
        Some(b) => b,
        None => return Ok(()),
    };
    let canonical = match p.encode() {
        Ok(b) => b.as_ref().to_vec(),
        Err(e) => viol!("encode of a valid packet failed: {:?}", e),
    };
    if padded == 0 {
        ctx.label("inbody:nothing-to-pad");
    } else {
        ctx.label("inbody:padded");
        if !matches!(w.typ(), 3 | 8 | 9 | 11) {
            ctx.label(&format!("inbody:{}", crate::model::type_name(w.typ())));
        }
        ensure!(frame.len() > 2 && frame != canonical, "harness: padded frame equals the canonical encoding");
    }
    let what = || format!("v5 {} with its in-body var-ints written in {}/{}/{} bytes (property length / will property length / subscription identifier): {}", crate::model::type_name(w.typ()), wm, ww, ws, crate::model::hex_short(&frame, 48));
    // followed by another packet, so that reading too little or too much shows
    let mut stream = frame.clone();
    stream.extend_from_slice(&[0xC0, 0x00]);
    let run = crate::fam::dec_poll::<V5>(&stream);
    let canonical_accounting = matches!(w.typ(), 3 | 8 | 9 | 11); // PUBLISH, SUBSCRIBE, SUBACK, UNSUBACK
    if canonical_accounting && padded > 0 {
        match &run.result {
            Ok(ok) if ok.pkt == p && ok.total == frame.len() && run.pos == frame.len() => {}
            Err(_) => {}
            other => viol!("poll decoder on {} returned {:?}: neither an error nor the packet those bytes spell", what(), other.as_ref().map(|o| (o.total, &o.pkt))),
        }
        ctx.label("inbody:canonical-accounting-type");
        return Ok(());
    }
    match &run.result {
        Ok(ok) if ok.pkt == p && ok.total == frame.len() && run.pos == frame.len() => {}
        other => viol!("poll decoder on {} returned {:?}, transport position {} (frame is {} bytes; expected the packet {:?})", what(), other.as_ref().map(|o| (o.total, &o.pkt)), run.pos, frame.len(), p),
    }
    let (r, used) = crate::fam::dec_async::<V5>(&stream);
    match &r {
        Ok(q) if *q == p && used == frame.len() => {}
        other => viol!("async decoder on {} returned {:?} after consuming {} bytes (frame is {} bytes)", what(), other, used, frame.len()),
    }
    match v5::Packet::decode(&stream) {
        Ok(Some(q)) if q == p => {}
        other => viol!("blocking decoder on {} returned {:?}", what(), other),
    }
    match v5::Packet::decode(&frame) {
        Ok(Some(q)) if q == p => {}
        other => viol!("blocking decoder on exactly {} returned {:?}", what(), other),
    }
    // one byte short is incomplete, not an error and not a packet
    match v5::Packet::decode(&frame[..frame.len() - 1]) {
        Ok(None) => {}
        other => viol!("blocking decoder on all but the last byte of {} returned {:?}", what(), other),
    }
    if padded > 0 {
        ctx.count_distinct(1);
        if seed < 2 && wm == 4 {
            ctx.sample(what);
        }
    }
    Ok(())
}

/// Over-long forms at the in-body sites: four bytes with the continuation bit set, then any fifth byte or nothing at
/// all. Whatever the site (a property length, a will property length, a Subscription Identifier), every front-end
/// answers InvalidVarByteInt — no value is made up from the low bits, no fifth byte is consumed as part of the integer.
/// nums = [site, index of the four digits]; all 257 continuations (none, 0x00..=0xFF) are run.
const OVERLONG_SITES: usize = 12;
fn overlong_frame(site: usize, pat: &[u8]) -> Vec<u8> {
    let mut body: Vec<u8> = Vec::new();
    let first: u8;
    let pl = |n: usize| (1 + n) as u8; // property length of a section that holds 0x0B + the pattern
    match site {
        0 => { first = 0x30; body.extend_from_slice(&[0, 1, b'a', pl(pat.len()), 0x0B]); body.extend_from_slice(pat); }
        1 => { first = 0x82; body.extend_from_slice(&[0, 1, pl(pat.len()), 0x0B]); body.extend_from_slice(pat); body.extend_from_slice(&[0, 1, b'a', 0]); }
        2 => { first = 0x30; body.extend_from_slice(&[0, 1, b'a']); body.extend_from_slice(pat); body.extend_from_slice(b"xyz"); }
        3 => { first = 0x20; body.extend_from_slice(&[0, 0]); body.extend_from_slice(pat); }
        4 => {
            first = 0x10;
            body.extend_from_slice(&[0, 4, b'M', b'Q', b'T', b'T', 5, 0x04, 0, 0, 0, 0, 0]);
            body.extend_from_slice(pat);
            body.extend_from_slice(&[0, 1, b't', 0, 0]);
        }
        5 => { first = 0xE0; body.push(0); body.extend_from_slice(pat); }
        6 => { first = 0xF0; body.push(0); body.extend_from_slice(pat); }
        7 => { first = 0x40; body.extend_from_slice(&[0, 1, 0]); body.extend_from_slice(pat); }
        8 => { first = 0x90; body.extend_from_slice(&[0, 1]); body.extend_from_slice(pat); body.push(0); }
        9 => { first = 0xA2; body.extend_from_slice(&[0, 1]); body.extend_from_slice(pat); body.extend_from_slice(&[0, 1, b'a']); }
        10 => { first = 0x10; body.extend_from_slice(&[0, 4, b'M', b'Q', b'T', b'T', 5, 0x02, 0, 0]); body.extend_from_slice(pat); body.extend_from_slice(&[0, 0]); }
        _ => { first = 0x62; body.extend_from_slice(&[0, 1, 0]); body.extend_from_slice(pat); }
    }
    let mut f = vec![first];
    f.extend_from_slice(&model_bytes(body.len() as u64));
    f.extend_from_slice(&body);
    f
}

fn case_inbody_overlong(input: &Input, ctx: &mut Ctx) -> CaseResult {
    let n = input.nums();
    let site = n[0] as usize % OVERLONG_SITES;
    const DIGITS: [u8; 4] = [0x80, 0x81, 0xFF, 0xAA];
    let di = n[1] as usize;
    let four = [DIGITS[di & 3], DIGITS[(di >> 2) & 3], DIGITS[(di >> 4) & 3], DIGITS[(di >> 6) & 3]];
    let want: v5::ErrorV5 = Error::InvalidVarByteInt.into();
    for fifth in -1i32..=255 {
        let mut pat = four.to_vec();
        if fifth >= 0 {
            pat.push(fifth as u8);
        }
        let frame = overlong_frame(site, &pat);
        let mut stream = frame.clone();
        stream.extend_from_slice(&[0xC0, 0x00]);
        let what = || format!("v5 frame {} (in-body variable byte integer spelled {} at site {})", hex(&frame), hex(&pat), ["Subscription Identifier of a PUBLISH", "Subscription Identifier of a SUBSCRIBE", "property length of a PUBLISH", "property length of a CONNACK", "will property length of a CONNECT", "property length of a DISCONNECT", "property length of an AUTH", "property length of a PUBACK", "property length of a SUBACK", "property length of an UNSUBSCRIBE", "property length of a CONNECT", "property length of a PUBREL"][site]);
        let poll = crate::fam::dec_poll::<V5>(&stream).result;
        ensure!(matches!(&poll, Err(e) if *e == want), "poll decoder on {} returned {:?} instead of InvalidVarByteInt", what(), poll.as_ref().map(|o| (o.total, &o.pkt)));
        let (asy, _) = crate::fam::dec_async::<V5>(&stream);
        ensure!(matches!(&asy, Err(e) if *e == want), "async decoder on {} returned {:?} instead of InvalidVarByteInt", what(), asy);
        let blk = v5::Packet::decode(&stream);
        ensure!(matches!(&blk, Err(e) if *e == want), "blocking decoder on {} returned {:?} instead of InvalidVarByteInt", what(), blk);
        let blk = v5::Packet::decode(&frame);
        ensure!(matches!(&blk, Err(e) if *e == want), "blocking decoder on exactly {} returned {:?} instead of InvalidVarByteInt", what(), blk);
    }
    ctx.more_evals(256);
    ctx.count_distinct(257);
    ctx.label(&format!("overlong-site:{}", site));
    if di == 0 {
        ctx.sample(|| format!("site {}: frames {} .. rejected with InvalidVarByteInt by all front-ends (257 continuations)", site, hex(&overlong_frame(site, &four))));
    }
    Ok(())
}

pub const SUB_OVERLONG: Sub = Sub { name: "c15.inbody-overlong", f: case_inbody_overlong };
pub const SUB_INBODY: Sub = Sub { name: "c15.inbody", f: case_inbody };
pub const SUB_VALUES: Sub = Sub { name: "c15.values", f: case_block };
pub const SUB_INVALID: Sub = Sub { name: "c15.invalid", f: case_invalid };
pub const SUB_PATTERN: Sub = Sub { name: "c15.patterns", f: case_pattern };

pub fn subs() -> Vec<Sub> {
    vec![SUB_VALUES, SUB_INVALID, SUB_PATTERN, SUB_INBODY, SUB_OVERLONG]
}

fn patterns() -> Vec<Input> {
    let bytes = [0x00u8, 0x01, 0x7F, 0x80, 0x81, 0xFF];
    let mut out = Vec::new();
    for len in 1..=5usize {
        let n = 6usize.pow(len as u32);
        for mut i in 0..n {
            let mut s = Vec::with_capacity(len);
            for _ in 0..len {
                s.push(bytes[i % 6]);
                i /= 6;
            }
            out.push(Input::Bytes(s));
        }
    }
    out
}

pub fn run(env: &mut Env) -> RunResult {
    const BLOCK: u64 = 1 << 16;
    if env.thorough() {
        let nblocks = (MAX + 1) / BLOCK;
        env.run_enum(SUB_VALUES, nblocks, true, |i| Input::Nums(vec![i * BLOCK, (i + 1) * BLOCK, 1]))?;
    } else {
        // all values < 70,000 and +-70,000 around each boundary, stride-97 elsewhere
        let mut blocks: Vec<(u64, u64, u64)> = Vec::new();
        let dense: Vec<(u64, u64)> = vec![(0, 70_000 + 16_384), ((1 << 21) - 70_000, (1 << 21) + 70_000), (MAX + 1 - 70_000, MAX + 1)];
        for (a, b) in &dense {
            let mut s = *a;
            while s < *b {
                blocks.push((s, (s + 8_192).min(*b), 1));
                s += 8_192;
            }
        }
        let mut s = 0u64;
        while s <= MAX {
            blocks.push((s, (s + 97 * 8_192).min(MAX + 1), 97));
            s += 97 * 8_192;
        }
        let n = blocks.len() as u64;
        env.run_enum(SUB_VALUES, n, false, move |i| {
            let (a, b, c) = blocks[i as usize];
            Input::Nums(vec![a, b, c])
        })?;
    }
    let inv: Vec<Input> = [MAX + 1, MAX + 2, 300_000_000, u32::MAX as u64, u32::MAX as u64 + 1, 1 << 40, (usize::MAX / 2) as u64]
        .iter()
        .map(|v| Input::Nums(vec![*v]))
        .collect();
    env.run_inputs(SUB_INVALID, &inv)?;
    let pats = patterns();
    let n = pats.len() as u64;
    env.run_enum(SUB_PATTERN, n, true, move |i| pats[i as usize].clone())?;
    for l in ["pattern:1-byte", "pattern:2-byte", "pattern:3-byte", "pattern:4-byte", "pattern:over-long", "pattern:incomplete"] {
        env.require("c15.patterns", l);
    }
    // in-body var-int readers: 15 types x widths 1..=4 of (property length, will property length, subscription id) x seeds
    let seeds = env.tier.sel(12u64, 200u64);
    let combos: Vec<(u64, u64, u64, u64)> = {
        let mut v = Vec::new();
        for typ in 0..crate::gen::V5_TYPES as u64 {
            for wm in 1..=4u64 {
                // the will width only matters for CONNECT (0), the subscription-identifier width for PUBLISH (2) and SUBSCRIBE (7)
                let wws: &[u64] = if typ == 0 { &[1, 2, 3, 4] } else { &[1] };
                let wss: &[u64] = if typ == 2 || typ == 7 { &[1, 2, 3, 4] } else { &[1] };
                for &ww in wws {
                    for &ws in wss {
                        v.push((typ, wm, ww, ws));
                    }
                }
            }
        }
        v
    };
    let nc = combos.len() as u64;
    env.run_enum(SUB_INBODY, nc * seeds, false, move |i| {
        let (typ, wm, ww, ws) = combos[(i % nc) as usize];
        Input::Nums(vec![typ, wm, ww, ws, i / nc])
    })?;
    env.require("c15.inbody", "inbody:padded");
    env.run_enum(SUB_OVERLONG, OVERLONG_SITES as u64 * 256, false, |i| Input::Nums(vec![i / 256, i % 256]))?;
    for sidx in 0..OVERLONG_SITES {
        env.require("c15.inbody-overlong", &format!("overlong-site:{}", sidx));
    }
    for t in ["CONNECT", "CONNACK", "PUBACK", "PUBREC", "PUBREL", "PUBCOMP", "UNSUBSCRIBE", "DISCONNECT", "AUTH"] {
        env.require("c15.inbody", &format!("inbody:{}", t));
    }
    env.require("c15.values", "poll-header-state-inspected");
    env.require("c15.values", "width-boundary-neighbourhood");
    Ok(())
}
