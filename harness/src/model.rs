//! Wire-level packet model, independent of the library's types, plus its serialiser.
//! It can express frames the library cannot represent (zero pid, reserved bits, unknown
//! or duplicated properties, non-UTF-8 strings, non-minimal or wrong lengths).
//! All numbers in here come from the OASIS specifications (DESIGN.md, Appendix A).

#[derive(Clone, Copy, Debug, PartialEq, Eq, Hash, PartialOrd, Ord)]
pub enum Fam {
    V3,
    V5,
}

impl Fam {
    pub fn name(self) -> &'static str {
        match self {
            Fam::V3 => "v3",
            Fam::V5 => "v5",
        }
    }
}

pub const T_CONNECT: u8 = 1;
pub const T_CONNACK: u8 = 2;
pub const T_PUBLISH: u8 = 3;
pub const T_PUBACK: u8 = 4;
pub const T_PUBREC: u8 = 5;
pub const T_PUBREL: u8 = 6;
pub const T_PUBCOMP: u8 = 7;
pub const T_SUBSCRIBE: u8 = 8;
pub const T_SUBACK: u8 = 9;
pub const T_UNSUBSCRIBE: u8 = 10;
pub const T_UNSUBACK: u8 = 11;
pub const T_PINGREQ: u8 = 12;
pub const T_PINGRESP: u8 = 13;
pub const T_DISCONNECT: u8 = 14;
pub const T_AUTH: u8 = 15;
/// pseudo context for the will property list
pub const CTX_WILL: u8 = 16;

pub fn type_name(t: u8) -> &'static str {
    match t {
        1 => "CONNECT",
        2 => "CONNACK",
        3 => "PUBLISH",
        4 => "PUBACK",
        5 => "PUBREC",
        6 => "PUBREL",
        7 => "PUBCOMP",
        8 => "SUBSCRIBE",
        9 => "SUBACK",
        10 => "UNSUBSCRIBE",
        11 => "UNSUBACK",
        12 => "PINGREQ",
        13 => "PINGRESP",
        14 => "DISCONNECT",
        15 => "AUTH",
        16 => "WILL",
        _ => "RESERVED",
    }
}

/// Required flag nibble per type (MQTT 2.2.2); PUBLISH is free (dup/qos/retain).
pub fn required_flags(t: u8) -> Option<u8> {
    match t {
        T_PUBLISH => None,
        T_PUBREL | T_SUBSCRIBE | T_UNSUBSCRIBE => Some(0b0010),
        _ => Some(0),
    }
}

#[derive(Clone, Copy, Debug, PartialEq, Eq, Hash)]
pub enum PType {
    Byte,
    U16,
    U32,
    VarInt,
    Str,
    Bin,
    Pair,
}

const fn bits(ts: &[u8]) -> u32 {
    let mut m = 0u32;
    let mut i = 0;
    while i < ts.len() {
        m |= 1 << ts[i];
        i += 1;
    }
    m
}

/// MQTT 5.0 table 2-4: (id, name, wire type, contexts where allowed).
pub const PROP_TABLE: &[(u8, &str, PType, u32)] = &[
    (0x01, "PayloadFormatIndicator", PType::Byte, bits(&[T_PUBLISH, CTX_WILL])),
    (0x02, "MessageExpiryInterval", PType::U32, bits(&[T_PUBLISH, CTX_WILL])),
    (0x03, "ContentType", PType::Str, bits(&[T_PUBLISH, CTX_WILL])),
    (0x08, "ResponseTopic", PType::Str, bits(&[T_PUBLISH, CTX_WILL])),
    (0x09, "CorrelationData", PType::Bin, bits(&[T_PUBLISH, CTX_WILL])),
    (0x0B, "SubscriptionIdentifier", PType::VarInt, bits(&[T_PUBLISH, T_SUBSCRIBE])),
    (0x11, "SessionExpiryInterval", PType::U32, bits(&[T_CONNECT, T_CONNACK, T_DISCONNECT])),
    (0x12, "AssignedClientIdentifier", PType::Str, bits(&[T_CONNACK])),
    (0x13, "ServerKeepAlive", PType::U16, bits(&[T_CONNACK])),
    (0x15, "AuthenticationMethod", PType::Str, bits(&[T_CONNECT, T_CONNACK, T_AUTH])),
    (0x16, "AuthenticationData", PType::Bin, bits(&[T_CONNECT, T_CONNACK, T_AUTH])),
    (0x17, "RequestProblemInformation", PType::Byte, bits(&[T_CONNECT])),
    (0x18, "WillDelayInterval", PType::U32, bits(&[CTX_WILL])),
    (0x19, "RequestResponseInformation", PType::Byte, bits(&[T_CONNECT])),
    (0x1A, "ResponseInformation", PType::Str, bits(&[T_CONNACK])),
    (0x1C, "ServerReference", PType::Str, bits(&[T_CONNACK, T_DISCONNECT])),
    (
        0x1F,
        "ReasonString",
        PType::Str,
        bits(&[T_CONNACK, T_PUBACK, T_PUBREC, T_PUBREL, T_PUBCOMP, T_SUBACK, T_UNSUBACK, T_DISCONNECT, T_AUTH]),
    ),
    (0x21, "ReceiveMaximum", PType::U16, bits(&[T_CONNECT, T_CONNACK])),
    (0x22, "TopicAliasMaximum", PType::U16, bits(&[T_CONNECT, T_CONNACK])),
    (0x23, "TopicAlias", PType::U16, bits(&[T_PUBLISH])),
    (0x24, "MaximumQoS", PType::Byte, bits(&[T_CONNACK])),
    (0x25, "RetainAvailable", PType::Byte, bits(&[T_CONNACK])),
    (
        0x26,
        "UserProperty",
        PType::Pair,
        bits(&[
            T_CONNECT, T_CONNACK, T_PUBLISH, T_PUBACK, T_PUBREC, T_PUBREL, T_PUBCOMP, T_SUBSCRIBE, T_SUBACK,
            T_UNSUBSCRIBE, T_UNSUBACK, T_DISCONNECT, T_AUTH, CTX_WILL,
        ]),
    ),
    (0x27, "MaximumPacketSize", PType::U32, bits(&[T_CONNECT, T_CONNACK])),
    (0x28, "WildcardSubscriptionAvailable", PType::Byte, bits(&[T_CONNACK])),
    (0x29, "SubscriptionIdentifierAvailable", PType::Byte, bits(&[T_CONNACK])),
    (0x2A, "SharedSubscriptionAvailable", PType::Byte, bits(&[T_CONNACK])),
];

pub fn prop_info(id: u8) -> Option<(&'static str, PType, u32)> {
    PROP_TABLE.iter().find(|e| e.0 == id).map(|e| (e.1, e.2, e.3))
}
pub fn prop_allowed(id: u8, ctx: u8) -> bool {
    prop_info(id).map(|(_, _, m)| m & (1 << ctx) != 0).unwrap_or(false)
}

/// Reason codes per packet type (MQTT 5.0 table 2-6 and the per-packet sections).
pub fn reason_codes(t: u8) -> &'static [u8] {
    match t {
        T_CONNACK => &[
            0x00, 0x80, 0x81, 0x82, 0x83, 0x84, 0x85, 0x86, 0x87, 0x88, 0x89, 0x8A, 0x8C, 0x90, 0x95, 0x97, 0x99, 0x9A,
            0x9B, 0x9C, 0x9D, 0x9F,
        ],
        T_PUBACK | T_PUBREC => &[0x00, 0x10, 0x80, 0x83, 0x87, 0x90, 0x91, 0x97, 0x99],
        T_PUBREL | T_PUBCOMP => &[0x00, 0x92],
        T_SUBACK => &[0x00, 0x01, 0x02, 0x80, 0x83, 0x87, 0x8F, 0x91, 0x97, 0x9E, 0xA1, 0xA2],
        T_UNSUBACK => &[0x00, 0x11, 0x80, 0x83, 0x87, 0x8F, 0x91],
        T_DISCONNECT => &[
            0x00, 0x04, 0x80, 0x81, 0x82, 0x83, 0x87, 0x89, 0x8B, 0x8D, 0x8E, 0x8F, 0x90, 0x93, 0x94, 0x95, 0x96, 0x97,
            0x98, 0x99, 0x9A, 0x9B, 0x9C, 0x9D, 0x9E, 0x9F, 0xA0, 0xA1, 0xA2,
        ],
        T_AUTH => &[0x00, 0x18, 0x19],
        _ => &[],
    }
}

#[derive(Clone, Debug, PartialEq, Eq, Hash)]
pub enum PVal {
    Byte(u8),
    U16(u16),
    U32(u32),
    /// value, encoded width (0 = minimal, 5 = four continuation bytes + one)
    VarInt(u32, u8),
    Str(Vec<u8>),
    Bin(Vec<u8>),
    Pair(Vec<u8>, Vec<u8>),
    /// raw bytes following an id (used for unknown ids)
    Raw(Vec<u8>),
}

#[derive(Clone, Debug, PartialEq, Eq, Hash)]
pub struct Prop {
    pub id: u8,
    pub val: PVal,
}

#[derive(Clone, Debug, PartialEq, Eq, Hash, Default)]
pub struct Props {
    pub items: Vec<Prop>,
    /// declared property length (None = actual)
    pub declared: Option<u32>,
    /// width of the property-length var-int (0 = minimal)
    pub width: u8,
}

impl Props {
    pub fn get(&self, id: u8) -> Option<&PVal> {
        self.items.iter().find(|p| p.id == id).map(|p| &p.val)
    }
    pub fn body_len(&self) -> usize {
        self.items.iter().map(prop_len).sum()
    }
}

pub fn prop_len(p: &Prop) -> usize {
    1 + match &p.val {
        PVal::Byte(_) => 1,
        PVal::U16(_) => 2,
        PVal::U32(_) => 4,
        PVal::VarInt(v, w) => varint_width(*v, *w),
        PVal::Str(s) | PVal::Bin(s) => 2 + s.len(),
        PVal::Pair(a, b) => 4 + a.len() + b.len(),
        PVal::Raw(r) => r.len(),
    }
}

#[derive(Clone, Debug, PartialEq, Eq, Hash)]
pub struct Will {
    pub props: Option<Props>,
    pub topic: Vec<u8>,
    pub payload: Vec<u8>,
}

#[derive(Clone, Debug, PartialEq, Eq, Hash)]
pub enum Body {
    Connect {
        name: Vec<u8>,
        level: u8,
        flags: u8,
        keep_alive: u16,
        props: Option<Props>,
        client_id: Vec<u8>,
        will: Option<Will>,
        username: Option<Vec<u8>>,
        password: Option<Vec<u8>>,
    },
    Connack {
        flags: u8,
        code: u8,
        props: Option<Props>,
    },
    Publish {
        topic: Vec<u8>,
        pid: Option<u16>,
        props: Option<Props>,
        payload: Vec<u8>,
    },
    /// PUBACK/PUBREC/PUBREL/PUBCOMP (both families) and v3 UNSUBACK
    Ack {
        pid: u16,
        reason: Option<u8>,
        props: Option<Props>,
    },
    Subscribe {
        pid: u16,
        props: Option<Props>,
        topics: Vec<(Vec<u8>, u8)>,
    },
    /// SUBACK (both) and v5 UNSUBACK
    Suback {
        pid: u16,
        props: Option<Props>,
        codes: Vec<u8>,
    },
    Unsubscribe {
        pid: u16,
        props: Option<Props>,
        topics: Vec<Vec<u8>>,
    },
    /// PINGREQ, PINGRESP, v3 DISCONNECT
    Empty,
    /// v5 DISCONNECT and AUTH
    Reason {
        reason: Option<u8>,
        props: Option<Props>,
    },
}

#[derive(Clone, Debug, PartialEq, Eq, Hash)]
pub struct WPacket {
    pub fam: Fam,
    /// first byte: type nibble and flag nibble
    pub first: u8,
    pub body: Body,
    /// width of the remaining-length var-int (0 = minimal, 5 = over-long)
    pub rl_width: u8,
    /// declared remaining length = actual + rl_delta
    pub rl_delta: i64,
    /// extra bytes inside the frame after the body
    pub trailing: Vec<u8>,
}

impl WPacket {
    pub fn new(fam: Fam, first: u8, body: Body) -> Self {
        WPacket { fam, first, body, rl_width: 0, rl_delta: 0, trailing: Vec::new() }
    }
    pub fn typ(&self) -> u8 {
        self.first >> 4
    }
}

// ---------------------------------------------------------------------------------------
// var-int helpers (MQTT 1.5.5), independent of the library

pub fn varint_min_width(v: u32) -> usize {
    if v < 128 {
        1
    } else if v < 16_384 {
        2
    } else if v < 2_097_152 {
        3
    } else {
        4
    }
}

pub fn varint_width(v: u32, w: u8) -> usize {
    let m = varint_min_width(v);
    if w == 0 {
        m
    } else {
        (w as usize).max(m)
    }
}

/// Writes `v` in `width` bytes (0 = minimal). A width above the minimal one is produced by
/// padding with continuation bytes (0x80.. then 0x00); width 5 is the over-long form.
pub fn write_varint(out: &mut Vec<u8>, v: u32, width: u8) {
    let w = varint_width(v, width);
    let mut x = v;
    for i in 0..w {
        let mut b = (x & 0x7F) as u8;
        x >>= 7;
        if i + 1 < w {
            b |= 0x80;
        }
        out.push(b);
    }
}

/// Parses a var-int: Ok((value, width)) / Err(true) = over-long (5th byte needed) / Err(false) = truncated.
pub fn parse_varint(b: &[u8]) -> Result<(u32, usize), bool> {
    let mut v: u32 = 0;
    for i in 0..4 {
        match b.get(i) {
            None => return Err(false),
            Some(x) => {
                v |= ((*x & 0x7F) as u32) << (7 * i);
                if *x & 0x80 == 0 {
                    return Ok((v, i + 1));
                }
            }
        }
    }
    Err(true)
}

// ---------------------------------------------------------------------------------------
// serialiser with field spans

#[derive(Clone, Copy, Debug, PartialEq, Eq, Hash)]
pub enum Kind {
    Ctl,
    RemLen,
    U8,
    U16,
    U32,
    VarInt,
    StrLen,
    StrData,
    BinLen,
    BinData,
    PropLen,
    PropId,
    Payload,
    Raw,
}

#[derive(Clone, Debug)]
pub struct Span {
    pub label: String,
    pub kind: Kind,
    pub start: usize,
    pub end: usize,
}

pub struct Ser {
    pub out: Vec<u8>,
    pub spans: Vec<Span>,
    want: bool,
}

impl Ser {
    fn new(want: bool) -> Self {
        Ser { out: Vec::new(), spans: Vec::new(), want }
    }
    fn span(&mut self, label: &str, kind: Kind, start: usize) {
        if self.want {
            self.spans.push(Span { label: label.to_string(), kind, start, end: self.out.len() });
        }
    }
    fn u8(&mut self, label: &str, v: u8) {
        let s = self.out.len();
        self.out.push(v);
        self.span(label, Kind::U8, s);
    }
    fn u16(&mut self, label: &str, v: u16) {
        let s = self.out.len();
        self.out.extend_from_slice(&v.to_be_bytes());
        self.span(label, Kind::U16, s);
    }
    fn u32(&mut self, label: &str, v: u32) {
        let s = self.out.len();
        self.out.extend_from_slice(&v.to_be_bytes());
        self.span(label, Kind::U32, s);
    }
    fn lp(&mut self, label: &str, data: &[u8], is_str: bool) {
        let s = self.out.len();
        self.out.extend_from_slice(&(data.len() as u16).to_be_bytes());
        self.span(label, if is_str { Kind::StrLen } else { Kind::BinLen }, s);
        let s = self.out.len();
        self.out.extend_from_slice(data);
        self.span(label, if is_str { Kind::StrData } else { Kind::BinData }, s);
    }
    fn props(&mut self, ctx: &str, p: &Props) {
        let actual = p.body_len() as u32;
        let declared = p.declared.unwrap_or(actual);
        let s = self.out.len();
        write_varint(&mut self.out, declared, p.width);
        self.span(&format!("{ctx}.proplen"), Kind::PropLen, s);
        for it in &p.items {
            let name = prop_info(it.id).map(|x| x.0).unwrap_or("unknown");
            let label = format!("{ctx}.{name}");
            let s = self.out.len();
            self.out.push(it.id);
            self.span(&label, Kind::PropId, s);
            match &it.val {
                PVal::Byte(v) => self.u8(&label, *v),
                PVal::U16(v) => self.u16(&label, *v),
                PVal::U32(v) => self.u32(&label, *v),
                PVal::VarInt(v, w) => {
                    let s = self.out.len();
                    write_varint(&mut self.out, *v, *w);
                    self.span(&label, Kind::VarInt, s);
                }
                PVal::Str(b) => self.lp(&label, b, true),
                PVal::Bin(b) => self.lp(&label, b, false),
                PVal::Pair(a, b) => {
                    self.lp(&format!("{label}.name"), a, true);
                    self.lp(&format!("{label}.value"), b, true);
                }
                PVal::Raw(r) => {
                    let s = self.out.len();
                    self.out.extend_from_slice(r);
                    self.span(&label, Kind::Raw, s);
                }
            }
        }
    }
}

fn ser_body(s: &mut Ser, w: &WPacket) {
    match &w.body {
        Body::Connect { name, level, flags, keep_alive, props, client_id, will, username, password } => {
            s.lp("connect.protocol_name", name, true);
            s.u8("connect.protocol_level", *level);
            s.u8("connect.flags", *flags);
            s.u16("connect.keep_alive", *keep_alive);
            if let Some(p) = props {
                s.props("connect", p);
            }
            s.lp("connect.client_id", client_id, true);
            if let Some(wl) = will {
                if let Some(p) = &wl.props {
                    s.props("will", p);
                }
                s.lp("will.topic", &wl.topic, true);
                s.lp("will.payload", &wl.payload, false);
            }
            if let Some(u) = username {
                s.lp("connect.username", u, true);
            }
            if let Some(p) = password {
                s.lp("connect.password", p, false);
            }
        }
        Body::Connack { flags, code, props } => {
            s.u8("connack.flags", *flags);
            s.u8("connack.code", *code);
            if let Some(p) = props {
                s.props("connack", p);
            }
        }
        Body::Publish { topic, pid, props, payload } => {
            s.lp("publish.topic", topic, true);
            if let Some(p) = pid {
                s.u16("publish.pid", *p);
            }
            if let Some(p) = props {
                s.props("publish", p);
            }
            let st = s.out.len();
            s.out.extend_from_slice(payload);
            s.span("publish.payload", Kind::Payload, st);
        }
        Body::Ack { pid, reason, props } => {
            s.u16("ack.pid", *pid);
            if let Some(r) = reason {
                s.u8("ack.reason", *r);
            }
            if let Some(p) = props {
                s.props("ack", p);
            }
        }
        Body::Subscribe { pid, props, topics } => {
            s.u16("subscribe.pid", *pid);
            if let Some(p) = props {
                s.props("subscribe", p);
            }
            for (f, o) in topics {
                s.lp("subscribe.filter", f, true);
                s.u8("subscribe.options", *o);
            }
        }
        Body::Suback { pid, props, codes } => {
            s.u16("suback.pid", *pid);
            if let Some(p) = props {
                s.props("suback", p);
            }
            for c in codes {
                s.u8("suback.code", *c);
            }
        }
        Body::Unsubscribe { pid, props, topics } => {
            s.u16("unsubscribe.pid", *pid);
            if let Some(p) = props {
                s.props("unsubscribe", p);
            }
            for f in topics {
                s.lp("unsubscribe.filter", f, true);
            }
        }
        Body::Empty => {}
        Body::Reason { reason, props } => {
            if let Some(r) = reason {
                s.u8("reason.reason", *r);
            }
            if let Some(p) = props {
                s.props("reason", p);
            }
        }
    }
    if !w.trailing.is_empty() {
        let st = s.out.len();
        s.out.extend_from_slice(&w.trailing);
        s.span("trailing", Kind::Raw, st);
    }
}

/// Serialises to a frame; `None` if the (declared) remaining length cannot be expressed.
pub fn serialize_spans(w: &WPacket, want_spans: bool) -> Option<(Vec<u8>, Vec<Span>)> {
    let mut b = Ser::new(want_spans);
    ser_body(&mut b, w);
    let body = b.out;
    let declared = body.len() as i64 + w.rl_delta;
    if declared < 0 || declared > 268_435_455 {
        return None;
    }
    let mut out = Vec::with_capacity(body.len() + 5);
    out.push(w.first);
    write_varint(&mut out, declared as u32, w.rl_width);
    let hl = out.len();
    out.extend_from_slice(&body);
    let mut spans = Vec::new();
    if want_spans {
        spans.push(Span { label: "header.control".into(), kind: Kind::Ctl, start: 0, end: 1 });
        spans.push(Span { label: "header.remaining_length".into(), kind: Kind::RemLen, start: 1, end: hl });
        for mut sp in b.spans {
            sp.start += hl;
            sp.end += hl;
            spans.push(sp);
        }
    }
    Some((out, spans))
}

/// one property section on its own (length prefix and entries), as it stands in a frame
pub fn serialize_props(p: &Props) -> Vec<u8> {
    let mut b = Ser::new(false);
    b.props("section", p);
    b.out
}

pub fn serialize(w: &WPacket) -> Option<Vec<u8>> {
    serialize_spans(w, false).map(|x| x.0)
}

/// label of the innermost span covering byte `pos`
pub fn region_at(spans: &[Span], pos: usize) -> (&str, Kind) {
    for sp in spans.iter().rev() {
        if sp.start <= pos && pos < sp.end {
            return (&sp.label, sp.kind);
        }
    }
    ("none", Kind::Raw)
}

// ---------------------------------------------------------------------------------------
// normal form used when comparing the library's view with the reference decoder's view

fn norm_props(p: &mut Props) {
    p.declared = None;
    p.width = 0;
    for it in p.items.iter_mut() {
        if let PVal::VarInt(_, w) = &mut it.val {
            *w = 0;
        }
    }
    // single-valued properties by id, user properties last in their original order
    let mut single: Vec<Prop> = p.items.iter().filter(|x| x.id != 0x26).cloned().collect();
    single.sort_by_key(|x| x.id);
    let user: Vec<Prop> = p.items.iter().filter(|x| x.id == 0x26).cloned().collect();
    single.extend(user);
    p.items = single;
}

pub fn normalize(w: &WPacket) -> WPacket {
    let mut w = w.clone();
    w.rl_width = 0;
    w.rl_delta = 0;
    w.trailing.clear();
    let v5 = w.fam == Fam::V5;
    let t = w.typ();
    match &mut w.body {
        Body::Connect { flags, props, will, .. } => {
            if *flags & 0b100 == 0 {
                // L2: will-retain without will flag carries no information
                *flags &= !0b0010_0000;
            }
            if let Some(p) = props {
                norm_props(p);
            }
            if let Some(wl) = will {
                if let Some(p) = &mut wl.props {
                    norm_props(p);
                }
            }
        }
        Body::Connack { props, .. }
        | Body::Publish { props, .. }
        | Body::Subscribe { props, .. }
        | Body::Suback { props, .. }
        | Body::Unsubscribe { props, .. } => {
            if let Some(p) = props {
                norm_props(p);
            }
        }
        Body::Ack { reason, props, .. } => {
            if v5 && t != T_UNSUBACK {
                if reason.is_none() {
                    *reason = Some(0);
                }
                if props.is_none() {
                    *props = Some(Props::default());
                }
            }
            if let Some(p) = props {
                norm_props(p);
            }
        }
        Body::Reason { reason, props } => {
            if reason.is_none() {
                *reason = Some(0);
            }
            if props.is_none() {
                *props = Some(Props::default());
            }
            if let Some(p) = props {
                norm_props(p);
            }
        }
        Body::Empty => {}
    }
    w
}

pub fn hex(b: &[u8]) -> String {
    let mut s = String::with_capacity(b.len() * 2);
    for x in b {
        s.push_str(&format!("{:02x}", x));
    }
    s
}

/// hex of at most `n` bytes with the total length appended when shortened
pub fn hex_short(b: &[u8], n: usize) -> String {
    if b.len() <= n {
        hex(b)
    } else {
        format!("{}..(+{} bytes)", hex(&b[..n]), b.len() - n)
    }
}

pub fn unhex(s: &str) -> Option<Vec<u8>> {
    let s = s.as_bytes();
    if s.len() % 2 != 0 {
        return None;
    }
    let mut out = Vec::with_capacity(s.len() / 2);
    for c in s.chunks(2) {
        let h = (c[0] as char).to_digit(16)?;
        let l = (c[1] as char).to_digit(16)?;
        out.push((h * 16 + l) as u8);
    }
    Some(out)
}

pub fn fnv(b: &[u8]) -> u64 {
    let mut h: u64 = 0xcbf29ce484222325;
    for x in b {
        h ^= *x as u64;
        h = h.wrapping_mul(0x100000001b3);
    }
    h
}
