//! Recursive field walk over the library's packet types (C12). Structs are destructured
//! without `..`, so a field added to the library shows up here as a compile error.

use mqtt_proto::{v3, v5, Pid, QosPid, TopicFilter, TopicName};
use std::sync::Arc;

pub enum Field<'a> {
    Str(&'static str, &'a str),
    Name(&'static str, &'a TopicName),
    Filter(&'static str, &'a TopicFilter),
    Pid(&'static str, Pid),
    VarInt(&'static str, u32),
    /// payload that is flagged as UTF-8
    Utf8Payload(&'static str, &'a [u8]),
}

fn arc<'a>(v: &mut Vec<Field<'a>>, l: &'static str, s: &'a Option<Arc<String>>) {
    if let Some(s) = s {
        v.push(Field::Str(l, s.as_str()));
    }
}

fn users<'a>(v: &mut Vec<Field<'a>>, ln: &'static str, lv: &'static str, u: &'a [v5::UserProperty]) {
    for p in u {
        let v5::UserProperty { name, value } = p;
        v.push(Field::Str(ln, name.as_str()));
        v.push(Field::Str(lv, value.as_str()));
    }
}

fn qp<'a>(v: &mut Vec<Field<'a>>, l: &'static str, q: &QosPid) {
    if let Some(p) = q.pid() {
        v.push(Field::Pid(l, p));
    }
}

pub fn fields_v3(p: &v3::Packet) -> Vec<Field<'_>> {
    use v3::Packet as P;
    let mut v = Vec::new();
    match p {
        P::Connect(v3::Connect { protocol: _, clean_session: _, keep_alive: _, client_id, last_will, username, password: _ }) => {
            v.push(Field::Str("v3.connect.client_id", client_id.as_str()));
            if let Some(v3::LastWill { qos: _, retain: _, topic_name, message: _ }) = last_will {
                v.push(Field::Name("v3.will.topic", topic_name));
            }
            arc(&mut v, "v3.connect.username", username);
        }
        P::Connack(v3::Connack { session_present: _, code: _ }) => {}
        P::Publish(v3::Publish { dup: _, retain: _, qos_pid, topic_name, payload: _ }) => {
            v.push(Field::Name("v3.publish.topic", topic_name));
            qp(&mut v, "v3.publish.pid", qos_pid);
        }
        P::Puback(pid) | P::Pubrec(pid) | P::Pubrel(pid) | P::Pubcomp(pid) | P::Unsuback(pid) => v.push(Field::Pid("v3.ack.pid", *pid)),
        P::Subscribe(v3::Subscribe { pid, topics }) => {
            v.push(Field::Pid("v3.subscribe.pid", *pid));
            for (f, _q) in topics {
                v.push(Field::Filter("v3.subscribe.filter", f));
            }
        }
        P::Suback(v3::Suback { pid, topics: _ }) => v.push(Field::Pid("v3.suback.pid", *pid)),
        P::Unsubscribe(v3::Unsubscribe { pid, topics }) => {
            v.push(Field::Pid("v3.unsubscribe.pid", *pid));
            for f in topics {
                v.push(Field::Filter("v3.unsubscribe.filter", f));
            }
        }
        P::Pingreq | P::Pingresp | P::Disconnect => {}
    }
    v
}

pub fn fields_v5(p: &v5::Packet) -> Vec<Field<'_>> {
    use v5::Packet as P;
    let mut v = Vec::new();
    match p {
        P::Connect(v5::Connect { protocol: _, clean_start: _, keep_alive: _, properties, client_id, last_will, username, password: _ }) => {
            let v5::ConnectProperties {
                session_expiry_interval: _,
                receive_max: _,
                max_packet_size: _,
                topic_alias_max: _,
                request_response_info: _,
                request_problem_info: _,
                user_properties,
                auth_method,
                auth_data: _,
            } = properties;
            users(&mut v, "v5.connect.user.name", "v5.connect.user.value", user_properties);
            arc(&mut v, "v5.connect.auth_method", auth_method);
            v.push(Field::Str("v5.connect.client_id", client_id.as_str()));
            if let Some(v5::LastWill { qos: _, retain: _, topic_name, payload, properties }) = last_will {
                let v5::WillProperties {
                    delay_interval: _,
                    payload_is_utf8,
                    message_expiry_interval: _,
                    content_type,
                    response_topic,
                    correlation_data: _,
                    user_properties,
                } = properties;
                v.push(Field::Name("v5.will.topic", topic_name));
                arc(&mut v, "v5.will.content_type", content_type);
                if let Some(r) = response_topic {
                    v.push(Field::Name("v5.will.response_topic", r));
                }
                users(&mut v, "v5.will.user.name", "v5.will.user.value", user_properties);
                if *payload_is_utf8 == Some(true) {
                    v.push(Field::Utf8Payload("v5.will.payload(utf8)", payload.as_ref()));
                }
            }
            arc(&mut v, "v5.connect.username", username);
        }
        P::Connack(v5::Connack { session_present: _, reason_code: _, properties }) => {
            let v5::ConnackProperties {
                session_expiry_interval: _,
                receive_max: _,
                max_qos: _,
                retain_available: _,
                max_packet_size: _,
                assigned_client_id,
                topic_alias_max: _,
                reason_string,
                user_properties,
                wildcard_subscription_available: _,
                subscription_id_available: _,
                shared_subscription_available: _,
                server_keep_alive: _,
                response_info,
                server_reference,
                auth_method,
                auth_data: _,
            } = properties;
            arc(&mut v, "v5.connack.assigned_client_id", assigned_client_id);
            arc(&mut v, "v5.connack.reason_string", reason_string);
            arc(&mut v, "v5.connack.response_info", response_info);
            arc(&mut v, "v5.connack.server_reference", server_reference);
            arc(&mut v, "v5.connack.auth_method", auth_method);
            users(&mut v, "v5.connack.user.name", "v5.connack.user.value", user_properties);
        }
        P::Publish(v5::Publish { dup: _, retain: _, qos_pid, topic_name, payload, properties }) => {
            let v5::PublishProperties {
                payload_is_utf8,
                message_expiry_interval: _,
                topic_alias: _,
                response_topic,
                correlation_data: _,
                user_properties,
                subscription_id,
                content_type,
            } = properties;
            v.push(Field::Name("v5.publish.topic", topic_name));
            qp(&mut v, "v5.publish.pid", qos_pid);
            if let Some(r) = response_topic {
                v.push(Field::Name("v5.publish.response_topic", r));
            }
            arc(&mut v, "v5.publish.content_type", content_type);
            users(&mut v, "v5.publish.user.name", "v5.publish.user.value", user_properties);
            if let Some(s) = subscription_id {
                v.push(Field::VarInt("v5.publish.subscription_id", s.value()));
            }
            if *payload_is_utf8 == Some(true) {
                v.push(Field::Utf8Payload("v5.publish.payload(utf8)", payload.as_ref()));
            }
        }
        P::Puback(v5::Puback { pid, reason_code: _, properties: v5::PubackProperties { reason_string, user_properties } }) => {
            v.push(Field::Pid("v5.puback.pid", *pid));
            arc(&mut v, "v5.ack.reason_string", reason_string);
            users(&mut v, "v5.ack.user.name", "v5.ack.user.value", user_properties);
        }
        P::Pubrec(v5::Pubrec { pid, reason_code: _, properties: v5::PubrecProperties { reason_string, user_properties } }) => {
            v.push(Field::Pid("v5.pubrec.pid", *pid));
            arc(&mut v, "v5.ack.reason_string", reason_string);
            users(&mut v, "v5.ack.user.name", "v5.ack.user.value", user_properties);
        }
        P::Pubrel(v5::Pubrel { pid, reason_code: _, properties: v5::PubrelProperties { reason_string, user_properties } }) => {
            v.push(Field::Pid("v5.pubrel.pid", *pid));
            arc(&mut v, "v5.ack.reason_string", reason_string);
            users(&mut v, "v5.ack.user.name", "v5.ack.user.value", user_properties);
        }
        P::Pubcomp(v5::Pubcomp { pid, reason_code: _, properties: v5::PubcompProperties { reason_string, user_properties } }) => {
            v.push(Field::Pid("v5.pubcomp.pid", *pid));
            arc(&mut v, "v5.ack.reason_string", reason_string);
            users(&mut v, "v5.ack.user.name", "v5.ack.user.value", user_properties);
        }
        P::Subscribe(v5::Subscribe { pid, properties: v5::SubscribeProperties { subscription_id, user_properties }, topics }) => {
            v.push(Field::Pid("v5.subscribe.pid", *pid));
            if let Some(s) = subscription_id {
                v.push(Field::VarInt("v5.subscribe.subscription_id", s.value()));
            }
            users(&mut v, "v5.subscribe.user.name", "v5.subscribe.user.value", user_properties);
            for (f, _o) in topics {
                v.push(Field::Filter("v5.subscribe.filter", f));
            }
        }
        P::Suback(v5::Suback { pid, properties: v5::SubackProperties { reason_string, user_properties }, topics: _ }) => {
            v.push(Field::Pid("v5.suback.pid", *pid));
            arc(&mut v, "v5.suback.reason_string", reason_string);
            users(&mut v, "v5.suback.user.name", "v5.suback.user.value", user_properties);
        }
        P::Unsubscribe(v5::Unsubscribe { pid, properties: v5::UnsubscribeProperties { user_properties }, topics }) => {
            v.push(Field::Pid("v5.unsubscribe.pid", *pid));
            users(&mut v, "v5.unsubscribe.user.name", "v5.unsubscribe.user.value", user_properties);
            for f in topics {
                v.push(Field::Filter("v5.unsubscribe.filter", f));
            }
        }
        P::Unsuback(v5::Unsuback { pid, properties: v5::UnsubackProperties { reason_string, user_properties }, topics: _ }) => {
            v.push(Field::Pid("v5.unsuback.pid", *pid));
            arc(&mut v, "v5.unsuback.reason_string", reason_string);
            users(&mut v, "v5.unsuback.user.name", "v5.unsuback.user.value", user_properties);
        }
        P::Pingreq | P::Pingresp => {}
        P::Disconnect(v5::Disconnect {
            reason_code: _,
            properties: v5::DisconnectProperties { session_expiry_interval: _, reason_string, user_properties, server_reference },
        }) => {
            arc(&mut v, "v5.disconnect.reason_string", reason_string);
            arc(&mut v, "v5.disconnect.server_reference", server_reference);
            users(&mut v, "v5.disconnect.user.name", "v5.disconnect.user.value", user_properties);
        }
        P::Auth(v5::Auth { reason_code: _, properties: v5::AuthProperties { auth_method, auth_data: _, reason_string, user_properties } }) => {
            arc(&mut v, "v5.auth.auth_method", auth_method);
            arc(&mut v, "v5.auth.reason_string", reason_string);
            users(&mut v, "v5.auth.user.name", "v5.auth.user.value", user_properties);
        }
    }
    v
}

pub const V3_LABELS: &[&str] = &[
    "v3.connect.client_id",
    "v3.will.topic",
    "v3.connect.username",
    "v3.publish.topic",
    "v3.publish.pid",
    "v3.ack.pid",
    "v3.subscribe.pid",
    "v3.subscribe.filter",
    "v3.suback.pid",
    "v3.unsubscribe.pid",
    "v3.unsubscribe.filter",
];

pub const V5_LABELS: &[&str] = &[
    "v5.connect.user.name",
    "v5.connect.user.value",
    "v5.connect.auth_method",
    "v5.connect.client_id",
    "v5.will.topic",
    "v5.will.content_type",
    "v5.will.response_topic",
    "v5.will.user.name",
    "v5.will.user.value",
    "v5.will.payload(utf8)",
    "v5.connect.username",
    "v5.connack.assigned_client_id",
    "v5.connack.reason_string",
    "v5.connack.response_info",
    "v5.connack.server_reference",
    "v5.connack.auth_method",
    "v5.connack.user.name",
    "v5.connack.user.value",
    "v5.publish.topic",
    "v5.publish.pid",
    "v5.publish.response_topic",
    "v5.publish.content_type",
    "v5.publish.user.name",
    "v5.publish.user.value",
    "v5.publish.subscription_id",
    "v5.publish.payload(utf8)",
    "v5.puback.pid",
    "v5.pubrec.pid",
    "v5.pubrel.pid",
    "v5.pubcomp.pid",
    "v5.ack.reason_string",
    "v5.ack.user.name",
    "v5.ack.user.value",
    "v5.subscribe.pid",
    "v5.subscribe.subscription_id",
    "v5.subscribe.user.name",
    "v5.subscribe.user.value",
    "v5.subscribe.filter",
    "v5.suback.pid",
    "v5.suback.reason_string",
    "v5.suback.user.name",
    "v5.suback.user.value",
    "v5.unsubscribe.pid",
    "v5.unsubscribe.user.name",
    "v5.unsubscribe.user.value",
    "v5.unsubscribe.filter",
    "v5.unsuback.pid",
    "v5.unsuback.reason_string",
    "v5.unsuback.user.name",
    "v5.unsuback.user.value",
    "v5.disconnect.reason_string",
    "v5.disconnect.server_reference",
    "v5.disconnect.user.name",
    "v5.disconnect.user.value",
    "v5.auth.auth_method",
    "v5.auth.reason_string",
    "v5.auth.user.name",
    "v5.auth.user.value",
];
