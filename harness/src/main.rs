use mqv::checks;
use mqv::json::{self, J};
use mqv::run::{self, Env, Failure, Input, SubReport, Tier};
use std::collections::BTreeMap;
use std::path::PathBuf;
use std::time::Instant;

fn profile() -> &'static str {
    if cfg!(debug_assertions) {
        "relcheck"
    } else {
        "release"
    }
}

fn usage() -> ! {
    eprintln!("usage: mqv check <ID> [--tier quick|thorough] [--seed N] [--root DIR] [--release-bin PATH] [--child-report PATH]\n       mqv replay <file> [--root DIR]\n       mqv list");
    std::process::exit(2);
}

struct Args {
    cmd: String,
    pos: Vec<String>,
    opts: BTreeMap<String, String>,
}

fn parse_args() -> Args {
    let mut it = std::env::args().skip(1);
    let cmd = it.next().unwrap_or_else(|| usage());
    let mut pos = Vec::new();
    let mut opts = BTreeMap::new();
    while let Some(a) = it.next() {
        if let Some(k) = a.strip_prefix("--") {
            let v = it.next().unwrap_or_else(|| usage());
            opts.insert(k.to_string(), v);
        } else {
            pos.push(a);
        }
    }
    Args { cmd, pos, opts }
}

fn sub_to_json(s: &SubReport) -> J {
    J::obj(vec![
        ("name", J::s(s.name.clone())),
        ("evaluations", J::Int(s.evals as i64)),
        ("distinct_nontrivial", J::Int(s.distinct as i64)),
        ("excluded", J::Int(s.excluded as i64)),
        ("digest", J::s(format!("{:016x}", s.digest))),
        ("wall_s", J::Num(s.wall_s)),
        ("exhaustive", match s.exhaustive {
            Some(b) => J::Bool(b),
            None => J::Null,
        }),
        ("classes", J::Obj(s.labels.iter().map(|(k, v)| (k.clone(), J::Int(*v as i64))).collect())),
        ("known_findings", J::Obj(s.known.iter().map(|(k, v)| (k.clone(), J::Int(*v as i64))).collect())),
        ("samples", J::Arr(s.samples.iter().map(|x| J::s(x.clone())).collect())),
    ])
}

fn failure_to_json(f: &Option<Failure>) -> J {
    match f {
        None => J::Null,
        Some(f) => J::obj(vec![("sub", J::s(f.sub.clone())), ("message", J::s(f.msg.clone())), ("input", f.input.to_json())]),
    }
}

struct ChildResult {
    subs: Vec<J>,
    failure: Option<(String, Input, String)>,
    digests: Vec<(String, String)>,
    evals: u64,
    known: BTreeMap<String, u64>,
}

fn run_child(bin: &str, prop: &str, tier: Tier, seed: u64, root: &PathBuf, extra: &[String]) -> Result<ChildResult, String> {
    run_child_env(bin, prop, tier, seed, root, extra, &[])
}

fn run_child_env(bin: &str, prop: &str, tier: Tier, seed: u64, root: &PathBuf, extra: &[String], envs: &[(&str, &str)]) -> Result<ChildResult, String> {
    let report = root.join("work").join(format!("child-{}-{}.json", prop, std::process::id()));
    let _ = std::fs::create_dir_all(root.join("work"));
    let _ = std::fs::remove_file(&report);
    let out = std::process::Command::new(bin)
        .args(["check", prop, "--tier", tier.name(), "--seed", &seed.to_string(), "--root"])
        .arg(root)
        .arg("--child-report")
        .arg(&report)
        .args(extra)
        .envs(envs.iter().copied())
        .output()
        .map_err(|e| format!("cannot run {}: {}", bin, e))?;
    let stdout = String::from_utf8_lossy(&out.stdout).to_string();
    // an abort inside the child already produced a VIOLATION line and a replay file
    if let Some(l) = stdout.lines().find(|l| l.starts_with("VIOLATION ")) {
        if !report.exists() {
            println!("{}", l);
            println!("(release-profile child process aborted)");
            std::process::exit(1);
        }
    }
    let text = std::fs::read_to_string(&report)
        .map_err(|e| format!("release-profile child wrote no report ({}); status {:?}; stderr {}", e, out.status, String::from_utf8_lossy(&out.stderr)))?;
    let _ = std::fs::remove_file(&report);
    let j = json::parse(&text).ok_or("child report is not JSON")?;
    let subs = j.get("subs").and_then(|s| s.as_arr()).cloned().unwrap_or_default();
    let mut digests = Vec::new();
    let mut evals = 0;
    let mut known = BTreeMap::new();
    for s in &subs {
        if let (Some(n), Some(d)) = (s.get("name").and_then(|x| x.as_str()), s.get("digest").and_then(|x| x.as_str())) {
            digests.push((n.to_string(), d.to_string()));
        }
        evals += s.get("evaluations").and_then(|x| x.as_i64()).unwrap_or(0) as u64;
        if let Some(J::Obj(k)) = s.get("known_findings") {
            for (kk, v) in k {
                *known.entry(kk.clone()).or_insert(0) += v.as_i64().unwrap_or(0) as u64;
            }
        }
    }
    let failure = match j.get("failure") {
        Some(f @ J::Obj(_)) => {
            let sub = f.get("sub").and_then(|x| x.as_str()).unwrap_or("").to_string();
            let msg = f.get("message").and_then(|x| x.as_str()).unwrap_or("").to_string();
            let input = f.get("input").and_then(Input::from_json).ok_or("child failure without input")?;
            Some((sub, input, msg))
        }
        _ => None,
    };
    Ok(ChildResult { subs, failure, digests, evals, known })
}

fn load_corpus(dir: &str, framed: bool, cap: usize) -> Vec<Input> {
    let mut files: Vec<PathBuf> = Vec::new();
    let mut stack = vec![PathBuf::from(dir)];
    while let Some(d) = stack.pop() {
        if let Ok(rd) = std::fs::read_dir(&d) {
            for e in rd.flatten() {
                let p = e.path();
                if p.is_dir() {
                    stack.push(p);
                } else {
                    files.push(p);
                }
            }
        }
    }
    files.sort();
    files.truncate(cap);
    files
        .iter()
        .filter_map(|f| std::fs::read(f).ok())
        .map(|b| if framed { if b.is_empty() { b } else { mqv::mutate::reframe(b[0], &b[1..]) } } else { b })
        .map(Input::Bytes)
        .collect()
}

/// delta debugging on the check's own predicate
fn minimize(sub: &run::Sub, prop: &'static str, mut b: Vec<u8>) -> Vec<u8> {
    let fails = |x: &[u8]| run::run_single(sub, &Input::Bytes(x.to_vec()), prop).is_err();
    let mut chunk = b.len() / 2;
    while chunk >= 1 {
        let mut i = 0;
        let mut changed = false;
        while i + chunk <= b.len() {
            let mut c = b.clone();
            c.drain(i..i + chunk);
            if fails(&c) {
                b = c;
                changed = true;
            } else {
                i += chunk;
            }
        }
        if !changed {
            chunk /= 2;
        }
    }
    // simplify bytes
    for i in 0..b.len() {
        for v in [0u8, 1, 0x61] {
            if b[i] != v {
                let old = b[i];
                b[i] = v;
                if fails(&b) {
                    break;
                }
                b[i] = old;
            }
        }
    }
    b
}

fn cmd_gencorpus(a: &Args) -> i32 {
    use mqv::fam::{Family, V3, V5};
    let out = PathBuf::from(a.pos.first().cloned().unwrap_or_else(|| usage()));
    let n: usize = a.opts.get("n").and_then(|x| x.parse().ok()).unwrap_or(300);
    let seed: u64 = a.opts.get("seed").and_then(|x| x.parse().ok()).unwrap_or(0);
    let kind = a.opts.get("kind").cloned().unwrap_or_else(|| "raw".into());
    let _ = std::fs::create_dir_all(&out);
    // deterministic tapes from a small LCG (corpus files are inputs of the fuzzer, not part of a property)
    let mut x = seed.wrapping_mul(0x9E3779B97F4A7C15).wrapping_add(0x1234_5678_9ABC_DEF1);
    let mut next = move || {
        x = x.wrapping_mul(6364136223846793005).wrapping_add(1442695040888963407);
        (x >> 33) as u16
    };
    let mut written = 0;
    for i in 0..n {
        let len = 8 + (next() as usize % 200);
        let tape: Vec<u16> = (0..len).map(|_| next()).collect();
        let bytes: Vec<u8> = match kind.as_str() {
            "tape" => tape.iter().flat_map(|v| v.to_le_bytes()).collect(),
            _ => {
                let mut t = mqv::tape::Tape::new(&tape);
                let cfg = mqv::gen::GenCfg::SMALL;
                let (b, _) = if i % 2 == 0 { mqv::corpus::gen_input::<V3>(&mut t, &cfg) } else { mqv::corpus::gen_input::<V5>(&mut t, &cfg) };
                let _ = (V3::FAM, V5::FAM);
                if kind == "unframed" {
                    // [control byte] ++ body: strip the remaining-length field
                    match mqv::refdec::frame_bounds(&b) {
                        Ok((hl, _)) if hl <= b.len() => {
                            let mut v = vec![b[0]];
                            v.extend_from_slice(&b[hl..]);
                            v
                        }
                        _ => b,
                    }
                } else {
                    b
                }
            }
        };
        if bytes.len() <= 4096 && std::fs::write(out.join(format!("seed-{:05}", i)), &bytes).is_ok() {
            written += 1;
        }
    }
    println!("gencorpus: {} files in {}", written, out.display());
    0
}

fn cmd_fuzz_triage(a: &Args) -> i32 {
    let prop_arg = a.pos.first().cloned().unwrap_or_else(|| usage());
    let file = a.pos.get(1).cloned().unwrap_or_else(|| usage());
    let root = PathBuf::from(a.opts.get("root").cloned().unwrap_or_else(|| "/verif".into()));
    let prop = match checks::static_prop(&prop_arg) {
        Some(p) => p,
        None => return 2,
    };
    mqv::kf::load(&root);
    run::install_panic_hook();
    let raw = match std::fs::read(&file) {
        Ok(b) => b,
        Err(_) => return 2,
    };
    let bytes = if checks::fuzz_framed(prop) && !raw.is_empty() { mqv::mutate::reframe(raw[0], &raw[1..]) } else { raw };
    for sub in checks::byte_subs(prop) {
        if let Err((_, v)) = run::run_single(&sub, &Input::Bytes(bytes.clone()), prop) {
            let small = minimize(&sub, prop, bytes.clone());
            let msg = match run::run_single(&sub, &Input::Bytes(small.clone()), prop) {
                Err((_, v2)) => v2.msg,
                Ok(_) => v.msg.clone(),
            };
            let path = write_replay(&root, prop, sub.name, &Input::Bytes(small), &format!("[found by libFuzzer, minimised] {}", msg), profile(), 0, Tier::Thorough);
            println!("FAILED sub-check {}: {}", sub.name, msg);
            println!("VIOLATION property={} replay={}", prop, path.display());
            return 1;
        }
    }
    println!("fuzz-triage: artifact {} does not reproduce under the plain {} binary", file, profile());
    0
}

fn write_replay(root: &PathBuf, prop: &str, sub: &str, input: &Input, msg: &str, prof: &str, seed: u64, tier: Tier) -> PathBuf {
    let dir = root.join("replays").join(prop);
    let _ = std::fs::create_dir_all(&dir);
    let j = run::replay_json(prop, sub, input, msg, prof, seed, tier.name());
    let text = j.render();
    let h = mqv::model::fnv(text.as_bytes());
    let path = dir.join(format!("{}-{:016x}.json", sub.replace('.', "_"), h));
    let _ = std::fs::write(&path, text);
    path
}

fn cmd_check(a: &Args) -> i32 {
    let t0 = Instant::now();
    let prop_arg = a.pos.first().cloned().unwrap_or_else(|| usage());
    let prop = match checks::static_prop(&prop_arg) {
        Some(p) => p,
        None => {
            eprintln!("unknown property {}", prop_arg);
            return 2;
        }
    };
    let tier = match a.opts.get("tier").map(|s| s.as_str()).or(std::env::var("VERIF_TIER").ok().as_deref()) {
        Some("thorough") => Tier::Thorough,
        _ => Tier::Quick,
    };
    let seed: u64 = a
        .opts
        .get("seed")
        .cloned()
        .or(std::env::var("VERIF_SEED").ok())
        .and_then(|s| s.trim().parse::<i64>().ok())
        .map(|x| x as u64)
        .unwrap_or(0);
    let root = PathBuf::from(a.opts.get("root").cloned().unwrap_or_else(|| "/verif".into()));
    mqv::kf::load(&root);
    run::install_panic_hook();
    run::install_abort_capture(prop, &root.join("replays").join(prop));
    // before anything else uses the library: both families meet the frames on which they differ, in an order that depends
    // on which process this is (under a panic guard: a panic here would be reported by the first check that decodes)
    {
        let is_child = a.opts.contains_key("child-report");
        let _ = mqv::run::guard(|| mqv::fam::process_warm(!is_child));
    }
    let mut env = Env::new(prop, tier, seed, root.clone(), profile());
    if let Some(only) = a.opts.get("only") {
        env.only = only.split(',').map(|x| x.to_string()).collect();
        // a stack overflow or an abort in the unoptimised library must leave a replayable case behind
        env.park = true;
    }
    let res = if env.only.is_empty() {
        checks::run(&mut env).expect("registered property")
    } else {
        // on a thread with the stack a spawned thread (a tokio worker, a std::thread) gets by default, not on the main
        // thread's 8 MiB
        let envp = &mut env;
        std::thread::scope(|sc| {
            std::thread::Builder::new()
                .stack_size(2 << 20)
                .spawn_scoped(sc, move || checks::run(envp).expect("registered property"))
                .expect("spawn")
                .join()
                .unwrap_or(Err(run::Stop))
        })
    };
    if !env.only.is_empty() {
        // (a child run of selected sub-checks: which classes must be reached is the parent's business)
        env.required_clear();
    }
    if res.is_ok() {
        if let Some(dir) = a.opts.get("fuzz-corpus") {
            let inputs = load_corpus(dir, checks::fuzz_framed(prop), 30_000);
            env.note(format!("fuzz corpus replayed through the plain {} binary: {} files from {}", profile(), inputs.len(), dir));
            for sub in checks::byte_subs(prop) {
                if env.run_inputs(sub, &inputs).is_err() {
                    break;
                }
            }
        }
    }
    let child_mode = a.opts.get("child-report");

    if let Some(path) = child_mode {
        let j = J::obj(vec![
            ("profile", J::s(profile())),
            ("subs", J::Arr(env.subs.iter().map(sub_to_json).collect())),
            ("failure", failure_to_json(&env.failure)),
        ]);
        if std::fs::write(path, j.render()).is_err() {
            return 2;
        }
        return 0;
    }

    let meta = checks::meta(prop);
    let mut failure: Option<(String, Input, String, &'static str)> =
        env.failure.as_ref().map(|f| (f.sub.clone(), f.input.clone(), f.msg.clone(), profile()));
    let mut profiles = vec![J::s(profile())];
    let mut child_subs: Vec<J> = Vec::new();
    let mut child_evals = 0u64;
    let mut known: BTreeMap<String, u64> = BTreeMap::new();
    for s in &env.subs {
        for (k, v) in &s.known {
            *known.entry(k.clone()).or_insert(0) += v;
        }
    }
    let mut inconclusive: Option<String> = None;
    if failure.is_none() && meta.two_profiles {
        if let Some(bin) = a.opts.get("release-bin") {
            let mut extra: Vec<String> = Vec::new();
            if let Some(d) = a.opts.get("fuzz-corpus") {
                extra.push("--fuzz-corpus".into());
                extra.push(d.clone());
            }
            match run_child(bin, prop, tier, seed, &root, &extra) {
                Ok(c) => {
                    profiles.push(J::s("release"));
                    child_evals = c.evals;
                    for (k, v) in &c.known {
                        *known.entry(k.clone()).or_insert(0) += v;
                    }
                    if let Some((sub, input, msg)) = c.failure {
                        failure = Some((sub, input, format!("[release profile] {}", msg), "release"));
                    } else if meta.compare_digests {
                        for (i, s) in env.subs.iter().enumerate() {
                            if let Some((n, d)) = c.digests.get(i) {
                                if *n == s.name && *d != format!("{:016x}", s.digest) {
                                    failure = Some((
                                        s.name.clone(),
                                        Input::Nums(vec![seed]),
                                        format!("encodings differ between build profiles for the same generated cases (digest relcheck {:016x}, release {}); re-run sub-check {} with seed {} under both profiles", s.digest, d, s.name, seed),
                                        "both",
                                    ));
                                    break;
                                }
                            }
                        }
                    }
                    child_subs = c.subs;
                }
                Err(e) => inconclusive = Some(e),
            }
        } else {
            env.note("release-profile binary not given: only the relcheck profile was run");
        }
    }

    // the deep-input sub-checks once more against the library compiled without optimisation
    if failure.is_none() && inconclusive.is_none() {
        if let (Some(bin), Some(only)) = (a.opts.get("dev-bin"), checks::deep_subs(prop)) {
            let extra: Vec<String> = vec!["--only".into(), only.join(",")];
            // C01: the worker threads of this run get 256 KiB of stack (what a thread-per-connection server or a C
            // runtime with small default stacks gives a decode; the unchanged library needs well under 64 KiB)
            let envs: &[(&str, &str)] = if prop == "C01" { &[("RUST_MIN_STACK", "262144")] } else { &[] };
            match run_child_env(bin, prop, tier, seed, &root, &extra, envs) {
                Ok(c) => {
                    profiles.push(J::s(if prop == "C01" { "devcheck (library at opt-level 0, worker threads with 256 KiB of stack)" } else { "devcheck (library at opt-level 0)" }));
                    child_evals += c.evals;
                    if let Some((sub, input, msg)) = c.failure {
                        failure = Some((sub, input, format!("[library built without optimisation] {}", msg), "devcheck"));
                    }
                }
                Err(e) => inconclusive = Some(e),
            }
        }
    }

    // evidence
    let fuzz_stats = a.opts.get("fuzz-stats").and_then(|p| std::fs::read_to_string(p).ok()).and_then(|t| json::parse(&t));
    let fuzz_execs = fuzz_stats.as_ref().and_then(|f| f.get("executions")).and_then(|x| x.as_i64()).unwrap_or(0) as u64;
    let evaluations: u64 = env.subs.iter().map(|s| s.evals).sum::<u64>() + child_evals + fuzz_execs;
    let distinct: u64 = env.subs.iter().map(|s| s.distinct).sum();
    let mut samples: Vec<J> = Vec::new();
    for s in &env.subs {
        for x in s.samples.iter().take(2) {
            if samples.len() < 12 {
                samples.push(J::s(format!("[{}] {}", s.name, x)));
            }
        }
    }
    if samples.is_empty() {
        samples.push(J::s("(no sample rendered)"));
    }
    let exhaustive = !env.subs.is_empty() && meta.exhaustive_when_complete && env.subs.iter().all(|s| s.exhaustive != Some(false)) && env.subs.iter().any(|s| s.exhaustive == Some(true)) && failure.is_none();
    let mut cov = vec![
        ("evaluations", J::Int(evaluations as i64)),
        ("distinct_nontrivial", J::Int(distinct as i64)),
        ("rule", J::s(meta.rule)),
        ("samples", J::Arr(samples)),
        ("exhaustive", J::Bool(exhaustive)),
        ("profiles", J::Arr(profiles)),
        ("subchecks", J::Arr(env.subs.iter().map(sub_to_json).collect())),
    ];
    if !child_subs.is_empty() {
        cov.push(("subchecks_release_profile", J::Arr(child_subs)));
    }
    if let Some(fs) = fuzz_stats {
        cov.push(("fuzzing", fs));
    }
    if let Some(ms) = a.opts.get("miri-stats").and_then(|p| std::fs::read_to_string(p).ok()).and_then(|t| json::parse(&t)) {
        cov.push(("miri", ms));
    }
    cov.push(("known_finding_hits", J::Obj(known.iter().map(|(k, v)| (k.clone(), J::Int(*v as i64))).collect())));
    cov.push(("notes", J::Arr(env.notes.iter().map(|n| J::s(n.clone())).collect())));
    let ev = J::obj(vec![
        ("property_id", J::s(prop)),
        ("tier", J::s(tier.name())),
        ("seed", J::Int(seed as i64)),
        ("level", J::s(meta.level)),
        ("coverage", J::obj(cov)),
        ("assumptions", J::Arr(meta.assumptions.iter().map(|x| J::s(*x)).collect())),
        ("wall_s", J::Num(t0.elapsed().as_secs_f64())),
        ("violations", J::Int(if failure.is_some() { 1 } else { 0 })),
    ]);
    let evdir = root.join("evidence");
    let _ = std::fs::create_dir_all(&evdir);
    if let Err(e) = std::fs::write(evdir.join(format!("{}.json", prop)), ev.render()) {
        eprintln!("cannot write evidence: {}", e);
        return 2;
    }

    for (k, v) in &known {
        println!("KNOWN-FINDING: {} (met {} times in this run)", k, v);
    }
    println!(
        "{} {} seed={} evaluations={} distinct_nontrivial={} wall={:.1}s",
        prop,
        tier.name(),
        seed,
        evaluations,
        distinct,
        t0.elapsed().as_secs_f64()
    );
    if let Some((sub, input, msg, prof)) = failure {
        let path = write_replay(&root, prop, &sub, &input, &msg, prof, seed, tier);
        println!("FAILED sub-check {}: {}", sub, msg);
        println!("VIOLATION property={} replay={}", prop, path.display());
        return 1;
    }
    if let Some(e) = inconclusive {
        eprintln!("INCONCLUSIVE: {}", e);
        return 2;
    }
    let miss = env.missing_required();
    if !miss.is_empty() {
        eprintln!("BROKEN-MACHINERY: classes the check promises to reach were empty: {}", miss.join(", "));
        return 2;
    }
    0
}

fn cmd_replay(a: &Args) -> i32 {
    let file = a.pos.first().cloned().unwrap_or_else(|| usage());
    let root = PathBuf::from(a.opts.get("root").cloned().unwrap_or_else(|| "/verif".into()));
    mqv::kf::load(&root);
    run::install_panic_hook();
    let text = match std::fs::read_to_string(&file) {
        Ok(t) => t,
        Err(e) => {
            eprintln!("cannot read {}: {}", file, e);
            return 2;
        }
    };
    let j = match json::parse(&text) {
        Some(j) => j,
        None => {
            eprintln!("{} is not JSON", file);
            return 2;
        }
    };
    let prop = j.get("property").and_then(|x| x.as_str()).and_then(checks::static_prop);
    let sub = j.get("sub").and_then(|x| x.as_str()).and_then(checks::find_sub);
    let input = j.get("input").and_then(Input::from_json);
    let (prop, sub, input) = match (prop, sub, input) {
        (Some(p), Some(s), Some(i)) => (p, s, i),
        _ => {
            eprintln!("{}: unknown property / sub-check or malformed input", file);
            return 2;
        }
    };
    run::install_abort_capture(prop, &root.join("replays").join(prop));
    match run::run_single(&sub, &input, prop) {
        Ok(ctx) => {
            for (k, v) in &ctx.known {
                println!("KNOWN-FINDING: {} (met {} times)", k, v);
            }
            println!("replay {} [{} profile]: no violation", sub.name, profile());
            0
        }
        Err((_, v)) => {
            println!("replay {} [{} profile]: {}", sub.name, profile(), v.msg);
            println!("VIOLATION property={} replay={}", prop, file);
            1
        }
    }
}

fn main() {
    let a = parse_args();
    let code = match a.cmd.as_str() {
        "check" => cmd_check(&a),
        "replay" => cmd_replay(&a),
        "gencorpus" => cmd_gencorpus(&a),
        "fuzz-triage" => cmd_fuzz_triage(&a),
        "list" => {
            for p in checks::ALL {
                println!("{}", p);
            }
            0
        }
        _ => usage(),
    };
    std::process::exit(code);
}
