//! Running library calls the way applications run them: inside a task of a tokio runtime — with the task's
//! cooperative-scheduling budget used up, which is the state a busy connection task is in most of the time. tokio's own
//! leaf futures (`tokio::io::copy`, channels, timers ...) answer Pending with a *deferred* wake-up in that state; a
//! library entry point that drives such a future with its own `block_on` inside the task then parks the thread for good.
//!
//! The call runs on a helper thread. "Never returns" is decided without a time budget: the helper thread is pure
//! computation over memory (no I/O, no other thread that could wake it), so if it is found *sleeping* with its CPU time
//! standing still for five consecutive seconds it is parked for good. A thread that is merely slow is runnable and
//! accumulates CPU time; that case is waited out (and reported as inconclusive after ten minutes, never as a violation).

use std::sync::mpsc;
use std::time::Duration;

/// (state letter, utime + stime in clock ticks) of a thread of this process
fn thread_stat(tid: i32) -> Option<(char, u64)> {
    let s = std::fs::read_to_string(format!("/proc/self/task/{}/stat", tid)).ok()?;
    let rest = &s[s.rfind(')')? + 2..];
    let f: Vec<&str> = rest.split_whitespace().collect();
    let state = f.first()?.chars().next()?;
    let ut: u64 = f.get(11)?.parse().ok()?;
    let st: u64 = f.get(12)?.parse().ok()?;
    Some((state, ut + st))
}

pub enum Outcome<T> {
    Done(T),
    /// the call panicked (message)
    Panicked(String),
    /// the thread is parked for good: it slept without consuming CPU for five consecutive seconds and nothing exists
    /// that could wake it
    Parked,
    /// still running (consuming CPU) after ten minutes
    Inconclusive,
}

/// Runs `f` inside a task of a current-thread tokio runtime whose cooperative budget has been used up.
pub fn in_exhausted_task<T: Send + 'static>(f: impl FnOnce() -> T + Send + 'static) -> Outcome<T> {
    let (tx, rx) = mpsc::channel::<Result<T, String>>();
    let (tid_tx, tid_rx) = mpsc::channel::<i32>();
    let h = std::thread::Builder::new().stack_size(8 << 20).spawn(move || {
        let _ = tid_tx.send(unsafe { libc::gettid() });
        let r = std::panic::catch_unwind(std::panic::AssertUnwindSafe(|| {
            let rt = tokio::runtime::Builder::new_current_thread().build().expect("tokio runtime");
            rt.block_on(async move {
                while tokio::task::coop::has_budget_remaining() {
                    tokio::task::coop::consume_budget().await;
                }
                f()
            })
        }));
        let _ = tx.send(r.map_err(|e| {
            if let Some(s) = e.downcast_ref::<&str>() {
                s.to_string()
            } else if let Some(s) = e.downcast_ref::<String>() {
                s.clone()
            } else {
                "<non-string panic>".to_string()
            }
        }));
    });
    let h = match h {
        Ok(h) => h,
        Err(_) => return Outcome::Inconclusive,
    };
    let tid = tid_rx.recv_timeout(Duration::from_secs(60)).unwrap_or(0);
    let mut asleep = 0u32;
    let mut last_cpu = u64::MAX;
    for _ in 0..600 {
        match rx.recv_timeout(Duration::from_secs(1)) {
            Ok(Ok(v)) => {
                let _ = h.join();
                return Outcome::Done(v);
            }
            Ok(Err(m)) => {
                let _ = h.join();
                return Outcome::Panicked(m);
            }
            Err(mpsc::RecvTimeoutError::Disconnected) => return Outcome::Panicked("helper thread vanished".to_string()),
            Err(mpsc::RecvTimeoutError::Timeout) => match thread_stat(tid) {
                Some(('S', cpu)) if cpu == last_cpu => {
                    asleep += 1;
                    if asleep >= 5 {
                        return Outcome::Parked; // the thread is left behind; the process ends with the run
                    }
                }
                Some((_, cpu)) => {
                    asleep = 0;
                    last_cpu = cpu;
                }
                None => {}
            },
        }
    }
    Outcome::Inconclusive
}
