//! Split-based predicates for topic names and filters, written from MQTT 4.7 / 4.8
//! (v3.1.1 §4.7, v5.0 §4.7 and §4.8.2). They share no code with the library's validator.

/// MQTT 4.7.3: UTF-8 (given by &str), no wildcard characters, no U+0000, at most 65,535 bytes.
/// Empty names are allowed at this level (pinned leniency L4: v5 topic alias).
pub fn name_valid(s: &str) -> bool {
    s.len() <= 65_535 && !s.chars().any(|c| c == '+' || c == '#' || c == '\0')
}

/// `Some((share name, filter))` for a well-formed shared subscription filter.
pub fn shared_split(s: &str) -> Option<(&str, &str)> {
    let rest = s.strip_prefix("$share/")?;
    let i = rest.find('/')?;
    Some((&rest[..i], &rest[i + 1..]))
}

pub fn filter_valid(s: &str) -> bool {
    if s.is_empty() || s.len() > 65_535 || s.contains('\0') {
        return false;
    }
    let levels: Vec<&str> = s.split('/').collect();
    let last = levels.len() - 1;
    for (i, l) in levels.iter().enumerate() {
        if l.contains('#') && (*l != "#" || i != last) {
            return false;
        }
        if l.contains('+') && *l != "+" {
            return false;
        }
    }
    if s.starts_with("$share/") {
        match shared_split(s) {
            None => false,
            Some((name, filt)) => {
                !name.is_empty() && !name.contains('+') && !name.contains('#') && !filt.is_empty()
            }
        }
    } else {
        true
    }
}
