#![no_main]
// C04: framed input ([control byte] ++ var-int(len(rest)) ++ rest) so that the fuzzer spends its
// time in the body grammar; strict decoder vs reference decoder.
use libfuzzer_sys::fuzz_target;
use mqv::fuzzsupport as fs;

fuzz_target!(|data: &[u8]| {
    fs::init("C04");
    if data.is_empty() {
        return;
    }
    let frame = mqv::mutate::reframe(data[0], &data[1..]);
    fs::run(&frame, "c04", |b, ctx| {
        mqv::checks::c04::decide::<mqv::fam::V3>(b, ctx)?;
        mqv::checks::c04::decide::<mqv::fam::V5>(b, ctx)?;
        Ok(())
    });
});
