#![no_main]
// C11 + C12: whatever any front-end accepts is re-encodable, canonical and satisfies its types' invariants.
use libfuzzer_sys::fuzz_target;
use mqv::fuzzsupport as fs;

fuzz_target!(|data: &[u8]| {
    fs::init("C11");
    fs::run(data, "c11/c12", |b, ctx| {
        mqv::checks::c11::reencode::<mqv::fam::V3>(b, "fuzz", ctx)?;
        mqv::checks::c11::reencode::<mqv::fam::V5>(b, "fuzz", ctx)?;
        mqv::checks::c12::all_fronts::<mqv::fam::V3>(b, "fuzz", ctx)?;
        mqv::checks::c12::all_fronts::<mqv::fam::V5>(b, "fuzz", ctx)
    });
});
