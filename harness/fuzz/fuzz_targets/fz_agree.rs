#![no_main]
// C06: the three front-ends agree (oracle inside the target).
use libfuzzer_sys::fuzz_target;
use mqv::fuzzsupport as fs;

fuzz_target!(|data: &[u8]| {
    fs::init("C06");
    fs::run(data, "c06", |b, ctx| {
        mqv::checks::c06::agree::<mqv::fam::V3>(b, "fuzz", ctx)?;
        mqv::checks::c06::agree::<mqv::fam::V5>(b, "fuzz", ctx)
    });
});
