#![no_main]
// C03: every decoder entry point of both families on raw bytes. A panic, an abort, an ASan
// report or a transport polled beyond its bound (MQV-SPIN panic) stops the campaign.
use libfuzzer_sys::fuzz_target;
use mqv::fuzzsupport as fs;

fuzz_target!(|data: &[u8]| {
    fs::init("C03");
    fs::run(data, "c03", |b, ctx| {
        mqv::checks::c03::total::<mqv::fam::V3>(b, ctx)?;
        mqv::checks::c03::total::<mqv::fam::V5>(b, ctx)
    });
});
